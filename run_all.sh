#!/bin/sh
# Runs the quick (or given) tier of every registered check; prints one line per check and the exit status.
cd "$(dirname "$0")"
tier="${1:-quick}"
rc=0
for pid in $(python3 -c "import json;print(' '.join(c['property_id'] for c in json.load(open('MANIFEST.json'))['checks']))"); do
  start=$(date +%s)
  out=$(./check "$pid" --tier "$tier" 2>&1); st=$?
  echo "$pid exit=$st $(( $(date +%s) - start ))s  $(echo "$out" | tail -1 | cut -c1-160)"
  [ $st -ne 0 ] && { rc=1; echo "$out" | grep -E "VIOLATION|MACHINERY|KNOWN" | head -5; }
done
exit $rc
