#!/usr/bin/env python3
"""Generate hgraph/version.h from version.h.in (CMake's configure_file is not usable offline)."""
import sys, re, os
repo, out = sys.argv[1], sys.argv[2]
src = open(os.path.join(repo, "include/hgraph/version.h.in")).read()
vals = {"PROJECT_VERSION_MAJOR": "0", "PROJECT_VERSION_MINOR": "8", "PROJECT_VERSION_PATCH": "0",
        "PROJECT_VERSION": "0.8.0", "HGRAPH_GIT_BRANCH": "verif", "HGRAPH_GIT_COMMIT_HASH": "0",
        "HGRAPH_GIT_COMMIT_DATE": "0"}
txt = re.sub(r"@(\w+)@", lambda m: vals.get(m.group(1), "0"), src)
os.makedirs(os.path.dirname(out), exist_ok=True)
if not os.path.exists(out) or open(out).read() != txt:
    open(out, "w").write(txt)
