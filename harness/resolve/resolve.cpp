// hgv_resolve: native driver of the C19 check (operator resolution).
//
// A scenario describes one overload family, one argument tuple and any number of registration orders:
//
//     fam <name>
//     c <label> <param>;<param> -> <output pattern>          (one line per candidate; "-" = no parameters;
//                                                             a leading '*' on the LAST parameter makes the candidate
//                                                             variadic: OperatorImpl::variadic, that pattern is the tail)
//     args <type>;<type>
//     order <label>,<label>,...                              (one line per registration order)
//     run
//
// Type / pattern language (shared with spec/Resolution.tla, no blanks):
//     scalar types      int  float  str
//     time-series types TS<s>  TSS<s>  TSL<t,n>  (n = 0: dynamic)  TSD<s,t>  TSB{a:t,b:t}  REF<t>  SIGNAL
//     pattern leaves    $S scalar variable   ~T whole-time-series variable   #N size variable (TSL size position)
//                       !<type> concrete interned leaf (TypePattern::concrete); in a TSL pattern size 0 = unconstrained
//     a top-level scalar type / $S is a *scalar parameter* (ParamPattern::Kind::Scalar) resp. a scalar argument value.
// The argument tuple may be longer than a candidate's parameter list (the overflow is the tail of a variadic candidate).
//
// For every scenario the driver emits
//     {"e":"solo","c":[{"l":label,"base":operator_rank,"prank":sum of ts_pattern_rank/scalar_pattern_rank,
//                       "eff":effective rank the tree reports when the candidate is registered alone,"m":1|0}...]}
//     {"e":"res","order":[...],"kind":"ok"|"nomatch"|"ambiguous"|"other","sel":label,"dsel":label seen by the observer,
//      "rk":[[label,rank]...] (ranks in the WiringResolutionEvent),"rej":[labels],"amb":[labels],
//      "bind":[[var,type]...],"out":type,"err":text}                                      one per order
//     {"e":"done"}
// Patterns are built at run time with the tree's TypePattern / ScalarPattern / ParamPattern, ranked with the tree's
// operator_dispatch_detail::operator_rank (for a variadic candidate without the tail pattern, as build_graph_overload
// does), registered in the given order under a fresh operator name after
// OperatorRegistry::reset(), and resolved with OperatorRegistry::resolve (a Wiring carrying a WiringObserver supplies
// the WiringResolutionEvent).
#include "common.h"

#include <hgraph/types/operator_dispatch.h>
#include <hgraph/types/type_pattern.h>
#include <hgraph/types/wiring_observer.h>

#include <algorithm>
#include <memory>
#include <optional>
#include <stdexcept>

namespace
{
    using namespace hgv;

    // ------------------------------------------------------------------------------------------ terms
    struct Term
    {
        std::string       k;  // sc sv tv conc TS TSS TSL TSD TSB REF SIG
        std::string       s;  // scalar name / variable (with sigil) / TSL size ("0","2","#N") / TSB field names "a,b"
        std::vector<Term> c;
    };

    struct Parser
    {
        const std::string &t;
        size_t             i{0};
        explicit Parser(const std::string &text) : t(text) {}
        [[noreturn]] void fail(const std::string &what) const
        {
            throw std::runtime_error("cannot parse '" + t + "' at " + std::to_string(i) + ": " + what);
        }
        bool eat(const char *lit)
        {
            size_t n = std::char_traits<char>::length(lit);
            if (t.compare(i, n, lit) == 0)
            {
                i += n;
                return true;
            }
            return false;
        }
        void expect(const char *lit)
        {
            if (!eat(lit)) { fail(std::string{"expected "} + lit); }
        }
        std::string ident()
        {
            size_t b = i;
            while (i < t.size() && (std::isalnum(static_cast<unsigned char>(t[i])) || t[i] == '_')) { ++i; }
            if (b == i) { fail("identifier expected"); }
            return t.substr(b, i - b);
        }
        Term term()
        {
            Term r;
            if (eat("TSS<"))
            {
                r.k = "TSS";
                r.c.push_back(term());
                expect(">");
            }
            else if (eat("TSL<"))
            {
                r.k = "TSL";
                r.c.push_back(term());
                expect(",");
                if (eat("#")) { r.s = "#" + ident(); }
                else { r.s = ident(); }
                expect(">");
            }
            else if (eat("TSD<"))
            {
                r.k = "TSD";
                r.c.push_back(term());
                expect(",");
                r.c.push_back(term());
                expect(">");
            }
            else if (eat("TSB{"))
            {
                r.k = "TSB";
                while (true)
                {
                    std::string name = ident();
                    expect(":");
                    if (!r.s.empty()) { r.s += ","; }
                    r.s += name;
                    r.c.push_back(term());
                    if (eat("}")) { break; }
                    expect(",");
                }
            }
            else if (eat("TS<"))
            {
                r.k = "TS";
                r.c.push_back(term());
                expect(">");
            }
            else if (eat("REF<"))
            {
                r.k = "REF";
                r.c.push_back(term());
                expect(">");
            }
            else if (eat("SIGNAL")) { r.k = "SIG"; }
            else if (eat("!"))
            {
                r.k = "conc";
                r.c.push_back(term());
            }
            else if (eat("~"))
            {
                r.k = "tv";
                r.s = "~" + ident();
            }
            else if (eat("$"))
            {
                r.k = "sv";
                r.s = "$" + ident();
            }
            else
            {
                r.k = "sc";
                r.s = ident();
                if (r.s != "int" && r.s != "float" && r.s != "str") { fail("unknown scalar " + r.s); }
            }
            return r;
        }
    };

    Term parse_term(const std::string &text)
    {
        Parser p{text};
        Term   r = p.term();
        if (p.i != text.size()) { p.fail("trailing text"); }
        return r;
    }

    bool is_scalar_term(const Term &t) { return t.k == "sc" || t.k == "sv"; }

    // ------------------------------------------------------------------------------------------ tree objects
    const ValueTypeMetaData *scalar_meta(const std::string &n)
    {
        if (n == "int") { return scalar_descriptor<Int>::value_meta(); }
        if (n == "float") { return scalar_descriptor<Float>::value_meta(); }
        if (n == "str") { return scalar_descriptor<Str>::value_meta(); }
        throw std::runtime_error("unknown scalar " + n);
    }

    std::string scalar_text(const ValueTypeMetaData *m)
    {
        if (m == nullptr) { return "null"; }
        if (m == scalar_descriptor<Int>::value_meta()) { return "int"; }
        if (m == scalar_descriptor<Float>::value_meta()) { return "float"; }
        if (m == scalar_descriptor<Str>::value_meta()) { return "str"; }
        return "?" + std::string{m->name()};
    }

    std::string type_text(const TSValueTypeMetaData *m)
    {
        if (m == nullptr) { return "null"; }
        switch (m->kind)
        {
            case TSTypeKind::TS: return "TS<" + scalar_text(m->value_schema) + ">";
            case TSTypeKind::TSS:
                return "TSS<" + scalar_text(m->value_schema != nullptr ? m->value_schema->element_type : nullptr) + ">";
            case TSTypeKind::TSL: return "TSL<" + type_text(m->element_ts()) + "," + std::to_string(m->fixed_size()) + ">";
            case TSTypeKind::TSD: return "TSD<" + scalar_text(m->key_type()) + "," + type_text(m->element_ts()) + ">";
            case TSTypeKind::TSB:
            {
                std::string o = "TSB{";
                for (size_t i = 0; i < m->field_count(); ++i)
                {
                    if (i) { o += ","; }
                    o += m->fields()[i].name != nullptr ? m->fields()[i].name : "?";
                    o += ":";
                    o += type_text(m->fields()[i].type);
                }
                return o + "}";
            }
            case TSTypeKind::REF: return "REF<" + type_text(m->referenced_ts()) + ">";
            case TSTypeKind::SIGNAL: return "SIGNAL";
            default: return "?" + std::string{m->name()};
        }
    }

    const TSValueTypeMetaData *build_type(const Term &t)
    {
        auto &reg = TypeRegistry::instance();
        if (t.k == "TS") { return reg.ts(scalar_meta(t.c.at(0).s)); }
        if (t.k == "TSS") { return reg.tss(scalar_meta(t.c.at(0).s)); }
        if (t.k == "TSL") { return reg.tsl(build_type(t.c.at(0)), static_cast<size_t>(std::stoul(t.s))); }
        if (t.k == "TSD") { return reg.tsd(scalar_meta(t.c.at(0).s), build_type(t.c.at(1))); }
        if (t.k == "TSB")
        {
            auto                                                             names = split(t.s, ',');
            std::vector<std::pair<std::string, const TSValueTypeMetaData *>> fields;
            for (size_t i = 0; i < t.c.size(); ++i) { fields.emplace_back(names.at(i), build_type(t.c[i])); }
            return reg.un_named_tsb(fields);
        }
        if (t.k == "REF") { return reg.ref(build_type(t.c.at(0))); }
        if (t.k == "SIG") { return reg.signal(); }
        throw std::runtime_error("not a concrete time-series type: " + t.k + " " + t.s);
    }

    ScalarPattern build_sp(const Term &t)
    {
        if (t.k == "sv") { return ScalarPattern::var(t.s.substr(1)); }
        if (t.k == "sc") { return ScalarPattern::concrete(scalar_meta(t.s)); }
        throw std::runtime_error("not a scalar pattern: " + t.k);
    }

    TypePattern build_tp(const Term &t)
    {
        if (t.k == "tv") { return TypePattern::var(t.s.substr(1)); }
        if (t.k == "conc") { return TypePattern::concrete(build_type(t.c.at(0))); }
        if (t.k == "TS") { return TypePattern::ts(build_sp(t.c.at(0))); }
        if (t.k == "TSS") { return TypePattern::tss(build_sp(t.c.at(0))); }
        if (t.k == "TSL")
        {
            if (!t.s.empty() && t.s[0] == '#') { return TypePattern::tsl_var(build_tp(t.c.at(0)), t.s.substr(1)); }
            return TypePattern::tsl(build_tp(t.c.at(0)), static_cast<size_t>(std::stoul(t.s)));
        }
        if (t.k == "TSD") { return TypePattern::tsd(build_sp(t.c.at(0)), build_tp(t.c.at(1))); }
        if (t.k == "TSB")
        {
            std::vector<TypePattern> children;
            for (auto &c : t.c) { children.push_back(build_tp(c)); }
            return TypePattern::tsb(split(t.s, ','), std::move(children));
        }
        if (t.k == "REF") { return TypePattern::ref(build_tp(t.c.at(0))); }
        if (t.k == "SIG") { return TypePattern::signal(); }
        throw std::runtime_error("not a time-series pattern: " + t.k + " " + t.s);
    }

    ParamPattern build_param(const Term &t, size_t index)
    {
        ParamPattern p;
        p.name = "p" + std::to_string(index);
        if (is_scalar_term(t))
        {
            p.kind   = ParamPattern::Kind::Scalar;
            p.scalar = build_sp(t);
        }
        else
        {
            p.kind = ParamPattern::Kind::Input;
            p.ts   = build_tp(t);
        }
        return p;
    }

    WiringArg build_arg(const Term &t)
    {
        WiringArg a;
        if (t.k == "sc")
        {
            a.kind = WiringArg::Kind::Scalar;
            if (t.s == "int") { a.scalar_value = Value{Int{7}}; }
            else if (t.s == "float") { a.scalar_value = Value{Float{1.5}}; }
            else { a.scalar_value = Value{Str{"x"}}; }
            a.scalar_meta = a.scalar_value.schema();
        }
        else
        {
            a.kind        = WiringArg::Kind::TimeSeries;
            a.port.schema = build_type(t);
        }
        return a;
    }

    struct Candidate
    {
        std::string               label;
        std::vector<ParamPattern> params;
        TypePattern               output;
        bool                      variadic{false};  // the last parameter is the tail pattern
        int                       base{0};   // the tree's operator_rank(params)
        int                       prank{0};  // sum of the tree's ts_pattern_rank / scalar_pattern_rank over the parameters
    };

    struct Recorder final : WiringObserver
    {
        std::optional<WiringResolutionEvent> last;
        void on_overload_resolution(const WiringResolutionEvent &ev) override { last = ev; }
    };

    struct Scenario
    {
        std::string                           name;
        std::vector<Candidate>                cands;
        std::vector<WiringArg>                args;
        std::vector<std::vector<std::string>> orders;
    };

    long g_counter = 0;

    std::string jlabels(const std::vector<std::string> &v)
    {
        std::string o = "[";
        for (size_t i = 0; i < v.size(); ++i)
        {
            if (i) { o += ","; }
            o += jstr(v[i]);
        }
        return o + "]";
    }

    struct Outcome
    {
        std::string                                      kind, sel, dsel, out, err;
        std::vector<std::pair<std::string, int>>         rk;
        std::vector<std::string>                         rej, amb;
        std::vector<std::pair<std::string, std::string>> bind;
    };

    Outcome resolve_once(const Scenario &scn, const std::vector<std::string> &order)
    {
        Outcome o;
        auto   &reg = OperatorRegistry::instance();
        reg.reset();
        const std::string opname = "c19_op_" + std::to_string(++g_counter);
        for (const auto &label : order)
        {
            auto it = std::find_if(scn.cands.begin(), scn.cands.end(), [&](const Candidate &c) { return c.label == label; });
            if (it == scn.cands.end()) { throw std::runtime_error("order names unknown candidate " + label); }
            OperatorImpl impl;
            impl.name       = opname;
            impl.label      = it->label;
            impl.params     = it->params;
            impl.variadic   = it->variadic;
            impl.has_output = true;
            impl.output     = it->output;
            impl.rank       = operator_dispatch_detail::operator_rank(impl.params, impl.variadic);
            reg.register_overload(std::move(impl));
        }
        Wiring   w;
        Recorder rec;
        w.add_wiring_observer(&rec);
        try
        {
            ResolvedOperatorCall r = reg.resolve(opname, std::span<const WiringArg>{scn.args}, std::nullopt, nullptr, {}, {}, &w);
            o.kind                 = "ok";
            o.sel                  = r.impl != nullptr ? r.impl->label : "";
            if (r.impl != nullptr) { o.out = type_text(ts_pattern_resolve(r.impl->output, r.map)); }
            for (const auto &[k, v] : r.map.ts_vars) { o.bind.emplace_back("~" + k, type_text(v)); }
            for (const auto &[k, v] : r.map.scalar_vars) { o.bind.emplace_back("$" + k, scalar_text(v)); }
            for (const auto &[k, v] : r.map.size_vars) { o.bind.emplace_back("#" + k, std::to_string(v)); }
            std::sort(o.bind.begin(), o.bind.end());
        }
        catch (const OperatorResolutionError &e)
        {
            o.err = e.what();
            if (o.err.rfind("ambiguous overloads", 0) == 0) { o.kind = "ambiguous"; }
            else if (o.err.rfind("no matching overload", 0) == 0) { o.kind = "nomatch"; }
            else { o.kind = "other"; }
        }
        catch (const std::exception &e)
        {
            o.err  = e.what();
            o.kind = "other";
        }
        if (rec.last.has_value())
        {
            const auto &ev = *rec.last;
            if (ev.selected.has_value())
            {
                o.dsel = ev.selected->label;
                o.rk.emplace_back(ev.selected->label, ev.selected->rank);
            }
            for (const auto &c : ev.rejected)
            {
                o.rej.push_back(c.label);
                o.rk.emplace_back(c.label, c.rank);
            }
            for (const auto &c : ev.ambiguous)
            {
                o.amb.push_back(c.label);
                o.rk.emplace_back(c.label, c.rank);
            }
        }
        reg.reset();
        return o;
    }

    void run_scenario(const Scenario &scn)
    {
        // 1. every candidate alone: the effective rank the tree attaches to (candidate, arguments)
        std::string solo = "[";
        for (size_t i = 0; i < scn.cands.size(); ++i)
        {
            const Candidate &c = scn.cands[i];
            Outcome          o = resolve_once(scn, {c.label});
            int              eff = -1;
            for (const auto &[l, r] : o.rk)
            {
                if (l == c.label) { eff = r; }
            }
            if (i) { solo += ","; }
            solo += "{\"l\":" + jstr(c.label) + ",\"base\":" + std::to_string(c.base) + ",\"prank\":" + std::to_string(c.prank) +
                    ",\"eff\":" + std::to_string(eff) + ",\"m\":" + (o.kind == "ok" ? "1" : "0") + ",\"kind\":" + jstr(o.kind) + "}";
        }
        solo += "]";
        J("solo").raw("c", solo).emit();
        // 2. the family in every requested registration order
        for (const auto &order : scn.orders)
        {
            Outcome     o  = resolve_once(scn, order);
            std::string rk = "[";
            for (size_t i = 0; i < o.rk.size(); ++i)
            {
                if (i) { rk += ","; }
                rk += "[" + jstr(o.rk[i].first) + "," + std::to_string(o.rk[i].second) + "]";
            }
            rk += "]";
            std::string bind = "[";
            for (size_t i = 0; i < o.bind.size(); ++i)
            {
                if (i) { bind += ","; }
                bind += "[" + jstr(o.bind[i].first) + "," + jstr(o.bind[i].second) + "]";
            }
            bind += "]";
            J("res")
                .raw("order", jlabels(order))
                .str("kind", o.kind)
                .str("sel", o.sel)
                .str("dsel", o.dsel)
                .raw("rk", rk)
                .raw("rej", jlabels(o.rej))
                .raw("amb", jlabels(o.amb))
                .raw("bind", bind)
                .str("out", o.out)
                .str("err", o.kind == "other" ? o.err : "")
                .emit();
        }
    }
}  // namespace

int main(int, char **)
{
    std::string               text;
    std::unique_ptr<Scenario> scn;
    bool                      broken = false;
    std::string               why;
    while (std::getline(std::cin, text))
    {
        Line l = parse_line(text);
        if (l.pos.empty() || l.pos[0][0] == '#') { continue; }
        const std::string &cmd = l.pos[0];
        try
        {
            if (cmd == "fam")
            {
                scn       = std::make_unique<Scenario>();
                scn->name = l.pos.size() > 1 ? l.pos[1] : "";
                broken    = false;
                why.clear();
            }
            else if (cmd == "c")
            {
                // c <label> <params> -> <out>
                Candidate c;
                c.label = l.pos.at(1);
                if (l.pos.at(2) != "-")
                {
                    size_t k     = 0;
                    auto   texts = split(l.pos.at(2), ';');
                    for (auto &ptxt : texts)
                    {
                        if (!ptxt.empty() && ptxt[0] == '*')
                        {
                            if (k + 1 != texts.size()) { throw std::runtime_error("only the last parameter may be variadic"); }
                            c.variadic = true;
                            ptxt.erase(0, 1);
                        }
                        Term t = parse_term(ptxt);
                        if (c.variadic && is_scalar_term(t)) { throw std::runtime_error("a variadic tail is a time-series pattern"); }
                        c.params.push_back(build_param(t, k++));
                        c.prank += is_scalar_term(t) ? scalar_pattern_rank(c.params.back().scalar) : ts_pattern_rank(c.params.back().ts);
                    }
                }
                if (l.pos.at(3) != "->") { throw std::runtime_error("expected ->"); }
                c.output = build_tp(parse_term(l.pos.at(4)));
                c.base   = operator_dispatch_detail::operator_rank(c.params, c.variadic);
                scn->cands.push_back(std::move(c));
            }
            else if (cmd == "args")
            {
                if (l.pos.size() > 1 && l.pos[1] != "-")
                {
                    for (auto &atxt : split(l.pos[1], ';')) { scn->args.push_back(build_arg(parse_term(atxt))); }
                }
            }
            else if (cmd == "order") { scn->orders.push_back(split(l.pos.at(1), ',')); }
            else if (cmd == "run")
            {
                if (broken) { J("harnessfail").str("msg", why).emit(); }
                else { run_scenario(*scn); }
                J("done").emit();
                trace().flush();
            }
        }
        catch (const std::exception &e)
        {
            if (cmd == "run")
            {
                J("harnessfail").str("msg", e.what()).emit();
                J("done").emit();
                trace().flush();
            }
            else
            {
                broken = true;
                why    = e.what();
            }
        }
    }
    trace().flush();
    return 0;
}
