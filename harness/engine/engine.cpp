// hgv_engine: interpreter-style driver for the engine family of specifications.
// stdin: scenarios (see DESIGN.md / glue/scenario.py); stdout: ndjson trace.
//
//   scn <name>
//   opt start=<k> end=<k> [cleanup=0|1]
//   graph root | graph g<K> nin=<n>
//     n <id> <kind> [key=value ...] [in=<ref>,<ref>,...]      refs: <id> | a<k> (boundary arg k)
//     bind <fbid> <ref>                                       bind a feedback
//     out <ref>
//   endgraph
//   run
//
// Every vocabulary node logs what *user code* saw from inside its eval callback; the lifecycle
// observer logs graph/node level events for root and every nested graph instance.
#include "../common.h"

#include <hgraph/lib/std/operators/higher_order.h>
#include <hgraph/lib/std/operators/impl/higher_order_impl.h>   // mesh_ref
#include <hgraph/lib/std/operators/impl/record_replay_memory_impl.h>
#include <hgraph/lib/testing/record_replay.h>
#include <hgraph/lib/testing/runtime_support.h>

#include <array>
#include <deque>
#include <memory>

using namespace hgraph;
using namespace hgv;

namespace
{
    struct NodeSpec
    {
        long                       id{0};
        std::string                kind;
        Line                       line;
        std::vector<std::string>   ins;
        std::vector<std::pair<long, long>> script;  // (time k, value)
        std::vector<long>          throw_at;        // times at which throw_* kinds throw
    };
    struct GraphSpec
    {
        std::string              name;
        long                     nin{0};
        std::vector<std::string> stmts;  // raw statement lines in order
        std::string              out;
        std::vector<std::string> natives;  // `native` statements: nodes appended to the compiled builder (root only)
    };
    struct Scenario
    {
        std::string                        name;
        long                               start{1}, end{8};
        bool                               cleanup{true};
        bool                               slots{false};   // dump every live graph's schedule table at the end of each root cycle
        long                               rt_ms{0};       // > 0: run in real-time mode from the wall clock's now for this many milliseconds
        std::map<std::string, GraphSpec>   graphs;
        std::map<long, NodeSpec>           nodes;
    };

    thread_local Scenario *g_scn = nullptr;

    NodeSpec &spec_of(long id)
    {
        auto it = g_scn->nodes.find(id);
        if (it == g_scn->nodes.end()) { throw std::logic_error("hgv: unknown node id " + std::to_string(id)); }
        return it->second;
    }

    // ---------- helpers used inside vocabulary nodes ----------
    template <typename TIn>
    std::string in_rec(const TIn &x)
    {
        const bool ok = x.valid();
        std::string s = "{\"v\":";
        s += std::to_string(ok ? static_cast<long>(x.value()) : 0);
        s += ",\"m\":";
        s += x.modified() ? "1" : "0";
        s += ",\"ok\":";
        s += ok ? "1" : "0";
        s += ",\"lmt\":";
        s += std::to_string(to_k(x.last_modified_time()));
        s += "}";
        return s;
    }

    struct FnLog
    {
        J    j;
        bool has_out{false};
        FnLog(long id, const NodeView &self, DateTime now) : j("fn")
        {
            j.i("id", id).i("g", inst_of(self)).i("n", static_cast<long>(self.node_index())).i("t", to_k(now));
        }
        FnLog &ins(std::initializer_list<std::string> recs)
        {
            std::string s = "[";
            bool        first = true;
            for (auto &r : recs)
            {
                if (!first) { s += ","; }
                first = false;
                s += r;
            }
            s += "]";
            j.raw("in", s);
            return *this;
        }
        FnLog &out(long v)
        {
            j.i("out", v).i("w", 1);
            has_out = true;
            return *this;
        }
        FnLog &i(const char *k, long v)
        {
            j.i(k, v);
            return *this;
        }
        void emit()
        {
            if (!has_out) { j.i("out", 0).i("w", 0); }
            j.emit();
        }
    };

    void log_req(long id, const NodeView &self, DateTime now, DateTime at, const char *tag = "")
    {
        J("req").i("id", id).i("g", inst_of(self)).i("n", static_cast<long>(self.node_index())).i("t", to_k(now)).i("at", to_k(at)).str("tag", tag).emit();
    }

    // ---------- the vocabulary (static nodes; Scalar "id" names the scenario node) ----------
    struct VSrc
    {
        static constexpr auto name = "v_src";
        static void           start(Scalar<"id", Int> id, NodeScheduler sched, NodeView self, DateTime now)
        {
            auto &sp = spec_of(id.value());
            const bool all = sp.line.gets("mode", "chain") == "all";
            for (auto &[t, v] : sp.script)
            {
                if (to_dt(t) < now) { continue; }
                sched.schedule(to_dt(t));
                log_req(sp.id, self, now, to_dt(t));
                if (!all) { break; }
            }
        }
        static void eval(Scalar<"id", Int> id, NodeScheduler sched, NodeView self, DateTime now, Out<TS<Int>> out)
        {
            auto &sp = spec_of(id.value());
            const bool all = sp.line.gets("mode", "chain") == "all";
            FnLog      log(sp.id, self, now);
            log.ins({});
            const long k = to_k(now);
            bool       next_done = false;
            for (auto &[t, v] : sp.script)
            {
                if (t == k)
                {
                    out.set(Int{v});
                    log.out(v);
                }
                else if (t > k && !all && !next_done)
                {
                    sched.schedule(to_dt(t));
                    log_req(sp.id, self, now, to_dt(t));
                    next_done = true;
                }
            }
            log.emit();
        }
    };

    struct VPass
    {
        static constexpr auto name = "v_pass";
        static void           eval(Scalar<"id", Int> id, In<"x", TS<Int>> x, NodeView self, DateTime now, Out<TS<Int>> out)
        {
            FnLog log(id.value(), self, now);
            log.ins({in_rec(x)});
            out.set(x.value());
            log.out(x.value()).emit();
        }
    };

    struct VAdd
    {
        static constexpr auto name = "v_add";
        static void           eval(Scalar<"id", Int> id, Scalar<"k", Int> k, In<"x", TS<Int>> x, NodeView self, DateTime now,
                                    Out<TS<Int>> out)
        {
            FnLog log(id.value(), self, now);
            log.ins({in_rec(x)});
            out.set(x.value() + k.value());
            log.out(x.value() + k.value()).emit();
        }
    };

    struct VSum2
    {
        static constexpr auto name = "v_sum2";
        static void eval(Scalar<"id", Int> id, In<"lhs", TS<Int>> lhs, In<"rhs", TS<Int>> rhs, NodeView self, DateTime now,
                         Out<TS<Int>> out)
        {
            FnLog log(id.value(), self, now);
            log.ins({in_rec(lhs), in_rec(rhs)});
            out.set(lhs.value() + rhs.value());
            log.out(lhs.value() + rhs.value()).emit();
        }
    };


    struct VSum3
    {
        static constexpr auto name = "v_sum3";
        static void eval(Scalar<"id", Int> id, In<"a", TS<Int>> a, In<"b", TS<Int>> b, In<"c", TS<Int>> c, NodeView self, DateTime now,
                         Out<TS<Int>> out)
        {
            FnLog log(id.value(), self, now);
            log.ins({in_rec(a), in_rec(b), in_rec(c)});
            const long v = static_cast<long>(a.value()) + static_cast<long>(b.value()) + static_cast<long>(c.value());
            out.set(Int{v});
            log.out(v).emit();
        }
    };

    // rhs validity unchecked: runs as soon as lhs is valid and either ticks
    struct VSumU
    {
        static constexpr auto name = "v_sumu";
        static void           eval(Scalar<"id", Int> id, In<"lhs", TS<Int>> lhs, In<"rhs", TS<Int>, InputValidity::Unchecked> rhs,
                                    NodeView self, DateTime now, Out<TS<Int>> out)
        {
            FnLog log(id.value(), self, now);
            log.ins({in_rec(lhs), in_rec(rhs)});
            const long v = lhs.value() + (rhs.valid() ? rhs.value() : 0);
            out.set(Int{v});
            log.out(v).emit();
        }
    };

    // trigger active, x passive
    struct VSample
    {
        static constexpr auto name = "v_sample";
        static void eval(Scalar<"id", Int> id, In<"trig", TS<Int>> trig, In<"x", TS<Int>, InputActivity::Passive> x, NodeView self,
                         DateTime now, Out<TS<Int>> out)
        {
            FnLog log(id.value(), self, now);
            log.ins({in_rec(trig), in_rec(x)});
            out.set(x.value());
            log.out(x.value()).emit();
        }
    };

    struct VAcc
    {
        static constexpr auto name = "v_acc";
        static void           start(State<Int> st) { st.set(Int{0}); }
        static void eval(Scalar<"id", Int> id, In<"x", TS<Int>> x, State<Int> st, NodeView self, DateTime now, Out<TS<Int>> out)
        {
            FnLog log(id.value(), self, now);
            log.ins({in_rec(x)});
            const Int v = st.get() + x.value();
            st.set(v);
            out.set(v);
            log.out(v).emit();
        }
    };

    struct VCount
    {
        static constexpr auto name = "v_count";
        static void           start(State<Int> st) { st.set(Int{0}); }
        static void eval(Scalar<"id", Int> id, In<"x", TS<Int>> x, State<Int> st, NodeView self, DateTime now, Out<TS<Int>> out)
        {
            FnLog log(id.value(), self, now);
            log.ins({in_rec(x)});
            const Int v = st.get() + 1;
            st.set(v);
            out.set(v);
            log.out(v).emit();
        }
    };

    // echo the input d steps later (single pending slot: a newer input replaces the pending echo)
    struct VDelay
    {
        static constexpr auto name = "v_delay";
        static void           start(State<Int> st) { st.set(Int{0}); }
        static void           eval(Scalar<"id", Int> id, Scalar<"d", Int> d, In<"x", TS<Int>> x, NodeScheduler sched, State<Int> st,
                                    NodeView self, DateTime now, Out<TS<Int>> out)
        {
            FnLog log(id.value(), self, now);
            log.ins({in_rec(x)});
            const bool due = sched.tag_is_scheduled_now("e");
            log.i("due", due ? 1 : 0);
            if (due)
            {
                out.set(st.get());
                log.out(st.get());
            }
            if (x.modified())
            {
                st.set(x.value());
                sched.schedule(now + MIN_TD * d.value(), "e");
                log_req(id.value(), self, now, now + MIN_TD * d.value(), "e");
            }
            log.emit();
        }
    };


    // delay that THROWS instead of emitting a negative value; the input part (state, next wake-up) is done first, so the
    // node's own timer state is complete whatever happens to the emission
    struct VTDelay
    {
        static constexpr auto name = "v_tdelay";
        static void           start(State<Int> st) { st.set(Int{0}); }
        static void           eval(Scalar<"id", Int> id, Scalar<"d", Int> d, In<"x", TS<Int>> x, NodeScheduler sched, State<Int> st,
                                    NodeView self, DateTime now, Out<TS<Int>> out)
        {
            FnLog log(id.value(), self, now);
            log.ins({in_rec(x)});
            const bool due = sched.tag_is_scheduled_now("e");
            const Int  old = st.get();
            log.i("due", due ? 1 : 0);
            if (x.modified())
            {
                st.set(x.value());
                sched.schedule(now + MIN_TD * d.value(), "e");
                log_req(id.value(), self, now, now + MIN_TD * d.value(), "e");
            }
            if (due)
            {
                if (old < 0)
                {
                    log.i("throw", 1).emit();
                    throw std::runtime_error("neg " + std::to_string(static_cast<long>(old)));
                }
                out.set(old);
                log.out(old);
            }
            log.emit();
        }
    };

    // echo every input d steps later (untagged schedules accumulate: several echoes may be pending at once, so the node
    // relies on the engine re-arming its earliest pending time after an input-driven evaluation)
    thread_local std::map<std::pair<const void *, std::size_t>, std::deque<std::pair<long, long>>> g_echo_queues;
    template <bool Throwing>
    struct VEchoT
    {
        static constexpr auto name = Throwing ? "v_techo" : "v_echo";
        static void           start(NodeView self) { g_echo_queues[{self.graph().data(), self.node_index()}].clear(); }
        static void eval(Scalar<"id", Int> id, Scalar<"d", Int> d, In<"x", TS<Int>> x, NodeScheduler sched, NodeView self, DateTime now,
                         Out<TS<Int>> out)
        {
            auto &q = g_echo_queues[{self.graph().data(), self.node_index()}];
            FnLog log(id.value(), self, now);
            log.ins({in_rec(x)});
            const long k = to_k(now);
            // the input part first: the node's own queue and timer are complete whatever happens to the emission
            const bool due  = !q.empty() && q.front().first == k;
            const long head = due ? q.front().second : 0;
            if (due) { q.pop_front(); }
            if (x.modified())
            {
                q.emplace_back(k + d.value(), static_cast<long>(x.value()));
                sched.schedule(now + MIN_TD * d.value());
                log_req(id.value(), self, now, now + MIN_TD * d.value());
            }
            if (due)
            {
                if (Throwing && head < 0)
                {
                    log.i("throw", 1).emit();
                    throw std::runtime_error("neg " + std::to_string(head));
                }
                out.set(Int{head});
                log.out(head);
            }
            log.emit();
        }
    };

    using VEcho  = VEchoT<false>;
    using VTEcho = VEchoT<true>;

    // self-driven source: ticks at start + i*p for i < n, emitting i
    struct VTimer
    {
        static constexpr auto name              = "v_timer";
        static constexpr bool schedule_on_start = true;
        static void           start(State<Int> st) { st.set(Int{0}); }
        static void eval(Scalar<"id", Int> id, Scalar<"p", Int> p, Scalar<"cnt", Int> cnt, NodeScheduler sched, State<Int> st,
                         NodeView self, DateTime now, Out<TS<Int>> out)
        {
            FnLog log(id.value(), self, now);
            log.ins({});
            const Int i = st.get();
            out.set(i);
            st.set(i + 1);
            if (i + 1 < cnt.value())
            {
                sched.schedule(MIN_TD * p.value());
                log_req(id.value(), self, now, now + MIN_TD * p.value());
            }
            log.out(i).emit();
        }
    };

    // throws when the input is negative, else doubles
    struct VThrowNeg
    {
        static constexpr auto name = "v_throwneg";
        static void eval(Scalar<"id", Int> id, In<"x", TS<Int>> x, NodeView self, DateTime now, Out<TS<Int>> out)
        {
            FnLog log(id.value(), self, now);
            log.ins({in_rec(x)});
            if (x.value() < 0)
            {
                log.i("throw", 1).emit();
                throw std::runtime_error("neg " + std::to_string(static_cast<long>(x.value())));
            }
            out.set(x.value() * 2);
            log.out(x.value() * 2).emit();
        }
    };

    // recording sink
    struct VRec
    {
        static constexpr auto name = "v_rec";
        static void           eval(Scalar<"id", Int> id, In<"x", TS<Int>> x, NodeView self, DateTime now)
        {
            FnLog log(id.value(), self, now);
            log.ins({in_rec(x)});
            log.emit();
            J("rec").i("id", id.value()).i("g", inst_of(self)).i("t", to_k(now)).i("v", x.value()).emit();
        }
    };

    // error sink: logs the captured error message
    struct VErrRec
    {
        static constexpr auto name = "v_errrec";
        static void           eval(Scalar<"id", Int> id, In<"e", TS<NodeError>> e, NodeView self, DateTime now)
        {
            const auto msg = e.base().value().as_bundle().at("error_msg").checked_as<Str>();
            J("err").i("id", id.value()).i("g", inst_of(self)).i("t", to_k(now)).str("msg", std::string{msg}).emit();
        }
    };

    // ---------- lifecycle vocabulary (C14): every phase logs from user code and may throw on its k-th occurrence ----------
    thread_local std::map<std::pair<long, std::string>, long> g_phase_count;

    void maybe_fault(long id, const char *phase, const NodeView &self, DateTime now)
    {
        auto &sp = spec_of(id);
        const long k = ++g_phase_count[{id, phase}];
        for (auto &f : split(sp.line.gets("fault", ""), ','))
        {
            if (f.empty()) { continue; }
            auto pq = split(f, ':');
            if (pq.at(0) == phase && std::stol(pq.at(1)) == k)
            {
                J("uthrow").i("id", id).i("g", inst_of(self)).i("n", static_cast<long>(self.node_index())).str("phase", phase).i("t", to_k(now)).emit();
                throw std::runtime_error("fault " + std::to_string(id) + " " + phase);
            }
        }
    }
    void ulog(const char *ev, long id, const NodeView &self, DateTime now)
    {
        J(ev).i("id", id).i("g", inst_of(self)).i("n", static_cast<long>(self.node_index())).i("t", to_k(now)).emit();
    }

    struct LSrc
    {
        static constexpr auto name              = "l_src";
        static constexpr bool schedule_on_start = true;
        static void           start(Scalar<"id", Int> id, State<Int> st, NodeView self, DateTime now)
        {
            st.set(Int{0});
            ulog("ustart", id.value(), self, now);
            maybe_fault(id.value(), "start", self, now);
        }
        static void eval(Scalar<"id", Int> id, Scalar<"cnt", Int> cnt, NodeScheduler sched, State<Int> st, NodeView self, DateTime now,
                         Out<TS<Int>> out)
        {
            ulog("ueval", id.value(), self, now);
            maybe_fault(id.value(), "eval", self, now);
            const Int i = st.get();
            out.set(i);
            st.set(i + 1);
            if (i + 1 < cnt.value()) { sched.schedule(MIN_TD); }
        }
        static void stop(Scalar<"id", Int> id, NodeView self, DateTime now)
        {
            ulog("ustop", id.value(), self, now);
            maybe_fault(id.value(), "stop", self, now);
        }
    };
    struct LPass
    {
        static constexpr auto name = "l_pass";
        static void           start(Scalar<"id", Int> id, NodeView self, DateTime now)
        {
            ulog("ustart", id.value(), self, now);
            maybe_fault(id.value(), "start", self, now);
        }
        static void eval(Scalar<"id", Int> id, In<"x", TS<Int>> x, NodeView self, DateTime now, Out<TS<Int>> out)
        {
            ulog("ueval", id.value(), self, now);
            maybe_fault(id.value(), "eval", self, now);
            out.set(x.value());
        }
        static void stop(Scalar<"id", Int> id, NodeView self, DateTime now)
        {
            ulog("ustop", id.value(), self, now);
            maybe_fault(id.value(), "stop", self, now);
        }
    };
    struct LSink
    {
        static constexpr auto name = "l_sink";
        static void           start(Scalar<"id", Int> id, NodeView self, DateTime now)
        {
            ulog("ustart", id.value(), self, now);
            maybe_fault(id.value(), "start", self, now);
        }
        static void eval(Scalar<"id", Int> id, In<"x", TS<Int>> x, NodeView self, DateTime now)
        {
            ulog("ueval", id.value(), self, now);
            maybe_fault(id.value(), "eval", self, now);
        }
        static void stop(Scalar<"id", Int> id, NodeView self, DateTime now)
        {
            ulog("ustop", id.value(), self, now);
            maybe_fault(id.value(), "stop", self, now);
        }
    };

    // ---------- scripted scheduler user (C18): runs a list of scheduler operations per activation, logs every answer ----------
    std::string sched_snapshot(const NodeScheduler &sched)
    {
        std::string s = "{\"next\":" + std::to_string(to_k(sched.next_scheduled_time()));
        s += ",\"is\":" + std::string(sched.is_scheduled() ? "1" : "0");
        s += ",\"isnow\":" + std::string(sched.is_scheduled_now() ? "1" : "0");
        for (const char *g : {"a", "b"})
        {
            s += std::string(",\"h") + g + "\":" + (sched.has_tag(g) ? "1" : "0");
            s += std::string(",\"t") + g + "\":" + std::to_string(to_k(sched.tag_time(g)));
            s += std::string(",\"n") + g + "\":" + (sched.tag_is_scheduled_now(g) ? "1" : "0");
        }
        s += "}";
        return s;
    }

    void run_sched_ops(long id, long k, bool xm, const NodeScheduler &sched, const NodeView &self, DateTime now)
    {
        auto &sp   = spec_of(id);
        auto  acts = split(sp.line.gets("acts", ""), '/');
        J("sact").i("id", id).i("g", inst_of(self)).i("n", static_cast<long>(self.node_index())).i("t", to_k(now)).i("k", k).i("xm", xm ? 1 : 0).raw("q", sched_snapshot(sched)).emit();
        if (k >= static_cast<long>(acts.size()) || acts[k] == "-" || acts[k].empty()) { return; }
        bool do_throw = false;
        for (auto &optext : split(acts[k], '+'))
        {
            auto        f   = split(optext, '.');
            std::string op  = f.at(0);
            if (op == "throw") { do_throw = true; continue; }   // after the operations of this activation: user code fails
            long        dt  = f.size() > 1 ? std::stol(f[1]) : 0;
            std::string tag = f.size() > 2 ? f[2] : "";
            long        ret = 0;
            if (op == "sch")
            {
                if (tag.empty()) { sched.schedule(now + MIN_TD * dt); }
                else { sched.schedule(now + MIN_TD * dt, tag); }
            }
            else if (op == "schd")   // the TimeDelta overload
            {
                if (tag.empty()) { sched.schedule(MIN_TD * dt); }
                else { sched.schedule(MIN_TD * dt, tag); }
                op = "sch";
            }
            else if (op == "uns") { sched.un_schedule(tag); }
            else if (op == "unse") { sched.un_schedule(); }
            else if (op == "pop") { ret = to_k(sched.pop_tag(tag)); }
            else if (op == "reset") { sched.reset(); }
            else { throw std::logic_error("hgv: unknown scheduler op " + op); }
            J("sop").i("id", id).i("t", to_k(now)).str("op", op).i("dt", dt).str("tag", tag).i("ret", ret).raw("q", sched_snapshot(sched)).emit();
        }
        if (do_throw)
        {
            J("sthrow").i("id", id).i("t", to_k(now)).emit();
            throw std::runtime_error("sched " + std::to_string(id) + " throws at " + std::to_string(to_k(now)));
        }
    }

    struct VSched
    {
        static constexpr auto name = "v_sched";
        static void           start(Scalar<"id", Int> id, NodeScheduler sched, State<Int> k, NodeView self, DateTime now)
        {
            k.set(Int{0});
            run_sched_ops(id.value(), 0, false, sched, self, now);
        }
        static void eval(Scalar<"id", Int> id, In<"x", TS<Int>, InputValidity::Unchecked> x, NodeScheduler sched, State<Int> k, NodeView self,
                         DateTime now)
        {
            const Int kk = k.get() + 1;
            k.set(kk);
            run_sched_ops(id.value(), kk, x.modified(), sched, self, now);
        }
    };

    // the same scripted scheduler user with an output (its activation count), so that its errors can be captured per node
    struct VSchedO
    {
        static constexpr auto name = "v_schedo";
        static void           start(Scalar<"id", Int> id, NodeScheduler sched, State<Int> k, NodeView self, DateTime now)
        {
            k.set(Int{0});
            run_sched_ops(id.value(), 0, false, sched, self, now);
        }
        static void eval(Scalar<"id", Int> id, In<"x", TS<Int>, InputValidity::Unchecked> x, NodeScheduler sched, State<Int> k, NodeView self,
                         DateTime now, Out<TS<Int>> out)
        {
            const Int kk = k.get() + 1;
            k.set(kk);
            run_sched_ops(id.value(), kk, x.modified(), sched, self, now);
            out.set(kk);
        }
    };

    // ---------- dictionary vocabulary (map_ / reduce): TSD<Int, TS<Int>> ----------
    using DInt = TSD<Int, TS<Int>>;

    // scripted dictionary source: script=<t>:<k>=<v>,<k>=<v>,-<k>;<t>:...   (-k removes key k)
    struct DOp
    {
        long t, k, v;
        bool remove;
    };
    std::vector<DOp> parse_dscript(const std::string &text)
    {
        std::vector<DOp> ops;
        for (auto &cyc : split(text, ';'))
        {
            if (cyc.empty()) { continue; }
            auto tp = cyc.find(':');
            long t  = std::stol(cyc.substr(0, tp));
            for (auto &o : split(cyc.substr(tp + 1), ','))
            {
                if (o.empty()) { continue; }
                if (o[0] == '-') { ops.push_back({t, std::stol(o.substr(1)), 0, true}); }
                else
                {
                    auto eq = o.find('=');
                    ops.push_back({t, std::stol(o.substr(0, eq)), std::stol(o.substr(eq + 1)), false});
                }
            }
        }
        return ops;
    }

    struct VDSrc
    {
        static constexpr auto name = "v_dsrc";
        static void           start(Scalar<"id", Int> id, NodeScheduler sched, NodeView self, DateTime now)
        {
            auto ops = parse_dscript(spec_of(id.value()).line.gets("script", ""));
            long last = -1;
            for (auto &o : ops)
            {
                if (o.t != last && to_dt(o.t) >= now)
                {
                    sched.schedule(to_dt(o.t));
                    log_req(id.value(), self, now, to_dt(o.t));
                }
                last = o.t;
            }
        }
        static void eval(Scalar<"id", Int> id, NodeView self, DateTime now, Out<DInt> out)
        {
            auto       ops = parse_dscript(spec_of(id.value()).line.gets("script", ""));
            const long k   = to_k(now);
            for (auto &o : ops)
            {
                if (o.t != k) { continue; }
                if (o.remove) { static_cast<void>(out.erase(Int{o.k})); }
                else { out.set(Int{o.k}, Int{o.v}); }
            }
        }
    };

    template <typename TIn>
    void log_dict(const char *ev, long id, const NodeView &self, DateTime now, const TIn &d)
    {
        std::vector<std::pair<long, long>> val, mod;
        std::vector<long>                  add, rem;
        for (auto [key, child] : d.valid_items()) { val.emplace_back(static_cast<long>(key.template checked_as<Int>()), static_cast<long>(child.value())); }
        for (auto [key, child] : d.modified_items())
        {
            if (child.valid()) { mod.emplace_back(static_cast<long>(key.template checked_as<Int>()), static_cast<long>(child.value())); }
        }
        // key-level delta accessors: they also report the keys of a previously referenced dictionary after a retarget
        for (const auto &key : d.added_keys()) { add.push_back(static_cast<long>(key.template checked_as<Int>())); }
        for (const auto &key : d.removed_keys()) { rem.push_back(static_cast<long>(key.template checked_as<Int>())); }
        std::sort(val.begin(), val.end());
        std::sort(mod.begin(), mod.end());
        std::sort(add.begin(), add.end());
        std::sort(rem.begin(), rem.end());
        auto pairs = [](const std::vector<std::pair<long, long>> &v) {
            std::string s = "[";
            for (size_t i = 0; i < v.size(); ++i)
            {
                if (i) { s += ","; }
                s += "[" + std::to_string(v[i].first) + "," + std::to_string(v[i].second) + "]";
            }
            return s + "]";
        };
        J(ev).i("id", id).i("g", inst_of(self)).i("t", to_k(now)).raw("val", pairs(val)).raw("mod", pairs(mod)).raw("add", jlist(add)).raw("rem", jlist(rem)).emit();
    }

    struct VDRec
    {
        static constexpr auto name = "v_drec";
        static void           eval(Scalar<"id", Int> id, In<"d", DInt> d, NodeView self, DateTime now) { log_dict("drec", id.value(), self, now, d); }
    };

    // ---------- a dynamic (unsized) list source: script=<t>:<i>=<v>,<i>=<v>;... sets element i to v at time t ----------
    using DynL = TSL<TS<Int>>;
    struct VDynLSrc
    {
        static constexpr auto name = "v_dynlsrc";
        static void           start(Scalar<"id", Int> id, NodeScheduler sched, NodeView self, DateTime now)
        {
            auto ops  = parse_dscript(spec_of(id.value()).line.gets("script", ""));
            long last = -1;
            for (auto &o : ops)
            {
                if (o.t != last && to_dt(o.t) >= now)
                {
                    sched.schedule(to_dt(o.t));
                    log_req(id.value(), self, now, to_dt(o.t));
                }
                last = o.t;
            }
        }
        static void eval(Scalar<"id", Int> id, NodeView self, DateTime now, Out<DynL> out)
        {
            auto       ops = parse_dscript(spec_of(id.value()).line.gets("script", ""));
            const long k   = to_k(now);
            for (auto &o : ops)
            {
                if (o.t == k && !o.remove) { out[static_cast<std::size_t>(o.k)].set(Int{o.v}); }
            }
        }
    };

    // ---------- set-shaped payloads: the key set of a dictionary as a TSS, recorded in the dictionary format (value 1) ----------
    using SInt = TSS<Int>;
    struct VSKeys
    {
        static constexpr auto name = "v_skeys";
        static void           eval(In<"d", DInt> d, Out<SInt> out)
        {
            for (const auto &key : d.removed_keys()) { out.remove(key.template checked_as<Int>()); }
            for (const auto &key : d.added_keys()) { out.add(key.template checked_as<Int>()); }
        }
    };
    struct VSRec
    {
        static constexpr auto name = "v_srec";
        static void           eval(Scalar<"id", Int> id, In<"s", SInt> s, NodeView self, DateTime now)
        {
            std::vector<long> val, add, rem;
            for (const auto &v : s.values()) { val.push_back(static_cast<long>(v)); }
            for (const auto &v : s.added()) { add.push_back(static_cast<long>(v)); }
            for (const auto &v : s.removed()) { rem.push_back(static_cast<long>(v)); }
            std::sort(val.begin(), val.end());
            std::sort(add.begin(), add.end());
            std::sort(rem.begin(), rem.end());
            auto ones = [](const std::vector<long> &v) {
                std::string r = "[";
                for (size_t i = 0; i < v.size(); ++i)
                {
                    if (i) { r += ","; }
                    r += "[" + std::to_string(v[i]) + ",1]";
                }
                return r + "]";
            };
            J("drec").i("id", id.value()).i("g", inst_of(self)).i("t", to_k(now)).raw("val", ones(val)).raw("mod", ones(add)).raw("add", jlist(add)).raw("rem", jlist(rem)).emit();
        }
    };

    // adds ONE new key per evaluation; its dictionary input is declared structurally active (wakes on key-set changes) and
    // is meant to be wired through passive(...): a loop closed through it must go quiet
    struct VDGrow
    {
        static constexpr auto name = "v_dgrow";
        static void           start(State<Int> n) { n.set(Int{0}); }
        static void eval(Scalar<"id", Int> id, In<"trigger", TS<Int>> trigger, In<"seen", DInt, InputActivity::Structural, InputValidity::Unchecked> seen,
                         State<Int> n, NodeView self, DateTime now, Out<DInt> out)
        {
            static_cast<void>(seen);
            FnLog     log(id.value(), self, now);
            const Int next = n.get() + 1;
            n.set(next);
            out.set(next, trigger.value());
            log.ins({in_rec(trigger)});
            log.out(static_cast<long>(next)).emit();
        }
    };

    using DErr = TSD<Int, TS<NodeError>>;
    struct VDErrRec
    {
        static constexpr auto name = "v_derrrec";
        static void           eval(Scalar<"id", Int> id, In<"d", DErr> d, NodeView self, DateTime now)
        {
            long nmod = 0, nrem = 0;
            for (auto [key, child] : d.modified_items()) { nmod += child.valid() ? 1 : 0; }
            for (auto [key, child] : d.removed_items()) { ++nrem; }
            J("kerrtick").i("id", id.value()).i("t", to_k(now)).i("nmod", nmod).i("nrem", nrem).emit();
            for (auto [key, child] : d.modified_items())
            {
                if (!child.valid()) { continue; }
                const auto msg = child.base().value().as_bundle().at("error_msg").template checked_as<Str>();
                J("kerr").i("id", id.value()).i("g", inst_of(self)).i("t", to_k(now)).i("k", static_cast<long>(key.template checked_as<Int>())).str("msg", std::string{msg}).emit();
            }
            for (auto [key, child] : d.removed_items())
            {
                J("kerrgone").i("id", id.value()).i("t", to_k(now)).i("k", static_cast<long>(key.template checked_as<Int>())).emit();
            }
        }
    };

    // inside a mapped child: echoes the key (value = key * 100 + x)
    struct VKeyMix
    {
        static constexpr auto name = "v_keymix";
        static void eval(Scalar<"id", Int> id, In<"key", TS<Int>> key, In<"x", TS<Int>> x, NodeView self, DateTime now, Out<TS<Int>> out)
        {
            FnLog log(id.value(), self, now);
            log.ins({in_rec(key), in_rec(x)});
            const long v = key.value() * 100 + x.value();
            out.set(Int{v});
            log.out(v).emit();
        }
    };

    // ---------- reduce (C11): combiners and a probe that reads the result whenever the result or the collection ticks ----------
    struct VCombAdd
    {
        static constexpr auto name = "v_comb_add";
        static void           eval(In<"lhs", TS<Int>> lhs, In<"rhs", TS<Int>> rhs, Out<TS<Int>> out) { out.set(lhs.value() + rhs.value()); }
    };
    struct CombAddG
    {
        static constexpr auto name = "hgv_comb_add_g";
        static Port<TS<Int>>  compose(Wiring &w, Port<TS<Int>> lhs, Port<TS<Int>> rhs) { return wire<VCombAdd>(w, lhs, rhs); }
    };
    struct VRRec
    {
        static constexpr auto name = "v_rrec";
        static void           eval(Scalar<"id", Int> id, In<"r", TS<Int>, InputValidity::Unchecked> r, In<"d", DInt, InputValidity::Unchecked> d,
                                    NodeView self, DateTime now)
        {
            J("rrec").i("id", id.value()).i("t", to_k(now)).i("ok", r.valid() ? 1 : 0).i("v", r.valid() ? static_cast<long>(r.value()) : 0).i("rm", r.modified() ? 1 : 0).i("dm", d.modified() ? 1 : 0).emit();
        }
    };

    // ---------- references (C13) ----------
    struct VToBool
    {
        static constexpr auto name = "v_tobool";
        static void           eval(In<"x", TS<Int>> x, Out<TS<Bool>> out) { out.set(x.value() != 0); }
    };

    // a user-written selector that publishes its reference again on EVERY evaluation (also when a candidate ticks and the
    // choice is unchanged): re-publishing an unchanged reference must not reach the consumers
    struct VDURef
    {
        static constexpr auto name = "v_duref";
        static void           eval(In<"pick", TS<Int>> pick, In<"lhs", DInt, InputValidity::Unchecked> lhs, In<"rhs", DInt, InputValidity::Unchecked> rhs,
                                    Out<REF<DInt>> out)
        {
            out.set(pick.value() != 0 ? lhs.base().reference() : rhs.base().reference());
        }
    };

    // ---------- global state vocabulary (C07): state written by one run must never be visible to another ----------
    struct VGSet
    {
        static constexpr auto name = "v_gset";
        static void eval(Scalar<"id", Int> id, Scalar<"key", Str> key, In<"x", TS<Int>> x, GlobalStateView gs, NodeView self, DateTime now)
        {
            FnLog log(id.value(), self, now);
            log.ins({in_rec(x)});
            gs.set(key.value(), Value{Int{x.value()}});
            log.emit();
        }
    };
    struct VGProbe
    {
        static constexpr auto name = "v_gprobe";
        static void eval(Scalar<"id", Int> id, Scalar<"key", Str> key, In<"x", TS<Int>> x, GlobalStateView gs, NodeView self, DateTime now,
                         Out<TS<Int>> out)
        {
            FnLog log(id.value(), self, now);
            log.ins({in_rec(x)});
            const long v = gs.contains(key.value()) ? static_cast<long>(gs.get(key.value()).checked_as<Int>()) : -1;
            out.set(Int{v});
            log.out(v).emit();
        }
    };

    // ---------- structural list inputs: the two ports are read through a TSL path; AllValid vs default validity ----------
    using L2 = TSL<TS<Int>, 2>;
    template <typename TIn>
    void lsum_eval(long id, const TIn &xs, const NodeView &self, DateTime now, Out<TS<Int>> &out)
    {
        FnLog log(id, self, now);
        auto  a = xs[0];
        auto  b = xs[1];
        log.ins({in_rec(a), in_rec(b)});
        const long v = (a.valid() ? static_cast<long>(a.value()) : 0) + (b.valid() ? static_cast<long>(b.value()) : 0);
        out.set(Int{v});
        log.out(v).emit();
    }
    struct VLSum   // runs only when every element holds a value
    {
        static constexpr auto name = "v_lsum";
        static void eval(Scalar<"id", Int> id, In<"xs", L2, InputValidity::AllValid> xs, NodeView self, DateTime now, Out<TS<Int>> out)
        {
            lsum_eval(id.value(), xs, self, now, out);
        }
    };
    struct VLSumV  // default validity: the list is valid as soon as one element is
    {
        static constexpr auto name = "v_lsumv";
        static void eval(Scalar<"id", Int> id, In<"xs", L2> xs, NodeView self, DateTime now, Out<TS<Int>> out)
        {
            lsum_eval(id.value(), xs, self, now, out);
        }
    };

    // ---------- "type neighbours": the same node shapes over types that differ in ONE parameter (window period /
    // warm-up, list size).  Process-wide type interning must keep them apart whichever was realised first. ----------
    template <int P, int M>
    struct VWPush
    {
        static constexpr auto name = "v_wpush";
        static void           eval(In<"x", TS<Int>> x, Out<TSW<Int, P, M>> out) { out.push(x.value()); }
    };
    template <int P, int M>
    struct VWTotal   // publishes only once the window is warm (all-valid)
    {
        static constexpr auto name = "v_wtotal";
        static void eval(Scalar<"id", Int> id, In<"w", TSW<Int, P, M>, InputValidity::AllValid> w, NodeView self, DateTime now, Out<TS<Int>> out)
        {
            FnLog log(id.value(), self, now);
            long  total = 0;
            for (std::size_t i = 0; i < w.size(); ++i) { total += static_cast<long>(w[i]); }
            log.ins({"{\"v\":" + std::to_string(static_cast<long>(w.size())) + ",\"m\":1,\"ok\":1}"});
            out.set(Int{total});
            log.out(total).emit();
        }
    };
    using L3 = TSL<TS<Int>, 3>;
    struct VLSum3
    {
        static constexpr auto name = "v_lsum3";
        static void eval(Scalar<"id", Int> id, In<"xs", L3, InputValidity::AllValid> xs, NodeView self, DateTime now, Out<TS<Int>> out)
        {
            FnLog log(id.value(), self, now);
            auto  a = xs[0];
            auto  b = xs[1];
            auto  c = xs[2];
            log.ins({in_rec(a), in_rec(b), in_rec(c)});
            const long v = static_cast<long>(a.value()) + static_cast<long>(b.value()) + static_cast<long>(c.value());
            out.set(Int{v});
            log.out(v).emit();
        }
    };

    // ---------- activity changed at run time: after every evaluation the second input (pair) is made passive when the
    // first element holds an odd value, active again when it is even (spec: Vocab!ActiveInsS) ----------
    struct VTog
    {
        static constexpr auto name = "v_tog";
        static void eval(Scalar<"id", Int> id, In<"a", TS<Int>, InputValidity::Unchecked> a, In<"b", TS<Int>, InputValidity::Unchecked> b,
                         NodeView self, DateTime now, Out<TS<Int>> out)
        {
            FnLog log(id.value(), self, now);
            log.ins({in_rec(a), in_rec(b)});
            const long v = (a.valid() ? static_cast<long>(a.value()) : 0) + (b.valid() ? static_cast<long>(b.value()) : 0);
            out.set(Int{v});
            const bool odd = a.valid() && (static_cast<long>(a.value()) % 2 != 0);
            if (odd && b.active()) { b.make_passive(); }
            if (!odd && !b.active()) { b.make_active(); }
            log.out(v).emit();
        }
    };
    struct VLTog
    {
        static constexpr auto name = "v_ltog";
        static void eval(Scalar<"id", Int> id, In<"xs", L2, InputValidity::Unchecked> xs, In<"ys", L2, InputValidity::Unchecked> ys,
                         NodeView self, DateTime now, Out<TS<Int>> out)
        {
            FnLog log(id.value(), self, now);
            auto  a = xs[0];
            auto  b = xs[1];
            auto  c = ys[0];
            auto  d = ys[1];
            log.ins({in_rec(a), in_rec(b), in_rec(c), in_rec(d)});
            auto       val = [](auto &x) { return x.valid() ? static_cast<long>(x.value()) : 0L; };
            const long v   = val(a) + val(b) + val(c) + val(d);
            out.set(Int{v});
            const bool odd = a.valid() && (static_cast<long>(a.value()) % 2 != 0);
            if (odd && ys.active()) { ys.make_passive(); }
            if (!odd && !ys.active()) { ys.make_active(); }
            log.out(v).emit();
        }
    };

    // one node, one list output, two independently ticking elements (references to positions of the same output)
    struct VPack2
    {
        static constexpr auto name = "v_pack2";
        static void           eval(In<"x", TS<Int>, InputValidity::Unchecked> x, In<"y", TS<Int>, InputValidity::Unchecked> y, Out<L2> out)
        {
            if (x.modified()) { out[0].set(x.value()); }
            if (y.modified()) { out[1].set(y.value()); }
        }
    };

    using TryIntResult = UnNamedTSB<Field<"exception", TS<NodeError>>, Field<"out", TS<Int>>>;

    struct VTryOut
    {
        static constexpr auto name = "v_tryout";
        static void           eval(Scalar<"id", Int> id, In<"r", TryIntResult, InputValidity::Unchecked> r, NodeView self, DateTime now,
                                    Out<TS<Int>> out)
        {
            auto field = r.template field<"out">();
            if (field.valid() && field.modified())
            {
                out.set(field.value());
            }
        }
    };
    struct VTryErr
    {
        static constexpr auto name = "v_tryerr";
        static void           eval(Scalar<"id", Int> id, In<"r", TryIntResult, InputValidity::Unchecked> r, NodeView self, DateTime now)
        {
            auto field = r.template field<"exception">();
            if (field.valid() && field.modified())
            {
                const auto msg = field.base().value().as_bundle().at("error_msg").checked_as<Str>();
                J("err").i("id", id.value()).i("g", inst_of(self)).i("t", to_k(now)).str("msg", std::string{msg}).emit();
            }
        }
    };

    // ---------- interpreter ----------
    using P = Port<TS<Int>>;

    struct Env
    {
        Wiring                                  &w;
        std::vector<P>                           args;
        std::map<long, P>                        ports;     // node id -> output port
        std::map<long, Port<void>>               erased;    // node id -> erased output (try_except results)
        std::map<long, Port<DInt>>               dports;    // node id -> dictionary output port
        std::map<long, Port<L2>>                 lports;    // node id -> two-element list output port
        std::map<long, Port<TSS<Int>>>           sports;    // node id -> set output port
        std::map<long, Port<TSL<TS<Int>>>>       dlports;   // node id -> dynamic list output port
        std::map<long, Port<TSL<TS<Int>, std::size_t{3}>>> l3ports;   // node id -> three-element list output port
        std::optional<P>                         key;       // the `key` port of a mapped child graph
        std::map<long, std::shared_ptr<void>>    feedbacks; // node id -> feedback handle
    };

    // the environments of the compose bodies currently being interpreted, innermost last: a sub-graph body may
    // reference a port of an enclosing wiring ("o:<id>", a captured outer port) instead of receiving it as an argument
    thread_local std::vector<Env *> g_envs;

    P resolve(Env &env, const std::string &ref)
    {
        if (ref.rfind("p:", 0) == 0) { return passive(resolve(env, ref.substr(2))); }   // this usage does not activate the consumer
        if (ref.rfind("o:", 0) == 0)
        {
            const long id = std::stol(ref.substr(2));
            for (auto it = g_envs.rbegin(); it != g_envs.rend(); ++it)
            {
                if (*it == &env) { continue; }
                auto f = (*it)->ports.find(id);
                if (f != (*it)->ports.end()) { return f->second; }
            }
            throw std::logic_error("hgv: unresolved outer port ref " + ref);
        }
        if (ref == "key") { return *env.key; }
        if (!ref.empty() && ref[0] == 'a') { return env.args.at(std::stoul(ref.substr(1))); }
        auto it = env.ports.find(std::stol(ref));
        if (it == env.ports.end()) { throw std::logic_error("hgv: unresolved port ref " + ref); }
        return it->second;
    }

    std::optional<P> interpret(Env &env, const GraphSpec &g);

    template <int K>
    struct SubG0
    {
        static constexpr auto name = "hgv_sub0";
        static P              compose(Wiring &w)
        {
            Env env{w, {}};
            return *interpret(env, g_scn->graphs.at("g" + std::to_string(K)));
        }
    };
    template <int K>
    struct SubG1
    {
        static constexpr auto name = "hgv_sub1";
        static P              compose(Wiring &w, P a0)
        {
            Env env{w, {a0}};
            return *interpret(env, g_scn->graphs.at("g" + std::to_string(K)));
        }
    };
    template <int K>
    struct SubG2
    {
        static constexpr auto name = "hgv_sub2";
        static P              compose(Wiring &w, P a0, P a1)
        {
            Env env{w, {a0, a1}};
            return *interpret(env, g_scn->graphs.at("g" + std::to_string(K)));
        }
    };

    // sub-graphs whose result is a three-element list assembled from three separate ports (`out x,y,z`): the result of
    // the nested / switched node is then a forwarding TREE with three leaves
    using L3S = TSL<TS<Int>, std::size_t{3}>;
    using L3P = Port<L3S>;
    L3P interpret3(Env &env, const GraphSpec &g)
    {
        static_cast<void>(interpret(env, GraphSpec{g.name, g.nin, g.stmts, "", {}}));
        auto outs = split(g.out, ',');
        while (outs.size() < 3) { outs.push_back(outs.back()); }
        return stdlib::to_tsl<TS<Int>>(env.w, resolve(env, outs[0]), resolve(env, outs[1]), resolve(env, outs[2]));
    }
    template <int K>
    struct SubG0L
    {
        static constexpr auto name = "hgv_sub0l";
        static L3P            compose(Wiring &w)
        {
            Env env{w, {}};
            return interpret3(env, g_scn->graphs.at("g" + std::to_string(K)));
        }
    };
    template <int K>
    struct SubG1L
    {
        static constexpr auto name = "hgv_sub1l";
        static L3P            compose(Wiring &w, P a0)
        {
            Env env{w, {a0}};
            return interpret3(env, g_scn->graphs.at("g" + std::to_string(K)));
        }
    };
    template <int K>
    struct SubG2L
    {
        static constexpr auto name = "hgv_sub2l";
        static L3P            compose(Wiring &w, P a0, P a1)
        {
            Env env{w, {a0, a1}};
            return interpret3(env, g_scn->graphs.at("g" + std::to_string(K)));
        }
    };

    // a sub-graph without a result (a sink body): what it computes is recorded inside
    template <int K>
    struct SubG1V
    {
        static constexpr auto name = "hgv_sub1v";
        static void           compose(Wiring &w, P a0)
        {
            Env env{w, {a0}};
            static_cast<void>(interpret(env, g_scn->graphs.at("g" + std::to_string(K))));
        }
    };

    // mapped children that consume the key: the first parameter must be named "key"
    template <int K>
    struct SubGK1
    {
        static constexpr auto name = "hgv_subk1";
        static P              compose(Wiring &w, NamedPort<"key", TS<Int>> key, P a0)
        {
            Env env{w, {a0}};
            env.key = P{key};
            return *interpret(env, g_scn->graphs.at("g" + std::to_string(K)));
        }
    };
    template <int K>
    struct SubGK2
    {
        static constexpr auto name = "hgv_subk2";
        static P              compose(Wiring &w, NamedPort<"key", TS<Int>> key, P a0, P a1)
        {
            Env env{w, {a0, a1}};
            env.key = P{key};
            return *interpret(env, g_scn->graphs.at("g" + std::to_string(K)));
        }
    };

    constexpr int kSlots = 6;

    template <template <int> class G, typename F, int K = 0>
    auto dispatch_slot(int k, F &&f)
    {
        if constexpr (K < kSlots)
        {
            if (k == K) { return f.template operator()<G<K>>(); }
            return dispatch_slot<G, F, K + 1>(k, std::forward<F>(f));
        }
        else
        {
            throw std::logic_error("hgv: sub-graph slot out of range");
            return f.template operator()<G<0>>();
        }
    }

    P wire_sub(Env &env, const std::string &how, int k, const std::vector<P> &in)
    {
        const auto &g = g_scn->graphs.at("g" + std::to_string(k));
        Wiring     &w = env.w;
        if (how == "inline")
        {
            if (g.nin == 0) { return dispatch_slot<SubG0>(k, [&]<typename G>() { return P{wire<G>(w)}; }); }
            if (g.nin == 1) { return dispatch_slot<SubG1>(k, [&]<typename G>() { return P{wire<G>(w, in[0])}; }); }
            return dispatch_slot<SubG2>(k, [&]<typename G>() { return P{wire<G>(w, in[0], in[1])}; });
        }
        if (how == "nested")
        {
            if (g.nin == 0) { return dispatch_slot<SubG0>(k, [&]<typename G>() { return P{nested_<G>(w)}; }); }
            if (g.nin == 1) { return dispatch_slot<SubG1>(k, [&]<typename G>() { return P{nested_<G>(w, in[0])}; }); }
            return dispatch_slot<SubG2>(k, [&]<typename G>() { return P{nested_<G>(w, in[0], in[1])}; });
        }
        throw std::logic_error("hgv: unknown sub-graph mode " + how);
    }

    L3P wire_sub3(Env &env, const std::string &how, int k, const std::vector<P> &in)
    {
        const auto &g = g_scn->graphs.at("g" + std::to_string(k));
        Wiring     &w = env.w;
        if (how == "inline3")
        {
            if (g.nin == 0) { return dispatch_slot<SubG0L>(k, [&]<typename G>() { return L3P{wire<G>(w)}; }); }
            if (g.nin == 1) { return dispatch_slot<SubG1L>(k, [&]<typename G>() { return L3P{wire<G>(w, in[0])}; }); }
            return dispatch_slot<SubG2L>(k, [&]<typename G>() { return L3P{wire<G>(w, in[0], in[1])}; });
        }
        if (g.nin == 0) { return dispatch_slot<SubG0L>(k, [&]<typename G>() { return L3P{nested_<G>(w)}; }); }
        if (g.nin == 1) { return dispatch_slot<SubG1L>(k, [&]<typename G>() { return L3P{nested_<G>(w, in[0])}; }); }
        return dispatch_slot<SubG2L>(k, [&]<typename G>() { return L3P{nested_<G>(w, in[0], in[1])}; });
    }

    std::optional<P> interpret(Env &env, const GraphSpec &g)
    {
        Wiring &w = env.w;
        g_envs.push_back(&env);
        struct PopEnv { ~PopEnv() { g_envs.pop_back(); } } pop_env;
        for (const auto &text : g.stmts)
        {
            Line l = parse_line(text);
            if (l.pos.empty()) { continue; }
            if (l.pos[0] == "bind")
            {
                const long fbid = std::stol(l.pos.at(1));
                if (spec_of(fbid).kind == "sfb")
                {
                    auto &fb = *static_cast<decltype(stdlib::feedback<SInt>(w)) *>(env.feedbacks.at(fbid).get());
                    fb(env.sports.at(std::stol(l.pos.at(2))));
                    continue;
                }
                if (spec_of(fbid).kind == "dfb")
                {
                    auto &fb = *static_cast<decltype(stdlib::feedback<DInt>(w)) *>(env.feedbacks.at(fbid).get());
                    fb(env.dports.at(std::stol(l.pos.at(2))));
                    continue;
                }
                if (spec_of(fbid).kind == "dlyl")
                {
                    // bind <id> <a>,<b>: the delayed two-element list is resolved to the list assembled from ports a and b
                    auto &d  = *static_cast<decltype(delayed_binding<L2>(w)) *>(env.feedbacks.at(fbid).get());
                    auto  ab = split(l.pos.at(2), ',');
                    d(stdlib::to_tsl<L2>(w, resolve(env, ab.at(0)), resolve(env, ab.at(1))));
                    continue;
                }
                if (spec_of(fbid).kind == "dly")
                {
                    auto &d = *static_cast<decltype(delayed_binding<TS<Int>>(w)) *>(env.feedbacks.at(fbid).get());
                    d(resolve(env, l.pos.at(2)));
                    continue;
                }
                auto      &fb   = *static_cast<decltype(stdlib::feedback<TS<Int>>(w)) *>(env.feedbacks.at(fbid).get());
                fb(resolve(env, l.pos.at(2)));
                continue;
            }
            if (l.pos[0] == "rankdep")
            {
                // rankdep <node> <after>: an explicit rank dependency - <node> is evaluated after <after> in every cycle
                w.add_rank_dependency(resolve(env, l.pos.at(1)).node(), resolve(env, l.pos.at(2)).node());
                continue;
            }
            if (l.pos[0] != "n") { throw std::logic_error("hgv: bad statement " + text); }
            const long        id   = std::stol(l.pos.at(1));
            const std::string kind = l.pos.at(2);
            NodeSpec         &sp   = spec_of(id);
            std::vector<P>    in;
            if (kind != "drec" && kind != "dgrow" && kind != "tmap" && kind != "lsuml" && kind != "elem3" && kind != "skeys" && kind != "srec" && kind != "map" && kind != "reduce" && kind != "rrec" && kind != "mesh" && kind != "elem" && kind != "dite" && kind != "duref")
            {
                for (auto &r : sp.ins) { in.push_back(resolve(env, r)); }
            }
            // `sameas=<id>`: this statement wires the very same definition with the very same scalars as statement <id>
            // (so the two are candidates for sharing one instance); its port is still registered under its own id
            const Int sid{l.has("sameas") ? l.geti("sameas") : id};
            if (kind == "src") { env.ports.emplace(id, wire<VSrc>(w, sid)); }
            else if (kind == "pass") { env.ports.emplace(id, wire<VPass>(w, sid, in.at(0))); }
            else if (kind == "add") { env.ports.emplace(id, wire<VAdd>(w, sid, Int{l.geti("k", 1)}, in.at(0))); }
            else if (kind == "sum2") { env.ports.emplace(id, wire<VSum2>(w, sid, in.at(0), in.at(1))); }
            // a LIFTED library operator (its node has a specialised evaluator, unlike the static nodes of the vocabulary):
            // integer floor division, throws "floordiv_: division by zero"
            else if (kind == "fdiv") { env.ports.emplace(id, wire<stdlib::floordiv_>(w, in.at(0), in.at(1)).as<TS<Int>>()); }
            else if (kind == "lsum") { env.ports.emplace(id, wire<VLSum>(w, sid, {in.at(0).erased(), in.at(1).erased()})); }
            else if (kind == "lsumv") { env.ports.emplace(id, wire<VLSumV>(w, sid, {in.at(0).erased(), in.at(1).erased()})); }
            else if (kind == "lsum3") { env.ports.emplace(id, wire<VLSum3>(w, sid, {in.at(0).erased(), in.at(1).erased(), in.at(2).erased()})); }
            else if (kind == "wsum")
            {
                // p=<period> m=<warm-up>: push into a tick window, total of the warm window
                const long pp = l.geti("p", 3), mm = l.geti("m", 1);
                auto       mk = [&]<int PP, int MM>() { env.ports.emplace(id, wire<VWTotal<PP, MM>>(w, sid, wire<VWPush<PP, MM>>(w, in.at(0)))); };
                if (pp == 3 && mm == 1) { mk.template operator()<3, 1>(); }
                else if (pp == 3 && mm == 3) { mk.template operator()<3, 3>(); }
                else if (pp == 3 && mm == 2) { mk.template operator()<3, 2>(); }
                else if (pp == 2 && mm == 1) { mk.template operator()<2, 1>(); }
                else if (pp == 2 && mm == 2) { mk.template operator()<2, 2>(); }
                else { throw std::logic_error("hgv: unsupported window"); }
            }
            else if (kind == "tog") { env.ports.emplace(id, wire<VTog>(w, sid, in.at(0), in.at(1))); }
            else if (kind == "ltog")
            {
                using LS = WiringStructuralSourceArg;
                env.ports.emplace(id, wire<VLTog>(w, sid, LS{in.at(0).erased(), in.at(1).erased()}, LS{in.at(2).erased(), in.at(3).erased()}));
            }
            else if (kind == "sum3") { env.ports.emplace(id, wire<VSum3>(w, sid, in.at(0), in.at(1), in.at(2))); }
            else if (kind == "sumu") { env.ports.emplace(id, wire<VSumU>(w, sid, in.at(0), in.at(1))); }
            else if (kind == "sample") { env.ports.emplace(id, wire<VSample>(w, sid, in.at(0), in.at(1))); }
            else if (kind == "acc") { env.ports.emplace(id, wire<VAcc>(w, sid, in.at(0))); }
            else if (kind == "count") { env.ports.emplace(id, wire<VCount>(w, sid, in.at(0))); }
            else if (kind == "echo") { env.ports.emplace(id, wire<VEcho>(w, sid, Int{l.geti("d", 1)}, in.at(0))); }
            else if (kind == "delay") { env.ports.emplace(id, wire<VDelay>(w, sid, Int{l.geti("d", 1)}, in.at(0))); }
            else if (kind == "techo") { env.ports.emplace(id, wire<VTEcho>(w, sid, Int{l.geti("d", 1)}, in.at(0))); }
            else if (kind == "tdelay") { env.ports.emplace(id, wire<VTDelay>(w, sid, Int{l.geti("d", 1)}, in.at(0))); }
            else if (kind == "timer") { env.ports.emplace(id, wire<VTimer>(w, sid, Int{l.geti("p", 1)}, Int{l.geti("cnt", 1)})); }
            else if (kind == "throwneg") { env.ports.emplace(id, wire<VThrowNeg>(w, sid, in.at(0))); }
            else if (kind == "rec") { wire<VRec>(w, sid, in.at(0)); }
            else if (kind == "dsrc") { env.dports.emplace(id, wire<VDSrc>(w, sid)); }
            else if (kind == "drec") { wire<VDRec>(w, sid, env.dports.at(std::stol(sp.ins.at(0)))); }
            else if (kind == "keymix") { env.ports.emplace(id, wire<VKeyMix>(w, sid, in.at(0), in.at(1))); }
            else if (kind == "map")
            {
                // in=<dict>[,<broadcast ts>]  g=<slot>  key=0|1  err=0|1
                const int  k      = static_cast<int>(l.geti("g", 0));
                const bool keyed  = l.geti("key", 0) != 0;
                auto       d      = env.dports.at(std::stol(sp.ins.at(0)));
                const bool two_d  = l.geti("dicts", 1) == 2;   // second input is a second multiplexed dictionary
                const bool bcast  = sp.ins.size() > 1 && !two_d;
                Port<void> mapped = [&]() -> Port<void> {
                    if (two_d)
                    {
                        auto d2 = env.dports.at(std::stol(sp.ins.at(1)));
                        if (keyed) { return dispatch_slot<SubGK2>(k, [&]<typename G>() { return Port<void>{wire<stdlib::map_>(w, fn<G>(), d, d2)}; }); }
                        return dispatch_slot<SubG2>(k, [&]<typename G>() { return Port<void>{wire<stdlib::map_>(w, fn<G>(), d, d2)}; });
                    }
                    if (!keyed && !bcast) { return dispatch_slot<SubG1>(k, [&]<typename G>() { return Port<void>{wire<stdlib::map_>(w, fn<G>(), d)}; }); }
                    if (!keyed && bcast) { return dispatch_slot<SubG2>(k, [&]<typename G>() { return Port<void>{wire<stdlib::map_>(w, fn<G>(), d, resolve(env, sp.ins.at(1)))}; }); }
                    if (keyed && !bcast) { return dispatch_slot<SubGK1>(k, [&]<typename G>() { return Port<void>{wire<stdlib::map_>(w, fn<G>(), d)}; }); }
                    return dispatch_slot<SubGK2>(k, [&]<typename G>() { return Port<void>{wire<stdlib::map_>(w, fn<G>(), d, resolve(env, sp.ins.at(1)))}; });
                }();
                auto typed = mapped.as<DInt>();
                env.dports.emplace(id, typed);
                if (l.geti("err", 0) != 0)
                {
                    Port<DErr> errors = exception_time_series(typed);
                    wire<VDErrRec>(w, sid, errors);
                }
            }
            else if (kind == "switch")
            {
                // in=<key ts>,<held ts>[,<held ts 2>]  cases=<keyvalue>:<slot>,...  [dflt=<slot>] [reload=1]
                stdlib::SwitchCases cases;
                const bool          two = in.size() > 2;
                auto fn_of = [&](int k) -> WiredFn {
                    if (two) { return dispatch_slot<SubG2>(k, [&]<typename G>() { return fn<G>(); }); }
                    return dispatch_slot<SubG1>(k, [&]<typename G>() { return fn<G>(); });
                };
                for (auto &c : split(l.gets("cases", ""), ','))
                {
                    auto kv = split(c, ':');
                    cases.cases.push_back(stdlib::SwitchCase{Value{Int{std::stol(kv.at(0))}}, fn_of(static_cast<int>(std::stol(kv.at(1))))});
                }
                if (l.has("dflt")) { cases.default_branch = fn_of(static_cast<int>(l.geti("dflt"))); }
                cases.reload_on_ticked = l.geti("reload", 0) != 0;
                if (two) { env.ports.emplace(id, wire<stdlib::switch_>(w, in.at(0), cases, in.at(1), in.at(2)).as<TS<Int>>()); }
                else { env.ports.emplace(id, wire<stdlib::switch_>(w, in.at(0), cases, in.at(1)).as<TS<Int>>()); }
            }
            else if (kind == "inline3" || kind == "nested3")
            {
                env.l3ports.emplace(id, wire_sub3(env, kind, static_cast<int>(l.geti("g", 0)), in));
            }
            else if (kind == "elem3")
            {
                env.ports.emplace(id, tsl_element(env.l3ports.at(std::stol(sp.ins.at(0))), static_cast<std::size_t>(l.geti("i", 0))));
            }
            else if (kind == "switch3")
            {
                // as `switch`, the branches return three-element lists
                stdlib::SwitchCases cases;
                const bool          two = in.size() > 2;
                auto fn_of = [&](int k) -> WiredFn {
                    if (two) { return dispatch_slot<SubG2L>(k, [&]<typename G>() { return fn<G>(); }); }
                    return dispatch_slot<SubG1L>(k, [&]<typename G>() { return fn<G>(); });
                };
                for (auto &c : split(l.gets("cases", ""), ','))
                {
                    auto kv = split(c, ':');
                    cases.cases.push_back(stdlib::SwitchCase{Value{Int{std::stol(kv.at(0))}}, fn_of(static_cast<int>(std::stol(kv.at(1))))});
                }
                if (l.has("dflt")) { cases.default_branch = fn_of(static_cast<int>(l.geti("dflt"))); }
                cases.reload_on_ticked = l.geti("reload", 0) != 0;
                if (two) { env.l3ports.emplace(id, wire<stdlib::switch_>(w, in.at(0), cases, in.at(1), in.at(2)).as<L3S>()); }
                else { env.l3ports.emplace(id, wire<stdlib::switch_>(w, in.at(0), cases, in.at(1)).as<L3S>()); }
            }
            else if (kind == "reduce")
            {
                // in=<dict>  comb=add|min|max|gadd|nadd  [zero=<v>]
                auto              d    = env.dports.at(std::stol(sp.ins.at(0)));
                const std::string comb = l.gets("comb", "add");
                WiredFn           f    = comb == "min" ? fn<stdlib::min_>() : comb == "max" ? fn<stdlib::max_>() : comb == "gadd" ? fn<CombAddG>()
                                         : comb == "nadd" ? fn<VCombAdd>() : fn<stdlib::add_>();
                // ordered=1: the deterministic left fold (is_associative = false): one chained child graph per element
                if (l.geti("ordered", 0) != 0)
                {
                    auto zero = wire<stdlib::const_, TS<Int>>(w, Int{l.geti("zero", 0)});
                    env.ports.emplace(id, wire<stdlib::reduce_>(w, f, d, zero, Bool{false}).as<TS<Int>>());
                }
                else if (l.has("zero")) { env.ports.emplace(id, wire<stdlib::reduce_>(w, f, d, Int{l.geti("zero")}).as<TS<Int>>()); }
                else { env.ports.emplace(id, wire<stdlib::reduce_>(w, f, d).as<TS<Int>>()); }
            }
            else if (kind == "lred")
            {
                // in=<a>,<b>,<c>  comb=add|min|max: reduce_ over a fixed-size list of three scalar streams with a lifted scalar function
                auto              lst  = stdlib::to_tsl<TS<Int>>(w, in.at(0), in.at(1), in.at(2));
                const std::string comb = l.gets("comb", "add");
                if (comb == "min")
                {
                    env.ports.emplace(id, wire<stdlib::reduce_>(w, lift<stdlib::scalar_min<Int>, std::numeric_limits<Int>::max()>(), lst).as<TS<Int>>());
                }
                else if (comb == "max")
                {
                    env.ports.emplace(id, wire<stdlib::reduce_>(w, lift<stdlib::scalar_max<Int>, std::numeric_limits<Int>::min()>(), lst).as<TS<Int>>());
                }
                else { env.ports.emplace(id, wire<stdlib::reduce_>(w, lift<stdlib::scalar_add<Int>>(), lst).as<TS<Int>>()); }
            }
            else if (kind == "rrec") { wire<VRRec>(w, sid, resolve(env, sp.ins.at(0)), env.dports.at(std::stol(sp.ins.at(1)))); }
            else if (kind == "ite")
            {
                // in=<cond int>,<then>,<else>: the result is a reference to the selected input (stdlib::if_then_else)
                auto cond = wire<VToBool>(w, in.at(0));
                env.ports.emplace(id, wire<stdlib::if_then_else>(w, cond, in.at(1), in.at(2)).as<TS<Int>>());
            }
            else if (kind == "gset") { wire<VGSet>(w, sid, Str{l.gets("key", "k")}, in.at(0)); }
            else if (kind == "gprobe") { env.ports.emplace(id, wire<VGProbe>(w, sid, Str{l.gets("key", "k")}, in.at(0))); }
            else if (kind == "grec") { wire<stdlib::dense_record_impl>(w, in.at(0), Str{l.gets("key", "r")}); }
            else if (kind == "meshref") { env.ports.emplace(id, stdlib::mesh_ref<TS<Int>>(w, in.at(0))); }
            else if (kind == "dflt0")
            {
                P zero = wire<stdlib::const_, TS<Int>>(w, Int{0});
                env.ports.emplace(id, wire<stdlib::default_>(w, in.at(0), zero).as<TS<Int>>());
            }
            else if (kind == "mesh")
            {
                // in=<values dict>,<links dict>  g=<slot>: one child per key; a child may read a sibling's result (meshref)
                const int k  = static_cast<int>(l.geti("g", 0));
                auto      dv = env.dports.at(std::stol(sp.ins.at(0)));
                auto      dl = env.dports.at(std::stol(sp.ins.at(1)));
                auto      m  = dispatch_slot<SubG2>(k, [&]<typename G>() { return Port<void>{wire<stdlib::mesh_>(w, fn<G>(), dv, dl)}; });
                env.dports.emplace(id, m.as<DInt>());
            }
            else if (kind == "dynlsrc") { env.dlports.emplace(id, wire<VDynLSrc>(w, sid)); }
            else if (kind == "tmap")
            {
                // map_sink_ over a dynamic list: one child graph per index (g=<slot>, one input, its result is recorded inside)
                const int k = static_cast<int>(l.geti("g", 0));
                auto      d = env.dlports.at(std::stol(sp.ins.at(0)));
                dispatch_slot<SubG1V>(k, [&]<typename G>() { wire<stdlib::map_sink_>(w, fn<G>(), d); return 0; });
            }
            else if (kind == "dgrow")
            {
                // in=<trigger>,<dict> (the dictionary is read passively)
                env.dports.emplace(id, wire<VDGrow>(w, sid, resolve(env, sp.ins.at(0)), passive(env.dports.at(std::stol(sp.ins.at(1))))));
            }
            else if (kind == "skeys") { env.sports.emplace(id, wire<VSKeys>(w, env.dports.at(std::stol(sp.ins.at(0))))); }
            else if (kind == "srec") { wire<VSRec>(w, sid, env.sports.at(std::stol(sp.ins.at(0)))); }
            else if (kind == "sfb")
            {
                using FB = decltype(stdlib::feedback<SInt>(w));
                std::shared_ptr<void> h = std::make_shared<FB>(stdlib::feedback<SInt>(w));
                env.sports.emplace(id, (*static_cast<FB *>(h.get()))());
                env.feedbacks[id] = h;
            }
            else if (kind == "dfb")
            {
                // feedback of a dictionary time-series: the reader sees every delta one smallest step later
                using FB = decltype(stdlib::feedback<DInt>(w));
                std::shared_ptr<void> h = std::make_shared<FB>(stdlib::feedback<DInt>(w));
                env.dports.emplace(id, (*static_cast<FB *>(h.get()))());
                env.feedbacks[id] = h;
            }
            else if (kind == "pack2") { env.lports.emplace(id, wire<VPack2>(w, in.at(0), in.at(1))); }
            else if (kind == "elem") { env.ports.emplace(id, tsl_element(env.lports.at(std::stol(sp.ins.at(0))), static_cast<std::size_t>(l.geti("i", 0)))); }
            else if (kind == "dite")
            {
                // in=<cond int>,<dict then>,<dict else>: a reference to the selected dictionary
                auto cond = wire<VToBool>(w, resolve(env, sp.ins.at(0)));
                env.dports.emplace(id, wire<stdlib::if_then_else>(w, cond, env.dports.at(std::stol(sp.ins.at(1))), env.dports.at(std::stol(sp.ins.at(2)))).as<DInt>());
            }
            else if (kind == "duref")
            {
                // as dite (in=<cond int>,<dict then>,<dict else>) through the user-written selector
                env.dports.emplace(id, wire<VDURef>(w, resolve(env, sp.ins.at(0)), env.dports.at(std::stol(sp.ins.at(1))), env.dports.at(std::stol(sp.ins.at(2)))).as<DInt>());
            }
            else if (kind == "sched") { wire<VSched>(w, sid, in.at(0)); }
            else if (kind == "schedo") { env.ports.emplace(id, wire<VSchedO>(w, sid, in.at(0))); }
            else if (kind == "lsrc") { env.ports.emplace(id, wire<LSrc>(w, sid, Int{l.geti("cnt", 2)})); }
            else if (kind == "lpass") { env.ports.emplace(id, wire<LPass>(w, sid, in.at(0))); }
            else if (kind == "lsink") { wire<LSink>(w, sid, in.at(0)); }
            else if (kind == "errof")
            {
                // error output of the node producing ref in[0]; logged by an error sink
                auto err = exception_time_series(in.at(0));
                wire<VErrRec>(w, sid, err);
            }
            else if (kind == "inline" || kind == "nested")
            {
                env.ports.emplace(id, wire_sub(env, kind, static_cast<int>(l.geti("g", 0)), in));
            }
            else if (kind == "tryexc")
            {
                const int k = static_cast<int>(l.geti("g", 0));
                auto      r = dispatch_slot<SubG1>(k, [&]<typename G>() { return try_except_<G>(w, in.at(0)).template as<TryIntResult>(); });
                env.ports.emplace(id, wire<VTryOut>(w, sid, r));
                wire<VTryErr>(w, sid, r);
            }
            else if (kind == "fb")
            {
                using FB = decltype(stdlib::feedback<TS<Int>>(w));
                std::shared_ptr<void> h;
                if (l.has("init")) { h = std::make_shared<FB>(stdlib::feedback<TS<Int>>(w, Int{l.geti("init")})); }
                else { h = std::make_shared<FB>(stdlib::feedback<TS<Int>>(w)); }
                env.ports.emplace(id, (*static_cast<FB *>(h.get()))());
                env.feedbacks[id] = h;
            }
            else if (kind == "dlyl")
            {
                // delayed binding of a whole two-element list: its consumer can be wired before the producers of the elements
                using DB = decltype(delayed_binding<L2>(w));
                std::shared_ptr<void> h = std::make_shared<DB>(delayed_binding<L2>(w));
                env.lports.emplace(id, (*static_cast<DB *>(h.get()))());
                env.feedbacks[id] = h;
            }
            else if (kind == "lsuml") { env.ports.emplace(id, wire<VLSum>(w, sid, env.lports.at(std::stol(sp.ins.at(0))))); }
            else if (kind == "dly")
            {
                // delayed binding: a forward reference resolved by a later `bind`; it is NOT a feedback
                using DB = decltype(delayed_binding<TS<Int>>(w));
                std::shared_ptr<void> h = std::make_shared<DB>(delayed_binding<TS<Int>>(w));
                env.ports.emplace(id, (*static_cast<DB *>(h.get()))());
                env.feedbacks[id] = h;
            }
            else { throw std::logic_error("hgv: unknown kind " + kind); }
        }
        if (g.out.empty()) { return std::nullopt; }
        return resolve(env, g.out);
    }

    struct RootG
    {
        static constexpr auto name = "hgv_root";
        static void           compose(Wiring &w)
        {
            Env env{w, {}};
            interpret(env, g_scn->graphs.at("root"));
        }
    };

    // ---------- observer ----------
    struct Obs : LifecycleObserver
    {
        // live graph instances (root and every nested child), for the schedule-table dump
        std::map<long, GraphPtr> live_graphs;
        void dump_slots(const GraphView &root)
        {
            std::string gs = "[";
            bool        first = true;
            for (auto &[inst, gp] : live_graphs)
            {
                GraphView g{gp};
                if (!first) { gs += ","; }
                first = false;
                long pg = -1, pn = -1;
                if (g.is_nested())
                {
                    auto p = g.as_nested().parent_node();
                    pg     = inst_of(p);
                    pn     = static_cast<long>(p.node_index());
                }
                gs += "{\"g\":" + std::to_string(inst) + ",\"pg\":" + std::to_string(pg) + ",\"pn\":" + std::to_string(pn) +
                      ",\"et\":" + std::to_string(to_k(g.evaluation_time())) + ",\"next\":" + std::to_string(to_k(g.next_scheduled_time())) + ",\"s\":[";
                for (std::size_t i = 0; i < g.node_count(); ++i)
                {
                    if (i) { gs += ","; }
                    gs += std::to_string(to_k(g.node_scheduled_time(i)));
                }
                gs += "]}";
            }
            gs += "]";
            J("slots").i("t", to_k(root.evaluation_time())).raw("gs", gs).emit();
        }
        void on_before_start_graph(const GraphView &g) override
        {
            J j("gstart");
            j.i("g", inst_of(g)).i("t", to_k(g.evaluation_time()));
            if (g.is_nested())
            {
                auto pn = g.as_nested().parent_node();
                j.i("pg", inst_of(pn)).i("pn", static_cast<long>(pn.node_index()));
            }
            else { j.i("pg", -1).i("pn", -1); }
            j.i("nn", static_cast<long>(g.node_count()));
            j.emit();
        }
        void on_after_start_graph(const GraphView &g) override
        {
            J("gstarted").i("g", inst_of(g)).emit();
            if (g_scn != nullptr && g_scn->slots) { live_graphs.insert_or_assign(inst_of(g), g.pointer()); }
        }
        void on_start_graph_failed(const GraphView &g) override { J("gstartfail").i("g", inst_of(g)).emit(); }
        static long id_of(const NodeView &n)
        {
            try
            {
                if (!n.has_scalars()) { return -1; }
                auto b = n.scalars().as_bundle();
                if (b.has_field("id")) { return static_cast<long>(b.at("id").checked_as<Int>()); }
            }
            catch (...) {}
            return -1;
        }
        void on_before_start_node(const NodeView &n) override
        {
            J("nstart").i("g", inst_of(n)).i("n", static_cast<long>(n.node_index())).i("id", id_of(n)).str("name", n.schema() ? n.schema()->name() : "?").emit();
        }
        void on_after_start_node(const NodeView &n) override { J("nstarted").i("g", inst_of(n)).i("n", static_cast<long>(n.node_index())).i("id", id_of(n)).emit(); }
        void on_start_node_failed(const NodeView &n) override { J("nstartfail").i("g", inst_of(n)).i("n", static_cast<long>(n.node_index())).emit(); }
        void on_before_graph_evaluation(const GraphView &g) override
        {
            J("cycle").i("g", inst_of(g)).i("t", to_k(g.evaluation_time())).emit();
        }
        void on_after_graph_evaluation(const GraphView &g) override
        {
            J("cycled").i("g", inst_of(g)).i("t", to_k(g.evaluation_time())).i("next", to_k(g.next_scheduled_time())).emit();
            if (g_scn != nullptr && g_scn->slots && !g.is_nested()) { dump_slots(g); }
        }
        void on_before_node_evaluation(const NodeView &n) override
        {
            J("eval").i("g", inst_of(n)).i("n", static_cast<long>(n.node_index())).i("t", to_k(n.graph().evaluation_time())).emit();
        }
        void on_after_node_evaluation(const NodeView &n) override
        {
            J("evald").i("g", inst_of(n)).i("n", static_cast<long>(n.node_index())).emit();
        }
        void on_before_stop_node(const NodeView &n) override { J("nstop").i("g", inst_of(n)).i("n", static_cast<long>(n.node_index())).i("id", id_of(n)).emit(); }
        void on_after_stop_node(const NodeView &n) override { J("nstopped").i("g", inst_of(n)).i("n", static_cast<long>(n.node_index())).emit(); }
        void on_stop_node_failed(const NodeView &n) override { J("nstopfail").i("g", inst_of(n)).i("n", static_cast<long>(n.node_index())).emit(); }
        void on_before_stop_graph(const GraphView &g) override
        {
            live_graphs.erase(inst_of(g));
            J("gstop").i("g", inst_of(g)).emit();
        }
        void on_after_stop_graph(const GraphView &g) override
        {
            J("gstopped").i("g", inst_of(g)).emit();
            instances().retire(g.data());
        }
        void on_stop_graph_failed(const GraphView &g) override { J("gstopfail").i("g", inst_of(g)).emit(); }
    };

    void dump_builder(const GraphBuilder &gb)
    {
        // compiled rank order: one line per node (index, display name, scenario id if any) and the edge list
        const auto &nodes = gb.nodes();
        for (std::size_t i = 0; i < nodes.size(); ++i)
        {
            const auto *schema = nodes[i].type().schema();
            long        id     = -1;
            const Value &sc = nodes[i].scalars();
            if (sc.has_value())
            {
                try
                {
                    auto b = sc.view().as_bundle();
                    if (b.has_field("id")) { id = static_cast<long>(b.at("id").checked_as<Int>()); }
                }
                catch (...) {}
            }
            J("gnode").i("n", static_cast<long>(i)).str("name", schema ? schema->name() : "?").i("id", id).i("kind", schema ? static_cast<long>(schema->node_kind) : -1).emit();
        }
        for (const auto &e : gb.edges())
        {
            std::vector<long> sp(e.source_path.begin(), e.source_path.end()), tp(e.target_path.begin(), e.target_path.end());
            J("gedge").i("src", static_cast<long>(graph_edge_source_node(e.source_node))).i("dst", static_cast<long>(e.target_node)).raw("sp", jlist(sp)).raw("tp", jlist(tp)).emit();
        }
    }

    // wire the scenario's root graph on the calling thread; logs scn / wirefail / the compiled graph
    // ---------- a node built through NodeBuilder::native: unlike the static vocabulary its validity gate is applied by the
    // RUNTIME (ready_to_evaluate).  `native <id> in=<required>,<active> at=<t1>,<t2>,...`: in its start hook it asks to be
    // woken at the given times; input 0 must hold a value for its evaluation to run, input 1 merely ticks.  Whether or not
    // the evaluation runs, every wake-up must be honoured by the engine (and the later ones survive the earlier ones). ----------
    void append_native_nodes(Scenario &scn, GraphBuilder &gb)
    {
        const auto &root = scn.graphs.at("root");
        for (const auto &text : root.natives)
        {
            Line       l   = parse_line(text);
            const long id  = std::stol(l.pos.at(1));
            auto       ins = split(l.gets("in"), ',');
            std::vector<long> at;
            for (auto &x : split(l.gets("at", ""), ',')) { at.push_back(std::stol(x)); }
            auto index_of = [&](long want) -> std::size_t {
                const auto &nodes = gb.nodes();
                for (std::size_t i = 0; i < nodes.size(); ++i)
                {
                    const Value &sc = nodes[i].scalars();
                    if (!sc.has_value()) { continue; }
                    try
                    {
                        auto b = sc.view().as_bundle();
                        if (b.has_field("id") && static_cast<long>(b.at("id").checked_as<Int>()) == want) { return i; }
                    }
                    catch (...) {}
                }
                throw std::logic_error("hgv: native node refers to an unknown producer");
            };
            const auto *ts_int   = schema_descriptor<TS<Int>>::ts_meta();
            const auto *in_schema = TypeRegistry::instance().un_named_tsb({{std::string{"need"}, ts_int}, {std::string{"tick"}, ts_int}});
            NodeTypeMetaData schema;
            schema.display_name   = "hgv_native_gated";
            schema.input_schema   = in_schema;
            schema.node_kind      = NodeKind::Sink;
            schema.uses_scheduler = true;
            NodeCallbacks callbacks;
            callbacks.start = [id, at](const NodeView &view, DateTime start_time) {
                const NodeScheduler sched{view.scheduler_state(), view.graph_value(), view.node_index(), start_time, view.started()};
                for (long t : at)
                {
                    if (to_dt(t) > start_time)
                    {
                        sched.schedule(to_dt(t));
                        log_req(id, view, start_time, to_dt(t));
                    }
                }
            };
            callbacks.evaluate = [id](const NodeView &view, DateTime evaluation_time) {
                J("nfn").i("id", id).i("g", inst_of(view)).i("n", static_cast<long>(view.node_index())).i("t", to_k(evaluation_time)).emit();
            };
            const std::size_t self = gb.nodes().size();
            gb.add_node(NodeBuilder::native(std::move(schema), std::move(callbacks),
                                            TSEndpointSchema::non_peered(in_schema, {TSEndpointSchema::peered(ts_int), TSEndpointSchema::peered(ts_int)})));
            gb.add_edge(GraphEdge{.source_node = make_graph_edge_source(index_of(std::stol(ins.at(0)))), .source_path = {}, .target_node = self, .target_path = {0}});
            gb.add_edge(GraphEdge{.source_node = make_graph_edge_source(index_of(std::stol(ins.at(1)))), .source_path = {}, .target_node = self, .target_path = {1}});
        }
    }

    std::optional<GraphBuilder> wire_scenario(Scenario &scn)
    {
        g_scn = &scn;
        J("scn").str("name", scn.name).i("start", scn.start).i("end", scn.end).emit();
        std::optional<GraphBuilder> gb;
        try
        {
            gb.emplace(build_graph<RootG>());
            append_native_nodes(scn, *gb);
        }
        catch (const std::exception &ex)
        {
            J("wirefail").str("msg", ex.what()).emit();
            gb.reset();
        }
        if (gb) { dump_builder(*gb); }
        return gb;
    }

    void report_failure(Scenario &scn, const std::string &msg)
    {
        // what the caller is told: which root node / phase the message names, which injected faults it quotes
        long        node = -1;
        std::string phase;
        if (auto p = msg.find("node["); p != std::string::npos)
        {
            node = std::atol(msg.c_str() + p + 5);
            if (auto q = msg.find("] ", p); q != std::string::npos)
            {
                auto r = msg.find(' ', q + 2);
                phase  = msg.substr(q + 2, r == std::string::npos ? std::string::npos : r - (q + 2));
            }
        }
        std::string tags = "[";
        for (auto &[id, sp] : scn.nodes)
        {
            for (const char *ph : {"start", "eval", "stop"})
            {
                if (msg.find("fault " + std::to_string(id) + " " + ph) != std::string::npos)
                {
                    if (tags.size() > 1) { tags += ","; }
                    tags += "[" + std::to_string(id) + "," + jstr(ph) + "]";
                }
            }
        }
        tags += "]";
        J("ret").i("ok", 0).str("msg", msg.substr(0, 300)).i("node", node).str("phase", phase).raw("tags", tags).emit();
    }

    // make an executor from (a copy of) the builder and run it on the calling thread
    // called with the root graph after the run returned (or failed), before the executor is released
    thread_local std::function<void(const GraphView &)> g_after_run;

    // what the run recorded under the keys of its `grec` statements (the in-memory recorder's buffers)
    void dump_recorded(Scenario &scn, const GraphView &graph)
    {
        for (auto &[id, sp] : scn.nodes)
        {
            if (sp.kind != "grec") { continue; }
            const std::string key = sp.line.gets("key", "r");
            std::string       vs  = "[";
            try
            {
                bool first = true;
                for (const auto &v : testing::get_recorded_values<Int>(graph.global_state(), key))
                {
                    if (!first) { vs += ","; }
                    first = false;
                    vs += v ? std::to_string(static_cast<long>(*v)) : std::string{"null"};
                }
                vs += "]";
            }
            catch (const std::exception &e)
            {
                vs = "\"unreadable\"";
            }
            J("recbuf").i("id", id).str("key", key).raw("vals", vs).emit();
        }
    }

    void execute_builder(Scenario &scn, const GraphBuilder &gb, GraphExecutorPhaseRunner runner = {})
    {
        g_scn = &scn;
        instances().reset();
        g_phase_count.clear();
        Obs                  obs;
        GraphExecutorBuilder eb;
        eb.graph_builder(gb).start_time(to_dt(scn.start)).end_time(to_dt(scn.end)).cleanup_on_error(scn.cleanup).add_lifecycle_observer(&obs);
        if (scn.rt_ms > 0)
        {
            const DateTime wall_now = std::chrono::time_point_cast<DateTime::duration>(std::chrono::system_clock::now());
            eb.mode(GraphExecutorMode::RealTime).start_time(wall_now).end_time(wall_now + std::chrono::milliseconds{scn.rt_ms});
        }
        if (runner) { eb.phase_runner(std::move(runner)); }
        {
            GraphExecutorValue ex = eb.make_executor();
            try
            {
                ex.view().run();
                J("ret").i("ok", 1).str("msg", "").emit();
            }
            catch (const std::exception &e)
            {
                report_failure(scn, e.what());
            }
            catch (...)
            {
                J("ret").i("ok", 0).str("msg", "unknown").emit();
            }
            try
            {
                dump_recorded(scn, ex.view().graph());
                if (g_after_run) { g_after_run(ex.view().graph()); }
            }
            catch (const std::exception &e)
            {
                J("harnessfail").str("msg", std::string{"after run: "} + e.what()).emit();
            }
        }
        J("released").emit();
    }

    void run_scenario(Scenario &scn)
    {
        instances().reset();
        auto gb = wire_scenario(scn);
        if (gb) { execute_builder(scn, *gb); }
        J("done").emit();
        trace().flush();
        g_scn = nullptr;
    }

    struct ScenarioParser
    {
        std::unique_ptr<Scenario> scn;
        GraphSpec                *cur{nullptr};
        // returns true when the line was part of a scenario definition
        bool feed(const std::string &text)
        {
            Line l = parse_line(text);
            if (l.pos.empty()) { return true; }
            const std::string &cmd = l.pos[0];
            if (cmd == "scn")
            {
                scn       = std::make_unique<Scenario>();
                scn->name = l.pos.size() > 1 ? l.pos[1] : "";
            }
            else if (cmd == "opt")
            {
                scn->start   = l.geti("start", 1);
                scn->end     = l.geti("end", 8);
                scn->cleanup = l.geti("cleanup", 1) != 0;
                scn->slots   = l.geti("slots", 0) != 0;
                scn->rt_ms   = l.geti("rt", 0);
            }
            else if (cmd == "graph")
            {
                GraphSpec g;
                g.name              = l.pos.at(1);
                g.nin               = l.geti("nin", 0);
                scn->graphs[g.name] = g;
                cur                 = &scn->graphs[g.name];
            }
            else if (cmd == "endgraph") { cur = nullptr; }
            else if (cmd == "out") { cur->out = l.pos.at(1); }
            else if (cmd == "n")
            {
                NodeSpec sp;
                sp.id   = std::stol(l.pos.at(1));
                sp.kind = l.pos.at(2);
                sp.line = l;
                if (l.has("in")) { sp.ins = split(l.gets("in"), ','); }
                if (l.has("script") && sp.kind != "dsrc")
                {
                    for (auto &tv : split(l.gets("script"), ';'))
                    {
                        auto p = split(tv, ':');
                        sp.script.emplace_back(std::stol(p.at(0)), std::stol(p.at(1)));
                    }
                }
                scn->nodes[sp.id] = sp;
                cur->stmts.push_back(text);
            }
            else if (cmd == "bind" || cmd == "rankdep") { cur->stmts.push_back(text); }
            else if (cmd == "native") { cur->natives.push_back(text); }
            else { return false; }
            return true;
        }
    };
}  // namespace

#ifndef HGV_NO_MAIN
int main(int argc, char **argv)
{
    stdlib::register_standard_operators();
    std::string    text;
    ScenarioParser parser;
    while (std::getline(std::cin, text))
    {
        Line l = parse_line(text);
        if (l.pos.empty() || l.pos[0][0] == '#') { continue; }
        if (l.pos[0] == "run")
        {
            try
            {
                run_scenario(*parser.scn);
            }
            catch (const std::exception &e)
            {
                J("harnessfail").str("msg", e.what()).emit();
                J("done").emit();
                trace().flush();
            }
        }
        else if (!parser.feed(text))
        {
            std::cerr << "hgv_engine: unknown command: " << text << "\n";
            return 2;
        }
    }
    return 0;
}
#endif  // HGV_NO_MAIN
