// hgv_rt: native driver for the two concurrent properties C16 (push queue) and C17 (real-time loop).
//
// stdin: scenarios; stdout: one ndjson trace per scenario, terminated by {"e":"done"} (same protocol as hgv_engine).
//
//   scn <name>
//   opt seed=<n> end_us=<n> slice_us=<n> start_us=<n> jitter=<0|1|2> watchdog_ms=<n> limit=<n> mode=free|replay
//   src <sid> policy=queue|burst|conf|confd cap=<n> [stopafter=<deliveries>] push source <sid> -> collecting sink
//                                       confd: conflating over a dictionary output TSD<Int, TS<Int>>; send v sets key v % 3
//                                       to v (an effective delta) or - where the producer's fx pattern says 0 - erases key
//                                       99, which is never set (a delta with no effect: nothing to deliver); the sink logs
//                                       the modified values (ordered by key) and their keys
//   prod <pid> src=<sid> kind=try|block n=<messages> [gap_us=<n>] [retries=<n>] [fx=<0/1 pattern, cyclic>] [delay_us=<n>]
//                                       producer thread, values pid*1000+i; delay_us: sleep before the first send
//   stopper after_us=<n>                                                     thread calling request_stop
//   timer <tid> acts=<a0>/<a1>/...      scripted scheduler node; a_k = ops joined by '+', run in activation k
//                                       (k = 0 the start hook); ops: rel.<us> abs.<us> wall.<us> spin.<us> lag.<us> stop -
//                                       [tail=<ops> tailn=<n>]: ops of the next n activations after the scripted ones
//                                       [in=<sid>]: the node also has an active input bound to push source <sid>; an
//                                       activation caused by that input alone runs no ops and is not a timer evaluation
//   sched <th>:<gate>,<th>:<gate>,...   replay: interleaving of critical sections (th: e | p<pid> | s)
//   run
//
// The real-time executor runs on the main thread.  Every hook point reported by the library (verif_hooks.h) gets a
// global sequence number - taken while the caller still holds the protecting mutex for the in-lock points - and is
// appended to a per-thread buffer together with the thread's current send (source, value).  Producers log call
// start/end and the boolean result, sinks log deliveries, a lifecycle observer logs cycles, timer nodes log their
// requests and evaluations; all with sequence numbers from the same counter.  Times are microseconds relative to the
// run's start time; wall = system clock + injected offset (the same offset the executor adds).
//
// mode=free  : free-running stress; seeded random micro-delays at the PRE points (no hgraph mutex held).
// mode=replay: PRE points are gates; a controller releases one thread at a time following `sched`, waits until all
//              threads are again at a gate / blocked in a wait / finished, and falls back to free running (reporting
//              sched diverged=1) when a thread does not show up at the predicted gate in time.
#include "../common.h"

#include <hgraph/runtime/push_source_node.h>
#include <hgraph/types/static_schema.h>
#include <hgraph/util/verif_hooks.h>

#if !defined(HGRAPH_VERIF)
#error "hgv_rt needs the verification hooks (build with -DHGRAPH_VERIF=1)"
#endif

#include <atomic>
#include <chrono>
#include <condition_variable>
#include <mutex>
#include <random>
#include <thread>
#include <unistd.h>

using namespace hgraph;
using namespace hgv;
namespace hv = hgraph::verif;

namespace
{
    // ------------------------------------------------------------------ scenario
    struct SrcSpec
    {
        long        sid{0};
        std::string policy{"queue"};
        long        cap{0};
        long        stopafter{0};
    };
    struct ProdSpec
    {
        long        pid{1};
        long        src{0};
        std::string kind{"try"};
        long        n{1};
        long        gap_us{0};
        long        retries{0};
        std::string fx{"1"};     // confd sources: send i is effective iff fx[i % len] != '0'
        long        delay_us{0};
    };
    struct TimerSpec
    {
        long                                  tid{0};
        std::vector<std::vector<std::string>> acts;
        std::vector<std::string>              tail;   // ops of every activation after the scripted ones ...
        long                                  tailn{0};  // ... for this many further activations
        long                                  in{-1};    // push source whose output also activates this node (-1: none)
    };
    struct Step
    {
        int th{0};
        int pt{0};
    };
    struct Scenario
    {
        std::string            name;
        long                   seed{1}, end_us{20000}, slice_us{1000}, start_us{0}, jitter{1}, watchdog_ms{8000}, limit{0};
        bool                   replay{false};
        std::vector<SrcSpec>   srcs;
        std::vector<ProdSpec>  prods;
        std::vector<TimerSpec> timers;
        long                   stopper_after_us{-1};
        std::vector<Step>      sched;
    };

    // ------------------------------------------------------------------ events
    enum Kind : std::uint8_t
    {
        K_HOOK,
        K_CALL,
        K_RET,
        K_DLV,
        K_CYCLE,
        K_CYCLED,
        K_TEV,
        K_REQ,
        K_LAG,
        K_STOPCALL,
        K_STOPRET,
        K_STARTED,
        K_RUNRET
    };
    struct Ev
    {
        std::int64_t      seq{0};
        std::uint8_t      kind{K_HOOK};
        int               th{0};
        int               pt{0};
        const void       *obj{nullptr};
        std::int64_t      a{0}, b{0}, c{0}, d{0}, e{0}, f{0};
        long              src{-1}, val{-1};
        std::string       s;
        std::vector<long> vals, keys;
    };

    struct TCtx
    {
        int             idx{0};
        std::vector<Ev> buf;
        long            cur_src{-1}, cur_val{-1};
        std::mt19937_64 rng;
        // replay state (guarded by Run::rm)
        int  at_gate{0};
        int  tickets{0};
        bool blocked{false};
        int  blocked_pt{0};
        const void *blocked_obj{nullptr};
        bool finished{false};
        bool started{false};
    };
    thread_local TCtx *tl = nullptr;

    struct Run
    {
        Scenario                          *scn{nullptr};
        std::atomic<std::int64_t>          seq{1};
        std::atomic<bool>                  frozen{false};
        std::vector<std::unique_ptr<TCtx>> threads;  // fixed before any thread starts
        DateTime                           base{};
        std::int64_t                       base_us{0};
        // replay
        bool                    replay{false};
        std::mutex              rm;
        std::condition_variable rcv;
        bool                    free_run{false};
        bool                    diverged{false};
        std::string             why;
        std::size_t             steps_done{0};
        // run phase signalling
        std::mutex              pm;
        std::condition_variable pcv;
        bool                    graph_started{false};
        bool                    run_over{false};
        std::atomic<bool>       over_flag{false};
        std::vector<PushSourceSender> senders;
        std::vector<bool>             sender_ready;
        GraphExecutorView      *view{nullptr};
    };
    Run *g_run = nullptr;

    TCtx *ctx_of(Run &r, int idx)
    {
        for (auto &t : r.threads)
        {
            if (t->idx == idx) { return t.get(); }
        }
        return nullptr;
    }

    DateTime wall()
    {
        return std::chrono::time_point_cast<std::chrono::microseconds>(engine_clock::now()) +
               TimeDelta{hv::wall_clock_offset_us.load(std::memory_order_relaxed)};
    }
    long rel(DateTime t)
    {
        if (t == MIN_DT) { return -2000000000L; }
        const auto d = (t - g_run->base).count();
        if (d > 2000000000LL) { return 2000000000L; }
        if (d < -2000000000LL) { return -2000000000L; }
        return static_cast<long>(d);
    }
    long rel_us(std::int64_t epoch_us)
    {
        const auto d = epoch_us - g_run->base_us;
        if (d > 2000000000LL) { return 2000000000L; }
        if (d < -2000000000LL) { return -2000000000L; }
        return static_cast<long>(d);
    }
    void spin_us(long us)
    {
        const auto until = std::chrono::steady_clock::now() + std::chrono::microseconds(us);
        while (std::chrono::steady_clock::now() < until) {}
    }

    Ev &record(std::uint8_t kind)
    {
        TCtx *t = tl;
        Ev    e;
        e.kind = kind;
        e.th   = t->idx;
        e.seq  = g_run->seq.fetch_add(1, std::memory_order_seq_cst);
        t->buf.push_back(std::move(e));
        return t->buf.back();
    }

    // ------------------------------------------------------------------ hook points
    struct PointName
    {
        int         pt;
        const char *name;
        bool        pre;
    };
    const PointName point_names[] = {
        {hv::rt_advance_pre, "rt_advance_pre", true},       {hv::rt_advance_locked, "rt_advance_locked", false},
        {hv::rt_wait_begin, "rt_wait_begin", false},        {hv::rt_wait_end, "rt_wait_end", false},
        {hv::rt_compute_next, "rt_compute_next", false},    {hv::rt_drain_cut, "rt_drain_cut", false},
        {hv::rt_mark_push_pre, "rt_mark_push_pre", true},   {hv::rt_mark_push_locked, "rt_mark_push_locked", false},
        {hv::rt_mark_push_set, "rt_mark_push_set", false},  {hv::rt_reset_push_pre, "rt_reset_push_pre", true},
        {hv::rt_reset_push, "rt_reset_push", false},        {hv::rt_stop_pre, "rt_stop_pre", true},
        {hv::rt_stop, "rt_stop", false},                    {hv::pq_start, "pq_start", false},
        {hv::pq_stop_pre, "pq_stop_pre", true},             {hv::pq_stop_locked, "pq_stop_locked", false},
        {hv::pq_stop_done, "pq_stop_done", false},          {hv::pq_try_send_pre, "pq_try_send_pre", true},
        {hv::pq_refused_stopped, "pq_refused_stopped", false}, {hv::pq_refused_full, "pq_refused_full", false},
        {hv::pq_accepted, "pq_accepted", false},            {hv::pq_send_blocking_pre, "pq_send_blocking_pre", true},
        {hv::pq_before_wait, "pq_before_wait", false},      {hv::pq_after_wake, "pq_after_wake", false},
        {hv::pq_try_pop_pre, "pq_try_pop_pre", true},       {hv::pq_pop_empty, "pq_pop_empty", false},
        {hv::pq_pop, "pq_pop", false},                      {hv::pq_take_all_pre, "pq_take_all_pre", true},
        {hv::pq_take_all, "pq_take_all", false},            {hv::cf_start, "cf_start", false},
        {hv::cf_stop_pre, "cf_stop_pre", true},             {hv::cf_stop, "cf_stop", false},
        {hv::cf_try_send_pre, "cf_try_send_pre", true},     {hv::cf_refused_stopped, "cf_refused_stopped", false},
        {hv::cf_accepted, "cf_accepted", false},            {hv::cf_take_pre, "cf_take_pre", true},
        {hv::cf_take_empty, "cf_take_empty", false},        {hv::cf_take, "cf_take", false},
        {hv::sc_enter_pre, "sc_enter_pre", true},           {hv::sc_enter_refused, "sc_enter_refused", false},
        {hv::sc_entered, "sc_entered", false},              {hv::sc_leave_pre, "sc_leave_pre", true},
        {hv::sc_left, "sc_left", false},                    {hv::sc_begin_close_pre, "sc_begin_close_pre", true},
        {hv::sc_begin_close, "sc_begin_close", false},      {hv::sc_stop_seen, "sc_stop_seen", false},
        {hv::sc_quiescent, "sc_quiescent", false},          {hv::sc_detached, "sc_detached", false},
        {hv::sc_quiesce_wait, "sc_quiesce_wait", false},
    };
    const PointName *point_info(int pt)
    {
        for (const auto &p : point_names)
        {
            if (p.pt == pt) { return &p; }
        }
        return nullptr;
    }
    int point_by_name(const std::string &n)
    {
        for (const auto &p : point_names)
        {
            if (n == p.name) { return p.pt; }
        }
        return 0;
    }

    void jitter(Run &r, TCtx &t, bool pre)
    {
        const long level = r.scn->jitter;
        if (level <= 0) { return; }
        const auto x = t.rng() % 1000;
        if (pre)
        {
            if (level == 1)
            {
                if (x < 700) { return; }
                if (x < 850) { std::this_thread::yield(); }
                else if (x < 985) { spin_us(static_cast<long>(t.rng() % 15)); }
                else { std::this_thread::sleep_for(std::chrono::microseconds(t.rng() % 120)); }
            }
            else
            {
                if (x < 400) { return; }
                if (x < 600) { std::this_thread::yield(); }
                else if (x < 950) { spin_us(static_cast<long>(t.rng() % 40)); }
                else { std::this_thread::sleep_for(std::chrono::microseconds(t.rng() % 300)); }
            }
        }
        else if (level >= 2 && x < 60) { spin_us(static_cast<long>(t.rng() % 8)); }  // hold the lock a little longer
    }

    // ---- replay gate (PRE points): block until the controller hands this thread a ticket ----
    void gate(Run &r, TCtx &t, int pt)
    {
        std::unique_lock lk(r.rm);
        if (r.free_run) { return; }
        t.at_gate = pt;
        r.rcv.notify_all();
        r.rcv.wait(lk, [&] { return r.free_run || t.tickets > 0; });
        if (t.tickets > 0) { --t.tickets; }
        t.at_gate = 0;
    }
    // in-lock point reached: bookkeeping of who is blocked inside a library wait / who has just been woken
    void post(Run &r, TCtx &t, int pt, const void *obj, std::int64_t a, std::int64_t b)
    {
        std::lock_guard lk(r.rm);
        if (r.free_run) { return; }
        auto wake_waiters = [&](int blocked_pt, const void *o) {
            for (auto &o_t : r.threads)
            {
                if (o_t->blocked && o_t->blocked_pt == blocked_pt && (o == nullptr || o_t->blocked_obj == o)) { o_t->blocked = false; }
            }
        };
        switch (pt)
        {
            case hv::rt_wait_begin:
                t.blocked = true, t.blocked_pt = pt, t.blocked_obj = obj;
                break;
            case hv::rt_wait_end: t.blocked = false; break;
            case hv::pq_before_wait:
                if (b != 0 && a >= b) { t.blocked = true, t.blocked_pt = pt, t.blocked_obj = obj; }
                break;
            case hv::pq_after_wake: t.blocked = false; break;
            case hv::sc_quiesce_wait:
                if (a > 0) { t.blocked = true, t.blocked_pt = pt, t.blocked_obj = obj; }
                break;
            case hv::sc_quiescent: t.blocked = false; break;
            // events that wake a waiter: the woken thread counts as running from now on
            case hv::rt_mark_push_set:
            case hv::rt_stop: wake_waiters(hv::rt_wait_begin, nullptr); break;
            case hv::pq_pop:
            case hv::pq_take_all:
            case hv::pq_stop_done: wake_waiters(hv::pq_before_wait, obj); break;
            case hv::sc_left:
                if (a == 0) { wake_waiters(hv::sc_quiesce_wait, obj); }
                break;
            default: break;
        }
        r.rcv.notify_all();
    }

    void hook_handler(int pt, const void *obj, std::int64_t a, std::int64_t b)
    {
        TCtx *t = tl;
        Run  *r = g_run;
        if (t == nullptr || r == nullptr || r->frozen.load(std::memory_order_relaxed)) { return; }
        const PointName *info = point_info(pt);
        const bool       pre  = info != nullptr && info->pre;
        if (pre)
        {
            if (r->replay) { gate(*r, *t, pt); }
            else { jitter(*r, *t, true); }
        }
        Ev e;
        e.kind = K_HOOK;
        e.th   = t->idx;
        e.pt   = pt;
        e.obj  = obj;
        e.a    = a;
        e.b    = b;
        e.src  = t->cur_src;
        e.val  = t->cur_val;
        e.seq  = r->seq.fetch_add(1, std::memory_order_seq_cst);
        t->buf.push_back(std::move(e));
        if (!pre)
        {
            if (r->replay) { post(*r, *t, pt, obj, a, b); }
            else { jitter(*r, *t, false); }
        }
    }

    // ------------------------------------------------------------------ graph nodes
    constexpr long kDictKeys  = 3;    // confd: send v writes key v % 3 (PushTrace.tla KeyOf)
    constexpr long kAbsentKey = 99;   // confd: the key erased by a no-effect send; never set

    void do_request_stop(const GraphExecutorView &ex)
    {
        record(K_STOPCALL);
        ex.request_stop();
        record(K_STOPRET);
    }

    NodeBuilder make_sink(const SrcSpec &sp, const TSValueTypeMetaData &input_schema, const TSValueTypeMetaData &input_ts)
    {
        NodeTypeMetaData schema;
        schema.display_name = "hgv_rt_sink";
        schema.input_schema = &input_schema;
        schema.node_kind    = NodeKind::Sink;
        NodeCallbacks callbacks;
        const bool    burst = sp.policy == "burst";
        const bool    dict  = sp.policy == "confd";
        const long    sid = sp.sid, stopafter = sp.stopafter;
        auto          count = std::make_shared<long>(0);
        callbacks.evaluate  = [burst, dict, sid, stopafter, count](const NodeView &view, DateTime evaluation_time) {
            auto              root   = view.input(evaluation_time);
            auto              bundle = root.as_bundle();
            std::vector<long> values, keys;
            if (burst)
            {
                auto tuple = bundle[0].value().as_list();
                for (std::size_t i = 0; i < tuple.size(); ++i) { values.push_back(static_cast<long>(tuple[i].checked_as<Int>())); }
            }
            else if (dict)
            {
                // the delivered state change: the modified entries of the dictionary, ordered by key
                std::vector<std::pair<long, long>> mod;
                auto                               in0 = bundle[0];
                auto                               d   = in0.as_dict();
                for (auto [key, child] : d.modified_items())
                {
                    if (child.valid()) { mod.emplace_back(static_cast<long>(key.checked_as<Int>()), static_cast<long>(child.value().checked_as<Int>())); }
                }
                std::sort(mod.begin(), mod.end());
                for (auto &kv : mod)
                {
                    keys.push_back(kv.first);
                    values.push_back(kv.second);
                }
            }
            else { values.push_back(static_cast<long>(bundle[0].value().checked_as<Int>())); }
            *count += static_cast<long>(values.size());
            Ev &e  = record(K_DLV);
            e.src  = sid;
            e.a    = rel(evaluation_time);
            e.b    = rel(wall());
            e.vals = std::move(values);
            e.keys = std::move(keys);
            if (stopafter > 0 && *count >= stopafter) { do_request_stop(view.graph().executor()); }
        };
        return NodeBuilder::native(std::move(schema), std::move(callbacks), hgraph::testing::single_input_endpoint(input_schema, input_ts));
    }

    void run_acts(const TimerSpec &sp, long k, const NodeView &view, DateTime now)
    {
        const long nacts = static_cast<long>(sp.acts.size());
        if (k >= nacts + sp.tailn) { return; }
        const std::vector<std::string> &ops = k < nacts ? sp.acts[static_cast<std::size_t>(k)] : sp.tail;
        const NodeScheduler sched{view.scheduler_state(), view.graph_value(), view.node_index(), now, view.started(),
                                  view.evaluation_clock(), /*supports_wall_clock=*/true};
        long                nreq = 0;
        for (const std::string &op : ops)
        {
            auto       parts = split(op, '.');
            const auto name  = parts.at(0);
            const long arg   = parts.size() > 1 ? std::stol(parts[1]) : 0;
            if (name == "-" || name.empty()) { continue; }
            if (name == "spin") { spin_us(arg); }
            else if (name == "lag")
            {
                hv::wall_clock_offset_us.fetch_add(arg, std::memory_order_relaxed);
                record(K_LAG).a = arg;
            }
            else if (name == "stop") { do_request_stop(view.graph().executor()); }
            else if (name == "rel" || name == "abs" || name == "wall")
            {
                const std::string tag  = "r" + std::to_string(k) + "_" + std::to_string(nreq++);
                const bool        onw  = name == "wall";
                const DateTime    w0   = wall();
                const DateTime    want = name == "rel" ? now + TimeDelta{arg} : name == "abs" ? g_run->base + TimeDelta{arg} : w0 + TimeDelta{arg};
                sched.schedule(want, tag, onw);
                const DateTime w1  = wall();
                const DateTime eff = sched.tag_time(tag, MIN_DT);
                Ev            &e   = record(K_REQ);
                e.s                = name;
                e.a                = sp.tid;
                e.b                = k;
                e.c                = rel(now);
                e.d                = rel(want);
                e.e                = eff == MIN_DT ? -1 : rel(eff);
                e.f                = rel(w0);
                e.vals             = {rel(w1)};
            }
            else { throw std::logic_error("hgv_rt: unknown timer op " + op); }
        }
    }

    NodeBuilder make_timer(const TimerSpec &sp, const TSValueTypeMetaData &ts_int, const TSValueTypeMetaData *input_schema = nullptr)
    {
        NodeTypeMetaData schema;
        schema.display_name   = "hgv_rt_timer";
        schema.output_schema  = &ts_int;
        schema.node_kind      = input_schema != nullptr ? NodeKind::Compute : NodeKind::PullSource;
        schema.input_schema   = input_schema;
        schema.uses_scheduler = true;
        NodeCallbacks callbacks;
        auto          k  = std::make_shared<long>(0);
        const TimerSpec spec = sp;
        callbacks.start      = [spec, k](const NodeView &view, DateTime start_time) {
            *k = 0;
            run_acts(spec, 0, view, start_time);
        };
        callbacks.evaluate = [spec, k](const NodeView &view, DateTime evaluation_time) {
            if (spec.in >= 0)
            {
                // activated by the input alone: the pending timer requests stay as they are (the engine re-arms them)
                const auto &events = view.scheduler_state().events;
                if (events.empty() || events.begin()->first != evaluation_time) { return; }
            }
            ++*k;
            Ev &e = record(K_TEV);
            e.a   = spec.tid;
            e.b   = *k;
            e.c   = rel(evaluation_time);
            e.d   = rel(wall());
            hgraph::testing::set_output_value(view, evaluation_time, Int{*k});
            run_acts(spec, *k, view, evaluation_time);
        };
        if (input_schema != nullptr)
        {
            callbacks.input_validity_in_evaluate = true;   // the timer runs whether or not the input holds a value yet
            return NodeBuilder::native(std::move(schema), std::move(callbacks), hgraph::testing::single_input_endpoint(*input_schema, ts_int));
        }
        return NodeBuilder::native(std::move(schema), std::move(callbacks));
    }

    struct Obs : LifecycleObserver
    {
        void on_after_start_graph(const GraphView &g) override
        {
            if (g.is_nested()) { return; }
            record(K_STARTED);
            {
                std::lock_guard lk(g_run->pm);
                g_run->graph_started = true;
            }
            g_run->pcv.notify_all();
        }
        void on_before_graph_evaluation(const GraphView &g) override
        {
            if (g.is_nested()) { return; }
            Ev &e = record(K_CYCLE);
            e.a   = rel(g.evaluation_time());
            e.b   = rel(wall());
        }
        void on_after_graph_evaluation(const GraphView &g) override
        {
            if (g.is_nested()) { return; }
            Ev &e = record(K_CYCLED);
            e.a   = rel(g.evaluation_time());
        }
    };

    // ------------------------------------------------------------------ threads
    void producer_main(Run &r, const ProdSpec &sp, TCtx *t)
    {
        tl = t;
        {
            std::unique_lock lk(r.pm);
            r.pcv.wait(lk, [&] { return r.sender_ready[static_cast<std::size_t>(sp.src)] || r.run_over; });
            if (!r.sender_ready[static_cast<std::size_t>(sp.src)])
            {
                std::lock_guard rl(r.rm);
                t->finished = true;
                r.rcv.notify_all();
                return;
            }
        }
        PushSourceSender sender = r.senders[static_cast<std::size_t>(sp.src)];
        {
            std::lock_guard rl(r.rm);
            t->started = true;
        }
        const bool dict = r.scn->srcs[static_cast<std::size_t>(sp.src)].policy == "confd";
        if (!r.replay && sp.delay_us > 0)
        {
            std::unique_lock lk(r.pm);
            r.pcv.wait_for(lk, std::chrono::microseconds(sp.delay_us), [&] { return r.run_over; });
        }
        for (long i = 0; i < sp.n; ++i)
        {
            const long v  = sp.pid * 1000 + i;
            const bool fx = !dict || sp.fx.empty() || sp.fx[static_cast<std::size_t>(i) % sp.fx.size()] != '0';
            for (long attempt = 0; attempt <= sp.retries; ++attempt)
            {
                if (!r.replay && sp.gap_us > 0 && !r.over_flag.load(std::memory_order_relaxed))
                {
                    const long g = static_cast<long>(t->rng() % static_cast<unsigned long>(sp.gap_us + 1));
                    if (g > 60) { std::this_thread::sleep_for(std::chrono::microseconds(g)); }
                    else if (g > 0) { spin_us(g); }
                }
                t->cur_src = sp.src;
                t->cur_val = v;
                {
                    Ev &e = record(K_CALL);
                    e.src = sp.src;
                    e.val = v;
                    e.s   = sp.kind;
                    e.a   = fx ? 1 : 0;
                }
                bool ok = false, exc = false;
                try
                {
                    if (dict)
                    {
                        // effective: set key v % 3 to v; no effect: a (lenient) removal of a key that is never set
                        Value delta = fx ? dict_delta<Int, TS<Int>>({{Int{v % kDictKeys}, Int{v}}}) : dict_delta<Int, TS<Int>>({}, {Int{kAbsentKey}});
                        ok          = sp.kind == "block" ? sender.send_blocking(std::move(delta)) : sender.try_send(std::move(delta));
                    }
                    else { ok = sp.kind == "block" ? sender.send_blocking(Int{v}) : sender.try_send(Int{v}); }
                }
                catch (const std::exception &)
                {
                    exc = true;
                }
                {
                    Ev &e = record(K_RET);
                    e.a   = ok ? 1 : 0;
                    e.b   = exc ? 1 : 0;
                    e.src = sp.src;
                    e.val = v;
                }
                t->cur_src = -1;
                t->cur_val = -1;
                if (ok) { break; }
            }
        }
        std::lock_guard rl(r.rm);
        t->finished = true;
        r.rcv.notify_all();
    }

    void stopper_main(Run &r, TCtx *t)
    {
        tl = t;
        {
            std::unique_lock lk(r.pm);
            r.pcv.wait(lk, [&] { return r.graph_started || r.run_over; });
            if (!r.graph_started)
            {
                std::lock_guard rl(r.rm);
                t->finished = true;
                r.rcv.notify_all();
                return;
            }
        }
        {
            std::lock_guard rl(r.rm);
            t->started = true;
        }
        if (!r.replay && r.scn->stopper_after_us > 0)
        {
            std::unique_lock lk(r.pm);
            r.pcv.wait_for(lk, std::chrono::microseconds(r.scn->stopper_after_us), [&] { return r.run_over; });
        }
        bool over = false;
        {
            std::lock_guard lk(r.pm);
            over = r.run_over;
        }
        if (!over && r.view != nullptr) { do_request_stop(*r.view); }
        std::lock_guard rl(r.rm);
        t->finished = true;
        r.rcv.notify_all();
    }

    // the replay controller: one critical section at a time
    void controller_main(Run &r)
    {
        using namespace std::chrono_literals;
        std::unique_lock lk(r.rm);
        auto             settled = [&] {
            for (auto &t : r.threads)
            {
                if (!(t->at_gate != 0 || t->blocked || t->finished || !t->started)) { return false; }
            }
            return true;
        };
        for (const Step &st : r.scn->sched)
        {
            TCtx *t = ctx_of(r, st.th);
            if (t == nullptr)
            {
                r.diverged = true;
                r.why      = "unknown thread " + std::to_string(st.th);
                break;
            }
            const bool there = r.rcv.wait_for(lk, 5000ms, [&] { return t->at_gate != 0 || t->finished || r.free_run; });
            if (r.free_run) { break; }
            if (!there || t->finished || t->at_gate != st.pt)
            {
                const PointName *want = point_info(st.pt), *got = point_info(t->at_gate);
                r.diverged            = true;
                r.why = "step " + std::to_string(r.steps_done) + ": thread " + std::to_string(st.th) + " expected at " + (want ? want->name : "?") +
                        (t->finished ? " but it has finished" : !there ? " but it did not arrive" : std::string(" but it is at ") + (got ? got->name : "?"));
                break;
            }
            ++t->tickets;
            t->at_gate = 0;  // counts as running until it reaches the next gate / blocks / finishes
            r.rcv.notify_all();
            r.rcv.wait_for(lk, 1500ms, settled);   // generous: a descheduled thread must not be overtaken
            ++r.steps_done;
        }
        r.free_run = true;
        r.rcv.notify_all();
    }

    // ------------------------------------------------------------------ output
    void dump(Run &r, const char *tail_event, const std::string &msg)
    {
        std::vector<const Ev *> all;
        for (auto &t : r.threads)
        {
            for (const Ev &e : t->buf) { all.push_back(&e); }
        }
        std::sort(all.begin(), all.end(), [](const Ev *x, const Ev *y) { return x->seq < y->seq; });
        // object ids by first appearance; storage -> source by start order; control -> source from producer events
        std::unordered_map<const void *, long> oid, osrc;
        long                                   nstart = 0;
        for (const Ev *e : all)
        {
            if (e->kind != K_HOOK) { continue; }
            if (!oid.count(e->obj)) { oid[e->obj] = static_cast<long>(oid.size()); }
            if (e->pt == hv::pq_start || e->pt == hv::cf_start) { osrc[e->obj] = nstart++; }
            else if (e->pt >= 400 && e->src >= 0 && !osrc.count(e->obj)) { osrc[e->obj] = e->src; }
        }
        for (const Ev *e : all)
        {
            switch (e->kind)
            {
                case K_HOOK:
                {
                    const PointName *info = point_info(e->pt);
                    J                j("h");
                    j.i("s", e->seq).i("th", e->th).str("p", info ? info->name : "unknown").i("o", oid[e->obj]);
                    long a = e->a, b = e->b;
                    switch (e->pt)
                    {
                        case hv::rt_advance_pre: a = rel_us(e->a), b = rel_us(e->b); break;
                        case hv::rt_wait_begin:
                        case hv::rt_wait_end: b = rel_us(e->b); break;
                        case hv::rt_compute_next: a = rel_us(e->a), b = rel_us(e->b); break;
                        case hv::rt_drain_cut: a = rel_us(e->a); break;
                        default: break;
                    }
                    j.i("a", a).i("b", b);
                    long src = e->src;
                    if (e->pt >= 200 && osrc.count(e->obj)) { src = osrc[e->obj]; }
                    j.i("src", src).i("v", e->val);
                    j.emit();
                    break;
                }
                case K_CALL: J("call").i("s", e->seq).i("th", e->th).i("src", e->src).i("v", e->val).str("kind", e->s).i("fx", e->a).emit(); break;
                case K_RET: J("ret").i("s", e->seq).i("th", e->th).i("src", e->src).i("v", e->val).i("r", e->a).i("exc", e->b).emit(); break;
                case K_DLV: J("dlv").i("s", e->seq).i("th", e->th).i("src", e->src).i("t", e->a).i("w", e->b).raw("vals", jlist(e->vals)).raw("keys", jlist(e->keys)).emit(); break;
                case K_CYCLE: J("cycle").i("s", e->seq).i("th", e->th).i("t", e->a).i("w", e->b).emit(); break;
                case K_CYCLED: J("cycled").i("s", e->seq).i("th", e->th).i("t", e->a).emit(); break;
                case K_TEV: J("tev").i("s", e->seq).i("th", e->th).i("id", e->a).i("k", e->b).i("t", e->c).i("w", e->d).emit(); break;
                case K_REQ:
                    J("req").i("s", e->seq).i("th", e->th).i("id", e->a).i("k", e->b).str("kind", e->s).i("now", e->c).i("want", e->d).i("eff", e->e)
                        .i("w0", e->f).i("w1", e->vals.at(0)).emit();
                    break;
                case K_LAG: J("lag").i("s", e->seq).i("th", e->th).i("us", e->a).emit(); break;
                case K_STOPCALL: J("stopcall").i("s", e->seq).i("th", e->th).emit(); break;
                case K_STOPRET: J("stopret").i("s", e->seq).i("th", e->th).emit(); break;
                case K_STARTED: J("started").i("s", e->seq).i("th", e->th).emit(); break;
                case K_RUNRET: J("runret").i("s", e->seq).i("th", e->th).i("ok", e->a).i("w", e->b).str("msg", e->s).emit(); break;
                default: break;
            }
        }
        if (r.replay) { J("sched").i("diverged", r.diverged ? 1 : 0).str("why", r.why).i("steps_done", static_cast<long>(r.steps_done)).i("steps", static_cast<long>(r.scn->sched.size())).emit(); }
        J(tail_event).str("msg", msg).emit();
        J("done").emit();
        trace().flush();
    }

    // ------------------------------------------------------------------ one scenario
    void run_scenario(Scenario &scn, bool silent = false)
    {
        Run r;
        r.scn    = &scn;
        r.replay = scn.replay;
        g_run    = &r;
        hv::wall_clock_offset_us.store(0);
        if (!silent) { J("scn").str("name", scn.name).str("mode", scn.replay ? "replay" : "free").i("seed", scn.seed).emit(); }

        const auto *ts_int      = ts_type<TS<Int>>();
        const auto *ts_tuple    = ts_type<TS<HomogeneousTuple<Int>>>();
        const auto *in_int      = hgraph::testing::single_input_schema(*ts_int);
        const auto *in_tuple    = hgraph::testing::single_input_schema(*ts_tuple);
        const auto *ts_dict     = ts_type<TSD<Int, TS<Int>>>();
        const auto *in_dict     = hgraph::testing::single_input_schema(*ts_dict);
        const std::size_t nsrc  = scn.srcs.size();
        r.senders.resize(nsrc);
        r.sender_ready.assign(nsrc, false);

        auto add_thread = [&](int idx) {
            auto t = std::make_unique<TCtx>();
            t->idx = idx;
            t->rng.seed(static_cast<std::uint64_t>(scn.seed) * 7919ULL + static_cast<std::uint64_t>(idx) * 104729ULL + 17ULL);
            t->buf.reserve(4096);
            r.threads.push_back(std::move(t));
            return r.threads.back().get();
        };
        TCtx *main_ctx    = add_thread(0);
        main_ctx->started = true;
        tl                = main_ctx;
        std::vector<TCtx *> prod_ctx;
        for (auto &p : scn.prods) { prod_ctx.push_back(add_thread(static_cast<int>(p.pid))); }
        TCtx *stop_ctx = scn.stopper_after_us >= 0 ? add_thread(50) : nullptr;

        GraphBuilder gb;
        for (std::size_t i = 0; i < nsrc; ++i)
        {
            const SrcSpec          &sp = scn.srcs[i];
            PushSourceNodeExtension ext;
            ext.on_start = [&r, i](PushSourceSender sender, const NodeView &, DateTime) {
                {
                    std::lock_guard lk(r.pm);
                    r.senders[i]      = std::move(sender);
                    r.sender_ready[i] = true;
                }
                r.pcv.notify_all();
            };
            if (sp.policy == "burst")
            {
                gb.add_node(make_push_source_node_with_view(*ts_tuple, make_push_source_burst_policy(*ts_tuple, static_cast<std::size_t>(sp.cap)), std::move(ext)));
            }
            else if (sp.policy == "confd")
            {
                gb.add_node(make_push_source_node_with_view(*ts_dict, make_push_source_conflating_policy(*ts_dict), std::move(ext)));
            }
            else if (sp.policy == "conf")
            {
                gb.add_node(make_push_source_node_with_view(*ts_int, make_push_source_conflating_policy(*ts_int), std::move(ext)));
            }
            else
            {
                gb.add_node(make_push_source_node_with_view(*ts_int, make_push_source_queue_policy(*ts_int, static_cast<std::size_t>(sp.cap)), std::move(ext)));
            }
        }
        for (std::size_t i = 0; i < nsrc; ++i)
        {
            const bool burst = scn.srcs[i].policy == "burst";
            const bool dict  = scn.srcs[i].policy == "confd";
            gb.add_node(make_sink(scn.srcs[i], burst ? *in_tuple : dict ? *in_dict : *in_int, burst ? *ts_tuple : dict ? *ts_dict : *ts_int));
            gb.add_edge(GraphEdge{.source_node = make_graph_edge_source(i), .source_path = {}, .target_node = nsrc + i, .target_path = {0}});
        }
        for (std::size_t j = 0; j < scn.timers.size(); ++j)
        {
            const TimerSpec &t = scn.timers[j];
            if (t.in >= 0 && static_cast<std::size_t>(t.in) < nsrc && scn.srcs[static_cast<std::size_t>(t.in)].policy != "burst" &&
                scn.srcs[static_cast<std::size_t>(t.in)].policy != "confd")
            {
                gb.add_node(make_timer(t, *ts_int, in_int));
                gb.add_edge(GraphEdge{.source_node = make_graph_edge_source(static_cast<std::size_t>(t.in)), .source_path = {},
                                      .target_node = 2 * nsrc + j, .target_path = {0}});
            }
            else { gb.add_node(make_timer(t, *ts_int)); }
        }

        Obs obs;
        r.base    = wall() + TimeDelta{scn.start_us};
        r.base_us = r.base.time_since_epoch().count();
        GraphExecutorBuilder eb;
        eb.graph_builder(std::move(gb))
            .mode(GraphExecutorMode::RealTime)
            .start_time(r.base)
            .end_time(r.base + TimeDelta{scn.end_us})
            .max_wait_slice(TimeDelta{scn.slice_us})
            .max_consecutive_immediate_cycles(static_cast<std::uint32_t>(scn.limit))
            .add_lifecycle_observer(&obs);

        std::atomic<bool>       finished{false};
        std::mutex              wm;
        std::condition_variable wcv;
        // a hang = no thread records any event for watchdog_ms (a deadlock / a lost wake-up with nothing left to wake the
        // loop), or the run exceeds four times that in total; slow progress on a loaded machine is not a hang
        std::thread             watchdog([&] {
            std::unique_lock lk(wm);
            const auto       t_start    = std::chrono::steady_clock::now();
            auto             t_progress = t_start;
            std::int64_t     last_seq   = -1;
            for (;;)
            {
                if (wcv.wait_for(lk, std::chrono::milliseconds(200), [&] { return finished.load(); })) { return; }
                const auto         now = std::chrono::steady_clock::now();
                const std::int64_t sq  = r.seq.load(std::memory_order_relaxed);
                if (sq != last_seq)
                {
                    last_seq   = sq;
                    t_progress = now;
                }
                const bool stalled = now - t_progress > std::chrono::milliseconds(scn.watchdog_ms);
                const bool too_long = now - t_start > std::chrono::milliseconds(4 * scn.watchdog_ms);
                if (stalled || too_long)
                {
                    r.frozen.store(true);
                    {
                        std::lock_guard rl(r.rm);
                        r.free_run = true;
                        r.rcv.notify_all();
                    }
                    std::this_thread::sleep_for(std::chrono::milliseconds(20));
                    dump(r, "hang", stalled ? "watchdog: no thread made progress for " + std::to_string(scn.watchdog_ms) + " ms"
                                            : "watchdog: the run did not return within " + std::to_string(4 * scn.watchdog_ms) + " ms");
                    _exit(4);
                }
            }
        });

        std::string msg;
        bool        ok = true;
        {
            GraphExecutorValue ex   = eb.make_executor();
            auto               view = ex.view();
            r.view                  = &view;
            hv::hook.store(&hook_handler, std::memory_order_release);
            std::vector<std::thread> threads;
            for (std::size_t i = 0; i < scn.prods.size(); ++i) { threads.emplace_back(producer_main, std::ref(r), std::cref(scn.prods[i]), prod_ctx[i]); }
            if (stop_ctx != nullptr) { threads.emplace_back(stopper_main, std::ref(r), stop_ctx); }
            std::thread controller;
            if (r.replay) { controller = std::thread(controller_main, std::ref(r)); }
            try
            {
                view.run();
            }
            catch (const std::exception &e)
            {
                ok  = false;
                msg = e.what();
            }
            catch (...)
            {
                ok  = false;
                msg = "unknown exception";
            }
            {
                Ev &e = record(K_RUNRET);
                e.a   = ok ? 1 : 0;
                e.b   = rel(wall());
                e.s   = msg.substr(0, 200);
            }
            {
                std::lock_guard lk(r.pm);
                r.run_over = true;
                r.over_flag.store(true);
            }
            r.pcv.notify_all();
            {
                std::lock_guard rl(r.rm);
                main_ctx->finished = true;
                r.rcv.notify_all();
            }
            for (auto &t : threads) { t.join(); }
            if (controller.joinable())
            {
                {
                    std::lock_guard rl(r.rm);
                    r.free_run = true;
                    r.rcv.notify_all();
                }
                controller.join();
            }
            hv::hook.store(nullptr, std::memory_order_release);
            r.view = nullptr;
            r.senders.clear();
        }
        finished.store(true);
        wcv.notify_all();
        watchdog.join();
        if (!silent) { dump(r, "end", ""); }
        hv::wall_clock_offset_us.store(0);
        g_run = nullptr;
        tl    = nullptr;
    }

    // The first dictionary graph of a process costs tens of milliseconds (type plans, first deltas) - more than a whole run
    // window.  One unrecorded run of a small dictionary scenario pays that before the first recorded one.
    void warm_dict_once(const Scenario &scn)
    {
        static bool warmed = false;
        bool        uses   = false;
        for (const auto &s : scn.srcs) { uses = uses || s.policy == "confd"; }
        if (warmed || !uses) { return; }
        warmed = true;
        Scenario w;
        w.name   = "warm";
        w.end_us = 60000;
        w.jitter = 0;
        SrcSpec s;
        s.policy    = "confd";
        s.stopafter = 3;
        w.srcs.push_back(s);
        ProdSpec p;
        p.n      = 6;
        p.fx     = "110";
        p.gap_us = 100;
        w.prods.push_back(p);
        run_scenario(w, /*silent=*/true);
    }

    int thread_by_name(const std::string &n)
    {
        if (n == "e") { return 0; }
        if (n == "s") { return 50; }
        if (!n.empty() && n[0] == 'p') { return std::stoi(n.substr(1)); }
        return -1;
    }
}  // namespace

int main(int, char **)
{
    stdlib::register_standard_operators();
    std::string               text;
    std::unique_ptr<Scenario> scn;
    while (std::getline(std::cin, text))
    {
        Line l = parse_line(text);
        if (l.pos.empty() || l.pos[0][0] == '#') { continue; }
        const std::string &cmd = l.pos[0];
        try
        {
            if (cmd == "scn")
            {
                scn       = std::make_unique<Scenario>();
                scn->name = l.pos.size() > 1 ? l.pos[1] : "";
            }
            else if (cmd == "opt")
            {
                scn->seed        = l.geti("seed", scn->seed);
                scn->end_us      = l.geti("end_us", scn->end_us);
                scn->slice_us    = l.geti("slice_us", scn->slice_us);
                scn->start_us    = l.geti("start_us", scn->start_us);
                scn->jitter      = l.geti("jitter", scn->jitter);
                scn->watchdog_ms = l.geti("watchdog_ms", scn->watchdog_ms);
                scn->limit       = l.geti("limit", scn->limit);
                if (l.has("mode")) { scn->replay = l.gets("mode") == "replay"; }
            }
            else if (cmd == "src")
            {
                SrcSpec s;
                s.sid       = std::stol(l.pos.at(1));
                s.policy    = l.gets("policy", "queue");
                s.cap       = l.geti("cap", 0);
                s.stopafter = l.geti("stopafter", 0);
                if (s.sid != static_cast<long>(scn->srcs.size())) { throw std::logic_error("src ids must be 0,1,.. in order"); }
                scn->srcs.push_back(s);
            }
            else if (cmd == "prod")
            {
                ProdSpec p;
                p.pid     = std::stol(l.pos.at(1));
                p.src     = l.geti("src", 0);
                p.kind    = l.gets("kind", "try");
                p.n       = l.geti("n", 1);
                p.gap_us  = l.geti("gap_us", 0);
                p.retries = l.geti("retries", 0);
                p.fx       = l.gets("fx", "1");
                p.delay_us = l.geti("delay_us", 0);
                if (p.pid < 1 || p.pid > 40 || p.src < 0 || p.src >= static_cast<long>(scn->srcs.size())) { throw std::logic_error("bad producer"); }
                scn->prods.push_back(p);
            }
            else if (cmd == "stopper") { scn->stopper_after_us = l.geti("after_us", 0); }
            else if (cmd == "timer")
            {
                TimerSpec t;
                t.tid = std::stol(l.pos.at(1));
                for (auto &a : split(l.gets("acts", "-"), '/')) { t.acts.push_back(split(a, '+')); }
                if (l.has("tail")) { t.tail = split(l.gets("tail"), '+'); }
                t.tailn = l.geti("tailn", 0);
                t.in    = l.geti("in", -1);
                scn->timers.push_back(t);
            }
            else if (cmd == "sched")
            {
                for (auto &s : split(l.pos.at(1), ','))
                {
                    auto p = split(s, ':');
                    Step st;
                    st.th = thread_by_name(p.at(0));
                    st.pt = point_by_name(p.at(1));
                    if (st.th < 0 || st.pt == 0) { throw std::logic_error("bad sched step " + s); }
                    scn->sched.push_back(st);
                }
            }
            else if (cmd == "run")
            {
                try
                {
                    warm_dict_once(*scn);
                    run_scenario(*scn);
                }
                catch (const std::exception &e)
                {
                    J("harnessfail").str("msg", e.what()).emit();
                    J("done").emit();
                    trace().flush();
                }
            }
            else
            {
                std::cerr << "hgv_rt: unknown command: " << text << "\n";
                return 2;
            }
        }
        catch (const std::exception &e)
        {
            std::cerr << "hgv_rt: bad scenario line: " << text << ": " << e.what() << "\n";
            return 2;
        }
    }
    return 0;
}
