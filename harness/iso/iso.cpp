// hgv_iso: several builders / executors in one process, on several threads (C07).
// stdin:
//   iso <name>
//   prog ... engine scenario lines (scn/opt/graph/n/bind/out/endgraph) ... endprog        (repeatable; program index = order)
//   hist <token> <token> ...
//        B<k>   wire program k into a new builder (builder index = order of B tokens)
//        X<b>   make an executor from builder b on its own thread (executor index = order of X/Y tokens) and wait until it has
//               reached its first phase gate (so nothing else overlaps with its creation)
//        Y<b>   the same without waiting: creation and run overlap with whatever the other executor threads are doing
//        S<e>   let executor e run exactly one phase (start, one evaluation cycle, or stop) and wait until it has finished it
//        F      release every executor to run freely and concurrently to the end
//        W<e>   wait until executor e has finished its run
//        H<p>   on a helper thread: open a GlobalContext, wire program p inside it, run it to the end, copy its global state back
//               into that context and KEEP the context open (on that thread) until the end of the history; returns when the
//               helper has reached that point.  What other threads build and run meanwhile must not see that context.
//        N<k>   wire program k into ONE open wiring and build it twice with Wiring::snapshot(): two builders (consecutive indexes)
//        G      open a GlobalContext on the main thread: the builders wired from here on take its state as their seed,
//               and every executor copies its graph's global state back into it when its run is over (what the library's
//               own testing harness does) - only used in histories whose runs follow one another
//   runiso
// stdout: the main thread's wiring log, then per executor {"e":"exec",...} followed by its trace, then {"e":"done"}.
// The gate is GraphExecutorBuilder::phase_runner (public API): no hook is needed.
#define HGV_NO_MAIN
#include "../engine/engine.cpp"

#include <condition_variable>
#include <mutex>
#include <thread>

namespace
{
    struct Gate
    {
        std::mutex              m;
        std::condition_variable cv;
        long                    allowed{0}, completed{0};
        bool                    free_run{false}, finished{false}, at_gate{false};
    };
    struct Exec
    {
        int         builder{0};
        Gate        gate;
        std::thread th;
        std::string out;
    };
}  // namespace

int main()
{
    stdlib::register_standard_operators();
    std::string                                  text;
    std::vector<std::unique_ptr<ScenarioParser>> progs;
    ScenarioParser                              *cur = nullptr;
    std::vector<std::string>                     hist;
    std::string                                  name;
    while (std::getline(std::cin, text))
    {
        Line l = parse_line(text);
        if (l.pos.empty() || l.pos[0][0] == '#') { continue; }
        const std::string cmd = l.pos[0];
        if (cmd == "iso")
        {
            progs.clear();
            hist.clear();
            name = l.pos.size() > 1 ? l.pos[1] : "";
        }
        else if (cmd == "prog")
        {
            progs.push_back(std::make_unique<ScenarioParser>());
            cur = progs.back().get();
        }
        else if (cmd == "endprog") { cur = nullptr; }
        else if (cmd == "hist") { hist.assign(l.pos.begin() + 1, l.pos.end()); }
        else if (cmd == "runiso")
        {
            J("iso").str("name", name).emit();
            std::vector<std::pair<int, std::optional<GraphBuilder>>> builders;   // (program index, builder)
            std::vector<std::unique_ptr<Exec>>                     execs;
            std::unique_ptr<GlobalContext>                         ctx;
            // helper threads holding an open context (token H)
            std::mutex                hm;
            std::condition_variable   hcv;
            bool                      helpers_release = false;
            int                       helpers_ready   = 0;
            std::vector<std::thread>  helpers;
            std::vector<std::string>  helper_out;
            try
            {
                for (auto &tok : hist)
                {
                    const char op  = tok[0];
                    const int  arg = tok.size() > 1 ? std::stoi(tok.substr(1)) : 0;
                    if (op == 'H')
                    {
                        Scenario *scn = progs.at(arg)->scn.get();
                        const int want = ++helpers_ready;   // only read under hm below
                        helpers_ready  = want - 1;
                        helper_out.emplace_back();
                        std::string *out = &helper_out.back();
                        helpers.emplace_back([&, scn, out] {
                            try
                            {
                                GlobalContext held;
                                auto          gb = wire_scenario(*scn);
                                if (gb)
                                {
                                    g_after_run = [&held](const GraphView &graph) { held.state().view().copy_from(graph.global_state()); };
                                    execute_builder(*scn, *gb);
                                }
                                *out = std::move(trace().buf);
                                trace().buf.clear();
                                std::unique_lock lk(hm);
                                ++helpers_ready;
                                hcv.notify_all();
                                hcv.wait(lk, [&] { return helpers_release; });
                            }
                            catch (const std::exception &ex)
                            {
                                std::unique_lock lk(hm);
                                *out += std::string{"{\"e\":\"harnessfail\",\"msg\":\"helper: "} + ex.what() + "\"}\n";
                                ++helpers_ready;
                                hcv.notify_all();
                            }
                        });
                        std::unique_lock lk(hm);
                        hcv.wait(lk, [&] { return helpers_ready >= want; });
                        J("helper").i("p", arg).emit();
                    }
                    else if (op == 'G')
                    {
                        ctx = std::make_unique<GlobalContext>();
                        J("context").emit();
                    }
                    else if (op == 'W')
                    {
                        Gate            &g = execs.at(arg)->gate;
                        std::unique_lock lk(g.m);
                        g.cv.wait(lk, [&] { return g.finished; });
                    }
                    else if (op == 'B')
                    {
                        J("build").i("b", static_cast<long>(builders.size())).i("p", arg).emit();
                        builders.emplace_back(arg, wire_scenario(*progs.at(arg)->scn));
                    }
                    else if (op == 'N')
                    {
                        // the interactive flow: ONE top-level wiring, built twice with Wiring::snapshot() - two builders from
                        // the same wiring (consecutive builder indexes); the wiring stays open in between
                        Scenario &scn = *progs.at(arg)->scn;
                        g_scn         = &scn;
                        try
                        {
                            Wiring w{WiringKind::TopLevel, WiringOptions{}};
                            RootG::compose(w);
                            for (int rep = 0; rep < 2; ++rep)
                            {
                                J("build").i("b", static_cast<long>(builders.size())).i("p", arg).i("snapshot", rep + 1).emit();
                                builders.emplace_back(arg, std::optional<GraphBuilder>{w.snapshot()});
                            }
                        }
                        catch (const std::exception &ex)
                        {
                            J("harnessfail").str("msg", std::string{"snapshot of an open wiring failed: "} + ex.what()).emit();
                        }
                    }
                    else if (op == 'X' || op == 'Y')
                    {
                        auto &b = builders.at(arg);
                        if (!b.second) { throw std::logic_error("builder failed to wire"); }
                        auto  e = std::make_unique<Exec>();
                        e->builder = arg;
                        Exec     *ep  = e.get();
                        Scenario *scn = progs.at(b.first)->scn.get();
                        const GraphBuilder *gb = &*b.second;
                        GlobalState *shared = ctx ? &ctx->state() : nullptr;
                        e->th = std::thread([ep, scn, gb, shared] {
                            if (shared != nullptr)
                            {
                                g_after_run = [shared](const GraphView &graph) { shared->view().copy_from(graph.global_state()); };
                            }
                            GraphExecutorPhaseRunner runner = [ep](GraphExecutorPhase, GraphExecutorPhaseAction action) {
                                {
                                    std::unique_lock lk(ep->gate.m);
                                    ep->gate.at_gate = true;
                                    ep->gate.cv.notify_all();
                                    ep->gate.cv.wait(lk, [&] { return ep->gate.free_run || ep->gate.allowed > ep->gate.completed; });
                                    ep->gate.at_gate = false;
                                }
                                action();
                                {
                                    std::lock_guard lk(ep->gate.m);
                                    ++ep->gate.completed;
                                }
                                ep->gate.cv.notify_all();
                            };
                            try
                            {
                                execute_builder(*scn, *gb, runner);
                            }
                            catch (const std::exception &ex)
                            {
                                J("harnessfail").str("msg", ex.what()).emit();
                            }
                            ep->out = std::move(trace().buf);
                            trace().buf.clear();
                            {
                                std::lock_guard lk(ep->gate.m);
                                ep->gate.finished = true;
                            }
                            ep->gate.cv.notify_all();
                        });
                        if (op == 'X')
                        {
                            std::unique_lock lk(ep->gate.m);
                            ep->gate.cv.wait(lk, [&] { return ep->gate.at_gate || ep->gate.finished; });
                        }
                        execs.push_back(std::move(e));
                    }
                    else if (op == 'S')
                    {
                        Gate            &g = execs.at(arg)->gate;
                        std::unique_lock lk(g.m);
                        if (g.finished) { continue; }
                        const long target = ++g.allowed;
                        g.cv.notify_all();
                        g.cv.wait(lk, [&] { return g.finished || g.completed >= target; });
                    }
                    else if (op == 'F')
                    {
                        for (auto &e : execs)
                        {
                            {
                                std::lock_guard lk(e->gate.m);
                                e->gate.free_run = true;
                            }
                            e->gate.cv.notify_all();
                        }
                    }
                }
            }
            catch (const std::exception &ex)
            {
                J("harnessfail").str("msg", ex.what()).emit();
            }
            for (auto &e : execs)
            {
                {
                    std::lock_guard lk(e->gate.m);
                    e->gate.free_run = true;
                }
                e->gate.cv.notify_all();
            }
            for (auto &e : execs) { e->th.join(); }
            {
                std::lock_guard lk(hm);
                helpers_release = true;
            }
            hcv.notify_all();
            for (auto &h : helpers) { h.join(); }
            for (auto &o : helper_out)
            {
                if (o.find("harnessfail") != std::string::npos) { J("harnessfail").str("msg", "helper thread failed").emit(); }
            }
            for (size_t i = 0; i < execs.size(); ++i)
            {
                J("exec").i("x", static_cast<long>(i)).i("b", execs[i]->builder).i("p", builders.at(execs[i]->builder).first).emit();
                trace().buf += execs[i]->out;
            }
            J("done").emit();
            trace().flush();
        }
        else if (cur != nullptr)
        {
            if (!cur->feed(text))
            {
                std::cerr << "hgv_iso: unknown scenario line: " << text << "\n";
                return 2;
            }
        }
        else
        {
            std::cerr << "hgv_iso: unknown command: " << text << "\n";
            return 2;
        }
    }
    return 0;
}
