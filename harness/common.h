// Shared pieces of the native drivers: scenario tokenizer, ndjson trace writer, time mapping,
// graph-instance registry, lifecycle observer. Header-only; every driver binary includes it.
#pragma once

#include <hgraph/lib/std/std_operators.h>
#include <hgraph/lib/std/std_nodes.h>
#include <hgraph/lib/testing/runtime_support.h>
#include <hgraph/runtime/lifecycle_observer.h>
#include <hgraph/runtime/nested_bindings.h>
#include <hgraph/runtime/node_error.h>
#include <hgraph/runtime/node_scheduler.h>
#include <hgraph/types/graph_wiring.h>
#include <hgraph/types/static_node.h>
#include <hgraph/types/subgraph_wiring.h>

#include <cstdio>
#include <cstdlib>
#include <iostream>
#include <map>
#include <sstream>
#include <string>
#include <unordered_map>
#include <vector>

namespace hgv
{
    using namespace hgraph;

    // ---- time: spec time k (1..H) <-> engine DateTime MIN_ST + (k-1)*MIN_TD; 0 = never (MIN_DT) ----
    inline DateTime to_dt(long k) { return MIN_ST + MIN_TD * (k - 1); }
    inline long     to_k(DateTime t)
    {
        if (t == MIN_DT) { return 0; }
        if (t == MAX_DT) { return 1000000; }
        if (t < MIN_ST) { return -1; }
        auto d = (t - MIN_ST) / MIN_TD;
        if (d > 999998) { return 999999; }
        return static_cast<long>(d) + 1;
    }

    // ---- trace output ----
    struct Trace
    {
        std::string buf;
        void        line(const std::string &s)
        {
            buf += s;
            buf += '\n';
        }
        void flush()
        {
            fwrite(buf.data(), 1, buf.size(), stdout);
            fflush(stdout);
            buf.clear();
        }
    };
    // one trace buffer per thread: executors running on several threads (C07) keep separate traces
    inline Trace &trace()
    {
        static thread_local Trace t;
        return t;
    }

    inline std::string jstr(std::string_view s)
    {
        std::string o = "\"";
        for (char c : s)
        {
            if (c == '"' || c == '\\')
            {
                o += '\\';
                o += c;
            }
            else if (c == '\n') { o += "\\n"; }
            else if (static_cast<unsigned char>(c) < 0x20) { o += ' '; }
            else { o += c; }
        }
        o += '"';
        return o;
    }

    // tiny JSON object builder: J("e","fn").i("t",3).s("x","y").raw("in","[1,2]").emit();
    struct J
    {
        std::string s;
        J(const char *ev)
        {
            s = "{\"e\":";
            s += jstr(ev);
        }
        J &i(const char *k, long v)
        {
            s += ",\"";
            s += k;
            s += "\":";
            s += std::to_string(v);
            return *this;
        }
        J &b(const char *k, bool v) { return i(k, v ? 1 : 0); }
        J &str(const char *k, std::string_view v)
        {
            s += ",\"";
            s += k;
            s += "\":";
            s += jstr(v);
            return *this;
        }
        J &raw(const char *k, const std::string &v)
        {
            s += ",\"";
            s += k;
            s += "\":";
            s += v;
            return *this;
        }
        void emit()
        {
            s += "}";
            trace().line(s);
        }
    };

    inline std::string jlist(const std::vector<long> &v)
    {
        std::string o = "[";
        for (size_t i = 0; i < v.size(); ++i)
        {
            if (i) { o += ","; }
            o += std::to_string(v[i]);
        }
        o += "]";
        return o;
    }

    // ---- scenario tokenizer ----
    struct Line
    {
        std::vector<std::string>           pos;  // positional tokens
        std::map<std::string, std::string> kv;   // key=value tokens
        [[nodiscard]] bool has(const std::string &k) const { return kv.count(k) != 0; }
        [[nodiscard]] long geti(const std::string &k, long dflt = 0) const
        {
            auto it = kv.find(k);
            return it == kv.end() ? dflt : std::stol(it->second);
        }
        [[nodiscard]] std::string gets(const std::string &k, const std::string &dflt = "") const
        {
            auto it = kv.find(k);
            return it == kv.end() ? dflt : it->second;
        }
    };
    inline Line parse_line(const std::string &text)
    {
        Line               l;
        std::istringstream is(text);
        std::string        tok;
        while (is >> tok)
        {
            auto eq = tok.find('=');
            if (eq != std::string::npos && eq > 0) { l.kv[tok.substr(0, eq)] = tok.substr(eq + 1); }
            else { l.pos.push_back(tok); }
        }
        return l;
    }
    inline std::vector<std::string> split(const std::string &s, char sep)
    {
        std::vector<std::string> out;
        std::string              cur;
        for (char c : s)
        {
            if (c == sep)
            {
                out.push_back(cur);
                cur.clear();
            }
            else { cur += c; }
        }
        if (!cur.empty() || !s.empty()) { out.push_back(cur); }
        return out;
    }
    inline std::vector<long> split_longs(const std::string &s, char sep)
    {
        std::vector<long> out;
        if (s.empty()) { return out; }
        for (auto &p : split(s, sep)) { out.push_back(std::stol(p)); }
        return out;
    }

    // ---- graph instance registry: GraphValue* -> small stable id, assigned at graph start ----
    struct Instances
    {
        std::unordered_map<const void *, long> live;
        long                                   next{0};
        void                                   reset()
        {
            live.clear();
            next = 0;
        }
        long lookup(const void *g) const
        {
            auto it = live.find(g);
            return it == live.end() ? -1 : it->second;
        }
        long ensure(const void *g)
        {
            auto it = live.find(g);
            if (it != live.end()) { return it->second; }
            long id = next++;
            live[g] = id;
            return id;
        }
        void retire(const void *g) { live.erase(g); }
    };
    inline Instances &instances()
    {
        static thread_local Instances i;
        return i;
    }

    inline long inst_of(const NodeView &n) { return instances().ensure(n.graph().data()); }
    inline long inst_of(const GraphView &g) { return instances().ensure(g.data()); }

}  // namespace hgv
