#include "shapes.h"

namespace hgvc
{
    using Tsb2   = TSB<"VPair", Field<"a", TS<Int>>, Field<"b", TS<Int>>>;
    using TsdTsb = TSD<Int, Tsb2>;
    static RegisterShape r_tsd_tsb("TSD_TSB", [](Scenario &s) { run_shape<TsdTsb>(s); });
}  // namespace hgvc
