// hgv_coll: native driver for the time-series data layer (C04 flags, C05 collection deltas, C20 record/replay).
//
// stdin (one scenario after the other):
//   scn <name>
//   shape <TS|TSS|TSD|TSL|TSB|TSW|TSD_TSS|TSB_TSL|TSD_TSB|DTSL (dynamic TSL<TS<Int>>)|TSD_TSD>
//   opt end=<H> late=<k> rr=<0|1>
//   c <t> <verb>:<path>:<args> ...        one line per scripted cycle; path / args are comma separated integers
//        verbs: set v | inv | add e | rem e | clr | del k | new k | touch | push v
//        path : child selectors from the root (index for TSL/TSB, key for TSD - the key is created on the way)
//   run
// stdout: ndjson; every scenario ends with {"e":"done"}.
//
// Graph 1: writer (self-scheduled at the scripted cycles) -> probe 1 (every cycle), probe 2 (every cycle from `late`),
//          dense_record("r1"), shadow (capture_delta -> apply_delta into a scratch output -> re-capture).
// Graph 2: replay("r1", seeded with graph 1's buffer) -> probe 3 (every cycle), dense_record("r2").
#include "coll.h"

#include <algorithm>

namespace hgvc
{
    Scenario *g_scn = nullptr;
    Scratch   g_scratch;

    std::map<std::string, ShapeRunner> &shape_registry()
    {
        static std::map<std::string, ShapeRunner> r;
        return r;
    }

    void make_scratch(const TSValueTypeMetaData *schema)
    {
        g_scratch.in.reset();
        g_scratch.out.reset();
        g_scratch.out = std::make_unique<TSOutput>(schema);
        g_scratch.in  = std::make_unique<TSInput>(TSInputBuilderFactory::checked_builder_for(*schema, TSEndpointSchema::peered(schema)));
        g_scratch.in->view(nullptr, MIN_ST).bind_output(g_scratch.out->view(MIN_ST));
    }

    // ------------------------------------------------------------------------------------------ rendering
    namespace
    {
        long as_long(const ValueView &v)
        {
            if (const auto *p = v.try_as<Int>()) { return static_cast<long>(*p); }
            if (const auto *q = v.try_as<bool>()) { return *q ? 1 : 0; }
            return v.checked_as<Int>();
        }

        template <typename R>
        std::vector<long> sorted_longs(R &&range)
        {
            std::vector<long> out;
            for (const auto &e : range) { out.push_back(as_long(e)); }
            std::sort(out.begin(), out.end());
            return out;
        }

        std::string jpairs(std::vector<std::pair<long, std::string>> &items)
        {
            std::sort(items.begin(), items.end(), [](const auto &a, const auto &b) { return a.first < b.first; });
            std::string s = "[";
            for (size_t i = 0; i < items.size(); ++i)
            {
                if (i) { s += ","; }
                s += "[" + std::to_string(items[i].first) + "," + items[i].second + "]";
            }
            return s + "]";
        }

        std::size_t child_count(const TSValueTypeMetaData *s)
        {
            return s->kind == TSTypeKind::TSB ? s->field_count() : s->fixed_size();
        }
        const TSValueTypeMetaData *child_schema(const TSValueTypeMetaData *s, std::size_t i)
        {
            return s->kind == TSTypeKind::TSB ? s->fields()[i].type : s->element_ts();
        }
        const char *kind_name(TSTypeKind k)
        {
            switch (k)
            {
                case TSTypeKind::TS: return "TS";
                case TSTypeKind::TSS: return "TSS";
                case TSTypeKind::TSD: return "TSD";
                case TSTypeKind::TSL: return "TSL";
                case TSTypeKind::TSW: return "TSW";
                case TSTypeKind::TSB: return "TSB";
                case TSTypeKind::REF: return "REF";
                default: return "SIGNAL";
            }
        }
    }  // namespace

    std::string jdelta(const TSValueTypeMetaData *s, const ValueView &d)
    {
        switch (s->kind)
        {
            case TSTypeKind::TS:
            case TSTypeKind::TSW:
            case TSTypeKind::SIGNAL: return std::to_string(as_long(d));
            case TSTypeKind::TSS:
            {
                auto b = d.as_bundle();
                return "{\"a\":" + jlist(sorted_longs(b.at(0).as_set().elements())) + ",\"r\":" + jlist(sorted_longs(b.at(1).as_set().elements())) + "}";
            }
            case TSTypeKind::TSD:
            {
                auto                                       b = d.as_bundle();
                std::vector<std::pair<long, std::string>> items;
                auto                                       m = b.at(1).as_map();
                for (auto &&[k, v] : m.entries()) { items.emplace_back(as_long(k), jdelta(s->element_ts(), v)); }
                return "{\"r\":" + jlist(sorted_longs(b.at(0).as_set().elements())) + ",\"m\":" + jpairs(items) + "}";
            }
            case TSTypeKind::TSL:
            {
                std::vector<std::pair<long, std::string>> items;
                auto                                       m = d.as_map();
                for (auto &&[k, v] : m.entries()) { items.emplace_back(as_long(k), jdelta(s->element_ts(), v)); }
                return "{\"m\":" + jpairs(items) + "}";
            }
            case TSTypeKind::TSB:
            {
                auto        b = d.as_bundle();
                std::string o = "{\"f\":[";
                for (std::size_t i = 0; i < s->field_count(); ++i)
                {
                    if (i) { o += ","; }
                    auto f = b.at(i);
                    o += f.has_value() ? "[" + jdelta(s->fields()[i].type, f) + "]" : "[]";
                }
                return o + "]}";
            }
            default: return "\"?\"";
        }
    }

    std::string jopt_delta(const TSValueTypeMetaData *s, const ValueView &d)
    {
        if (!d.has_value()) { return "[]"; }
        try
        {
            return "[" + jdelta(s, d) + "]";
        }
        catch (const std::exception &e)
        {
            return "[" + jstr(std::string("!") + e.what()) + "]";
        }
    }

    namespace
    {
        template <typename View>
        std::string render_t(const View &v)
        {
            const auto *s = v.schema();
            if (s == nullptr) { return "{\"k\":\"none\"}"; }
            const bool  m  = v.modified();
            const bool  ok = v.valid();
            std::string o  = std::string("{\"k\":\"") + kind_name(s->kind) + "\",\"m\":" + (m ? "1" : "0") + ",\"ok\":" + (ok ? "1" : "0") +
                            ",\"lmt\":" + std::to_string(to_k(v.last_modified_time())) + ",\"av\":" + (v.all_valid() ? "1" : "0");
            switch (s->kind)
            {
                case TSTypeKind::TS:
                {
                    long val = 0;
                    if (ok)
                    {
                        auto x = v.value();
                        if (x.has_value()) { val = as_long(x); }
                    }
                    o += ",\"v\":" + std::to_string(val);
                    o += ",\"dv\":" + jopt_delta(s, v.delta_value());
                    break;
                }
                case TSTypeKind::TSS:
                {
                    auto set = v.as_set();
                    o += ",\"v\":" + jlist(sorted_longs(set.values()));
                    o += ",\"a\":" + jlist(sorted_longs(set.added()));
                    o += ",\"r\":" + jlist(sorted_longs(set.removed()));
                    o += ",\"n\":" + std::to_string(set.size());
                    o += ",\"dv\":" + jopt_delta(s, v.delta_value());
                    break;
                }
                case TSTypeKind::TSW:
                {
                    auto              w = v.as_window();
                    std::vector<long> vals;
                    for (std::size_t i = 0; i < w.size(); ++i) { vals.push_back(as_long(w.at(i))); }
                    o += ",\"v\":" + jlist(vals);
                    o += ",\"n\":" + std::to_string(w.size());
                    o += ",\"dv\":" + jopt_delta(s, v.delta_value());
                    break;
                }
                case TSTypeKind::TSL:
                case TSTypeKind::TSB:
                {
                    // a dynamic (unsized) list has as many children as were created so far
                    const bool        dynamic = s->kind == TSTypeKind::TSL && s->fixed_size() == 0;
                    std::size_t       n       = child_count(s);
                    if (dynamic)
                    {
                        auto l = v.as_list();
                        n      = l.size();
                    }
                    std::vector<long> mi;
                    std::string       ch = "[";
                    for (std::size_t i = 0; i < n; ++i)
                    {
                        auto c = v.indexed_child_at(i);
                        if (i) { ch += ","; }
                        ch += render_t(c);
                    }
                    ch += "]";
                    if (s->kind == TSTypeKind::TSL)
                    {
                        auto l = v.as_list();
                        for (auto &&[i, c] : l.modified_items()) { mi.push_back(static_cast<long>(i)); }
                    }
                    else
                    {
                        auto        b = v.as_bundle();
                        std::size_t i = 0;
                        // modified_items of a bundle is keyed by field name: map names back to indices
                        for (auto &&[name, c] : b.modified_items())
                        {
                            for (std::size_t f = 0; f < n; ++f)
                            {
                                if (name == s->fields()[f].name) { mi.push_back(static_cast<long>(f)); }
                            }
                            ++i;
                        }
                    }
                    std::sort(mi.begin(), mi.end());
                    o += ",\"mi\":" + jlist(mi) + ",\"sz\":" + std::to_string(n) + ",\"ch\":" + ch;
                    o += ",\"dv\":" + jopt_delta(s, v.delta_value());
                    break;
                }
                case TSTypeKind::TSD:
                {
                    auto d = v.as_dict();
                    o += ",\"ks\":" + jlist(sorted_longs(d.keys()));
                    o += ",\"a\":" + jlist(sorted_longs(d.added_keys()));
                    o += ",\"r\":" + jlist(sorted_longs(d.removed_keys()));
                    o += ",\"mk\":" + jlist(sorted_longs(d.modified_keys()));
                    o += ",\"vk\":" + jlist(sorted_longs(d.valid_keys()));
                    o += ",\"n\":" + std::to_string(d.size());
                    std::vector<std::pair<long, std::string>> items;
                    for (auto &&[k, c] : d.items()) { items.emplace_back(as_long(k), render_t(c)); }
                    o += ",\"ch\":" + jpairs(items);
                    o += ",\"dv\":" + jopt_delta(s, v.delta_value());
                    break;
                }
                default: break;
            }
            return o + "}";
        }
    }  // namespace

    std::string render(const TSOutputView &v) { return render_t(v); }
    std::string render(const TSInputView &v) { return render_t(v); }

    // ------------------------------------------------------------------------------------------ scripted mutations
    namespace
    {
        std::string op_json(const Op &op, long ret)
        {
            return "{\"op\":" + jstr(op.verb) + ",\"p\":" + jlist(op.path) + ",\"a\":" + jlist(op.args) + ",\"ret\":" + std::to_string(ret) + "}";
        }

        long do_op(const TSOutputView &root, const Op &op, DateTime now)
        {
            TSOutputView cur = root.borrowed_ref();
            for (long p : op.path)
            {
                const auto *s = cur.schema();
                if (s->kind == TSTypeKind::TSD)
                {
                    auto  d   = cur.as_dict();
                    auto  mut = d.begin_mutation(now);
                    Value key{Int{p}};
                    auto  child = mut.at(key.view());
                    cur         = TSOutputView{root.output(), child, now};
                }
                else if (s->kind == TSTypeKind::TSL)
                {
                    auto l = cur.as_list();      // at() grows a dynamic list up to the index
                    cur    = l.at(static_cast<std::size_t>(p));
                }
                else if (s->kind == TSTypeKind::TSB) { cur = cur.indexed_child_at(static_cast<std::size_t>(p)); }
                else { throw std::logic_error("hgv_coll: path descends into a leaf"); }
            }
            const auto        *s = cur.schema();
            const std::string &v = op.verb;
            const long         a0 = op.args.empty() ? 0 : op.args[0];
            if (v == "set")
            {
                if (s->kind != TSTypeKind::TS) { throw std::logic_error("hgv_coll: set on non-TS"); }
                Out<TS<Int>> o{cur.borrowed_ref(), now};
                o.set(Int{a0});
                return 1;
            }
            if (v == "inv") { return cur.begin_mutation(now).invalidate() ? 1 : 0; }
            if (s->kind == TSTypeKind::TSS)
            {
                Out<TSS<Int>> o{cur.borrowed_ref(), now};
                if (v == "add") { return o.add(Int{a0}) ? 1 : 0; }
                if (v == "rem") { return o.remove(Int{a0}) ? 1 : 0; }
                if (v == "clr")
                {
                    o.clear();
                    return 1;
                }
                if (v == "touch")
                {
                    auto set = cur.as_set();
                    set.begin_mutation(now).touch();
                    return 1;
                }
            }
            if (s->kind == TSTypeKind::TSD)
            {
                auto  d   = cur.as_dict();
                auto  mut = d.begin_mutation(now);
                Value key{Int{a0}};
                if (v == "del") { return mut.erase(key.view()) ? 1 : 0; }
                if (v == "new")
                {
                    (void)mut.at(key.view());
                    return 1;
                }
                if (v == "clr")
                {
                    mut.clear();
                    return 1;
                }
                if (v == "touch")
                {
                    mut.touch();
                    return 1;
                }
            }
            if (s->kind == TSTypeKind::TSW && v == "push")
            {
                auto  w = cur.as_window();
                Value x{Int{a0}};
                w.begin_mutation(now).push(x.view());
                return 1;
            }
            throw std::logic_error("hgv_coll: verb " + v + " not applicable to " + kind_name(s->kind));
        }
    }  // namespace

    long next_script_time(long after_k)
    {
        for (auto &[t, ops] : g_scn->script)
        {
            if (t > after_k) { return t; }
        }
        return 0;
    }

    void run_ops(const TSOutputView &root, DateTime now)
    {
        const long  k   = to_k(now);
        auto        it  = g_scn->script.find(k);
        std::string ops = "[";
        if (it != g_scn->script.end())
        {
            bool first = true;
            for (const auto &op : it->second)
            {
                long        ret = 0;
                std::string err;
                try
                {
                    ret = do_op(root, op, now);
                }
                catch (const std::exception &e)
                {
                    ret = -1;
                    err = e.what();
                }
                if (!first) { ops += ","; }
                first = false;
                ops += op_json(op, ret);
                if (!err.empty()) { J("operr").i("t", k).str("op", op.verb).str("msg", err).emit(); }
            }
        }
        ops += "]";
        J("ops").i("t", k).raw("ops", ops).emit();
        J("w").i("t", k).raw("o", render(root)).emit();
    }

    long next_part_time(long part, long after_k)
    {
        for (auto &[t, ops] : g_scn->script)
        {
            if (t <= after_k) { continue; }
            for (auto &op : ops)
            {
                if (!op.path.empty() && op.path[0] == part) { return t; }
            }
        }
        return 0;
    }

    void run_part_ops(long part, const TSOutputView &out, DateTime now)
    {
        auto it = g_scn->script.find(to_k(now));
        if (it == g_scn->script.end()) { return; }
        for (const auto &op : it->second)
        {
            if (op.path.empty() || op.path[0] != part) { continue; }
            Op sub = op;
            sub.path.erase(sub.path.begin());
            try
            {
                (void)do_op(out, sub, now);
            }
            catch (const std::exception &e)
            {
                J("operr").i("t", to_k(now)).str("op", op.verb).str("msg", e.what()).emit();
            }
        }
    }

    void log_script(DateTime now)
    {
        auto it = g_scn->script.find(to_k(now));
        if (it == g_scn->script.end()) { return; }
        std::string ops = "[";
        for (size_t i = 0; i < it->second.size(); ++i)
        {
            if (i) { ops += ","; }
            ops += op_json(it->second[i], 1);
        }
        J("ops").i("t", to_k(now)).raw("ops", ops + "]").emit();
    }

    void run_activity(long id, const TSInputView &x, DateTime now)
    {
        auto it = g_scn->activity.find(to_k(now));
        if (it == g_scn->activity.end()) { return; }
        for (const auto &op : it->second)
        {
            if (op.args.size() > 1 && op.args[1] != id) { continue; }      // optional second argument: only this probe
            auto child = x.indexed_child_at(static_cast<std::size_t>(op.args.at(0)));
            if (op.verb == "act") { child.make_active(); }
            else if (op.verb == "pas") { child.make_passive(); }
            J("act").i("id", id).i("t", to_k(now)).str("op", op.verb).i("i", op.args.at(0)).i("now", child.active() ? 1 : 0).emit();
        }
    }

    void log_probe(long id, long graph, const TSInputView &x, DateTime now)
    {
        J j("p");
        j.i("id", id).i("g", graph).i("t", to_k(now)).raw("o", render(x));
        if (x.modified())
        {
            std::string cap;
            try
            {
                Value d = capture_delta(x);
                cap     = jopt_delta(x.schema(), d.view());
                j.i("obs", delta_is_observable(x, d.view()) ? 1 : 0);
            }
            catch (const std::exception &e)
            {
                cap = "[" + jstr(std::string("!") + e.what()) + "]";
                j.i("obs", 0);
            }
            j.raw("cap", cap);
        }
        else { j.raw("cap", "[]").i("obs", 0); }
        j.emit();
    }

    void log_shadow(const TSInputView &x, DateTime now)
    {
        if (!x.modified()) { return; }
        J j("ap");
        j.i("t", to_k(now));
        try
        {
            Value d = capture_delta(x);
            j.raw("d", jopt_delta(x.schema(), d.view()));
            j.i("obs", delta_is_observable(x, d.view()) ? 1 : 0);
            j.raw("src", render(x));
            auto sv = g_scratch.out->view(now);
            apply_delta(sv, d.view());
            auto sin = g_scratch.in->view(nullptr, now);
            j.raw("post", render(sin));
            if (sin.modified())
            {
                Value again = capture_delta(sin);
                j.raw("re", jopt_delta(x.schema(), again.view()));
            }
            else { j.raw("re", "[]"); }
            j.i("err", 0);
        }
        catch (const std::exception &e)
        {
            j.i("err", 1).str("msg", e.what());
        }
        j.emit();
    }

    void dump_recording(const GlobalStateView &gs, const std::string &key, const TSValueTypeMetaData *schema, long graph)
    {
        std::string     ent = "[";
        const ValueView buf = gs.get(key);
        long            n   = 0;
        if (buf.valid())
        {
            const auto list = buf.as_list();
            n               = static_cast<long>(list.size());
            for (std::size_t i = 0; i < list.size(); ++i)
            {
                if (i) { ent += ","; }
                auto d = testing::dense_entry_delta(list, i);
                ent += d.has_value() ? jopt_delta(schema, d->view()) : std::string("[]");
            }
        }
        ent += "]";
        J("rec").str("key", key).i("g", graph).i("n", n).raw("ent", ent).emit();
    }
}  // namespace hgvc

using namespace hgvc;

static Op parse_op(const std::string &tok)
{
    // verb:path:args  (path / args comma separated, either may be empty)
    Op          op;
    std::string parts[3];
    int         k = 0;
    for (char c : tok)
    {
        if (c == ':' && k < 2) { ++k; }
        else { parts[k] += c; }
    }
    op.verb = parts[0];
    op.path = split_longs(parts[1], ',');
    op.args = split_longs(parts[2], ',');
    return op;
}

int main(int, char **)
{
    stdlib::register_standard_operators();
    (void)TypeRegistry::instance().register_scalar<Int>("int");
    std::string               text;
    std::unique_ptr<Scenario> scn;
    while (std::getline(std::cin, text))
    {
        Line l = parse_line(text);
        if (l.pos.empty() || l.pos[0][0] == '#') { continue; }
        const std::string &cmd = l.pos[0];
        if (cmd == "scn")
        {
            scn       = std::make_unique<Scenario>();
            scn->name = l.pos.size() > 1 ? l.pos[1] : "";
        }
        else if (cmd == "shape") { scn->shape = l.pos.at(1); }
        else if (cmd == "opt")
        {
            scn->end  = l.geti("end", 4);
            scn->late = l.geti("late", 2);
            scn->rr   = l.geti("rr", 1) != 0;
        }
        else if (cmd == "c")
        {
            // the tokenizer treats a=b as key/value; op tokens never contain '='
            const long      t = std::stol(l.pos.at(1));
            std::vector<Op> ops;
            for (size_t i = 2; i < l.pos.size(); ++i) { ops.push_back(parse_op(l.pos[i])); }
            scn->script[t] = ops;
        }
        else if (cmd == "a")
        {
            // a <t> act::<i> pas::<i> ...   activity changes of child links of the un-peered probe inputs
            const long      t = std::stol(l.pos.at(1));
            std::vector<Op> ops;
            for (size_t i = 2; i < l.pos.size(); ++i) { ops.push_back(parse_op(l.pos[i])); }
            scn->activity[t] = ops;
        }
        else if (cmd == "run")
        {
            g_scn = scn.get();
            instances().reset();
            J("scn").str("name", scn->name).str("shape", scn->shape).i("end", scn->end).i("late", scn->late).emit();
            try
            {
                auto it = shape_registry().find(scn->shape);
                if (it == shape_registry().end()) { throw std::logic_error("unknown shape " + scn->shape); }
                it->second(*scn);
            }
            catch (const std::exception &e)
            {
                J("harnessfail").str("msg", e.what()).emit();
            }
            g_scratch.in.reset();
            g_scratch.out.reset();
            J("done").emit();
            trace().flush();
            g_scn = nullptr;
        }
        else
        {
            std::cerr << "hgv_coll: unknown command: " << text << "\n";
            return 2;
        }
    }
    return 0;
}
