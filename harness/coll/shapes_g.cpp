// Un-peered consumers (C04): a bundle INPUT assembled field by field from separate scalar outputs ({{"a", a}, {"b", b}}), read by
// probes that change the activity of the individual child links at run time (make_active / make_passive) while they keep being
// evaluated through their own scheduler.  The parent position exists only on the input side: its flags are derived from the links.
#include "shapes.h"

namespace hgvc
{
    using UPair = TSB<"VUPair", Field<"a", TS<Int>>, Field<"b", TS<Int>>>;

    template <int Part>
    struct CPartWriter
    {
        static constexpr auto name = "c_part_writer";
        static void           start(Scalar<"id", Int>, NodeScheduler sched, DateTime now)
        {
            const long t = next_part_time(Part, to_k(now) - 1);
            if (t != 0) { sched.schedule(to_dt(t)); }
        }
        static void eval(Scalar<"id", Int>, NodeScheduler sched, DateTime now, Out<TS<Int>> out)
        {
            run_part_ops(Part, out, now);
            const long t = next_part_time(Part, to_k(now));
            if (t != 0) { sched.schedule(to_dt(t)); }
        }
    };

    struct CUProbe
    {
        static constexpr auto name = "c_uprobe";
        static void           start(Scalar<"id", Int>, Scalar<"from", Int> from, NodeScheduler sched, DateTime) { sched.schedule(to_dt(from.value())); }
        static void           eval(Scalar<"id", Int> id, Scalar<"from", Int>, In<"x", UPair, InputActivity::Passive, InputValidity::Unchecked> x,
                                    NodeScheduler sched, DateTime now)
        {
            if (id.value() == 1) { log_script(now); }
            log_probe(id.value(), 1, x.base(), now);
            run_activity(id.value(), x.base(), now);
            if (to_k(now) < g_scn->end) { sched.schedule(now + MIN_TD); }
        }
    };

    struct CUGraph
    {
        static constexpr auto name = "c_ugraph";
        static void           compose(Wiring &w)
        {
            auto a = wire<CPartWriter<0>>(w, Int{10});
            auto b = wire<CPartWriter<1>>(w, Int{11});
            wire<CUProbe>(w, Int{1}, Int{1}, {{"a", a}, {"b", b}});
            wire<CUProbe>(w, Int{2}, Int{g_scn->late}, {{"a", a}, {"b", b}});
        }
    };

    static RegisterShape r_utsb("UTSB", [](Scenario &s) {
        run_graph<CUGraph>(1, s.end, [](const GlobalStateView &) {}, {});
    });
}  // namespace hgvc
