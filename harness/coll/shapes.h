// Static node templates of the data-layer driver, instantiated once per shape of the menu (shapes_*.cpp).
#pragma once
#include "coll.h"

namespace hgvc
{
    template <typename S>
    const TSOutputView &out_view(const Out<S> &out)
    {
        if constexpr (std::is_base_of_v<TSOutputView, Out<S>>) { return out; }
        else { return out.base(); }
    }

    // producer: wakes at the scripted cycles through its NodeScheduler and performs the cycle's ops on its output
    template <typename S>
    struct CWriter
    {
        static constexpr auto name = "c_writer";
        static void           start(Scalar<"id", Int>, NodeScheduler sched, DateTime now)
        {
            const long t = next_script_time(to_k(now) - 1);
            if (t != 0) { sched.schedule(to_dt(t)); }
        }
        static void eval(Scalar<"id", Int>, NodeScheduler sched, DateTime now, Out<S> out)
        {
            run_ops(out_view(out), now);
            const long t = next_script_time(to_k(now));
            if (t != 0) { sched.schedule(to_dt(t)); }
        }
    };

    // consumer: passive, unchecked input; woken by its own scheduler every cycle from `from` to the horizon
    template <typename S>
    struct CProbe
    {
        static constexpr auto name = "c_probe";
        static void           start(Scalar<"id", Int>, Scalar<"from", Int> from, Scalar<"g", Int>, NodeScheduler sched, DateTime)
        {
            sched.schedule(to_dt(from.value()));
        }
        static void eval(Scalar<"id", Int> id, Scalar<"from", Int>, Scalar<"g", Int> g, In<"x", S, InputActivity::Passive, InputValidity::Unchecked> x,
                         NodeScheduler sched, DateTime now)
        {
            log_probe(id.value(), g.value(), x.base(), now);
            if (to_k(now) < g_scn->end) { sched.schedule(now + MIN_TD); }
        }
    };

    // active consumer applying every captured delta to the scratch output (C20 algebraic round trip)
    template <typename S>
    struct CShadow
    {
        static constexpr auto name = "c_shadow";
        static void           eval(Scalar<"id", Int>, In<"x", S, InputValidity::Unchecked> x, DateTime now) { log_shadow(x.base(), now); }
    };

    template <typename S>
    struct is_dict_shape : std::false_type {};
    template <typename K, typename V>
    struct is_dict_shape<TSD<K, V>> : std::true_type {};

    template <typename S>
    struct CGraph1
    {
        static constexpr auto name = "c_graph1";
        static void           compose(Wiring &w)
        {
            auto src = wire<CWriter<S>>(w, Int{1});
            wire<CProbe<S>>(w, Int{1}, Int{1}, Int{1}, src);
            wire<CProbe<S>>(w, Int{2}, Int{g_scn->late}, Int{1}, src);
            wire<CShadow<S>>(w, Int{4}, src);
            wire<stdlib::dense_record_impl>(w, src, Str{"r1"});
            if constexpr (is_dict_shape<S>::value)
            {
                // the dictionary's key set (keys_ : a zero-copy TSS projection with its own modified / last-modified-time),
                // read by a probe of its own (id 5) in every cycle
                auto keys = wire<stdlib::keys_>(w, src).template as<TSS<Int>>();
                wire<CProbe<TSS<Int>>>(w, Int{5}, Int{1}, Int{1}, keys);
            }
        }
    };

    template <typename S>
    struct CGraph2
    {
        static constexpr auto name = "c_graph2";
        static void           compose(Wiring &w)
        {
            auto src = wire<stdlib::replay_impl, S>(w, Str{"r1"});
            wire<CProbe<S>>(w, Int{3}, Int{1}, Int{2}, src);
            wire<stdlib::dense_record_impl>(w, src, Str{"r2"});
        }
    };

    template <typename G>
    std::optional<Value> run_graph(long graph, long end, const std::function<void(const GlobalStateView &)> &seed,
                                   const std::vector<std::pair<std::string, const TSValueTypeMetaData *>> &dump)
    {
        std::optional<Value> r1;
        GraphBuilder         gb = build_graph<G>();
        seed(gb.global_state());
        GraphExecutorBuilder eb;
        eb.graph_builder(std::move(gb)).start_time(to_dt(1)).end_time(to_dt(end + 1));
        GraphExecutorValue ex = eb.make_executor();
        try
        {
            ex.view().run();
            J("ret").i("g", graph).i("ok", 1).str("msg", "").emit();
        }
        catch (const std::exception &e)
        {
            J("ret").i("g", graph).i("ok", 0).str("msg", std::string(e.what()).substr(0, 300)).emit();
        }
        auto gs = ex.view().graph().global_state();
        for (auto &[key, schema] : dump)
        {
            dump_recording(gs, key, schema, graph);
            const ValueView buf = gs.get(key);
            if (key == "r1" && buf.valid()) { r1.emplace(buf); }
        }
        return r1;
    }

    template <typename S>
    void run_shape(Scenario &scn)
    {
        const auto *schema = ts_type<S>();
        make_scratch(schema);
        auto r1 = run_graph<CGraph1<S>>(1, scn.end, [](const GlobalStateView &) {}, {{"r1", schema}});
        if (!scn.rr) { return; }
        if (!r1.has_value())
        {
            J("norec").emit();   // nothing was recorded: graph 2 would replay nothing
            return;
        }
        run_graph<CGraph2<S>>(2, scn.end, [&](const GlobalStateView &gs) { gs.set("r1", *r1); }, {{"r2", schema}});
    }
}  // namespace hgvc
