// hgv_coll: driver for the time-series data layer checks (C04 flags, C05 collection deltas, C20 record/replay).
// Shared declarations: scenario, scripted ops, generic (shape-erased) mutation interpreter and observation renderer.
// The shape menu itself (static node templates instantiated per shape) lives in shapes_*.cpp.
#pragma once
#include "../common.h"

#include <hgraph/lib/std/operators/impl/record_replay_memory_impl.h>
#include <hgraph/lib/testing/record_replay.h>
#include <hgraph/types/time_series/ts_delta.h>

#include <functional>
#include <memory>
#include <optional>

namespace hgvc
{
    using namespace hgraph;
    using namespace hgv;

    struct Op
    {
        std::string       verb;   // set inv add rem clr del new touch push
        std::vector<long> path;   // child selectors from the root: index (TSL/TSB) or key (TSD, created on the way)
        std::vector<long> args;
    };
    struct Scenario
    {
        std::string                      name;
        std::string                      shape;
        long                             end{4};     // cycles 1..end
        long                             late{2};    // first cycle of the late probe
        bool                             rr{true};   // run the record/replay round trip (graph 2)
        std::map<long, std::vector<Op>>  script;     // cycle -> ops
        std::map<long, std::vector<Op>>  activity;   // cycle -> act / pas of a child link of an un-peered probe input (after the observation)
    };
    extern Scenario *g_scn;

    // scratch endpoint for the apply/recapture check (C20): an output of the same shape plus a peered input on it
    struct Scratch
    {
        std::unique_ptr<TSOutput> out;
        std::unique_ptr<TSInput>  in;
    };
    extern Scratch g_scratch;
    void make_scratch(const TSValueTypeMetaData *schema);

    // ---- rendering (canonical: sets / dict keys sorted) ----
    std::string jdelta(const TSValueTypeMetaData *schema, const ValueView &d);   // canonical delta of a shape
    std::string jopt_delta(const TSValueTypeMetaData *schema, const ValueView &d);  // [] | [delta]
    std::string render(const TSOutputView &v);
    std::string render(const TSInputView &v);

    // ---- scripted mutation of an output through the real mutation API ----
    void run_ops(const TSOutputView &root, DateTime now);          // logs "ops" and the producer view "w"
    long next_script_time(long after_k);                            // 0 = none
    // un-peered consumers: the composite is assembled from one scalar writer per child; writer `part` performs the ops whose
    // path starts with `part`; the first probe logs the cycle's combined script ("ops") before its observation
    void run_part_ops(long part, const TSOutputView &out, DateTime now);
    long next_part_time(long part, long after_k);
    void log_script(DateTime now);
    void run_activity(long id, const TSInputView &x, DateTime now);
    void log_probe(long id, long graph, const TSInputView &x, DateTime now);
    void log_shadow(const TSInputView &x, DateTime now);            // apply captured delta to the scratch, re-capture
    void dump_recording(const GlobalStateView &gs, const std::string &key, const TSValueTypeMetaData *schema, long graph);

    using ShapeRunner = std::function<void(Scenario &)>;
    std::map<std::string, ShapeRunner> &shape_registry();
    struct RegisterShape
    {
        RegisterShape(const std::string &n, ShapeRunner r) { shape_registry()[n] = std::move(r); }
    };
}  // namespace hgvc
