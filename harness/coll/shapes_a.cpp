#include "shapes.h"

namespace hgvc
{
    static RegisterShape r_ts("TS", [](Scenario &s) { run_shape<TS<Int>>(s); });
    static RegisterShape r_tss("TSS", [](Scenario &s) { run_shape<TSS<Int>>(s); });
}  // namespace hgvc
