#include "shapes.h"

namespace hgvc
{
    using Dtsl = TSL<TS<Int>>;      // dynamic (unsized) list: grows as elements are written
    using TsdTsd = TSD<Int, TSD<Int, TS<Int>>>;
    static RegisterShape r_tsd_tsd("TSD_TSD", [](Scenario &s) { run_shape<TsdTsd>(s); });
    static RegisterShape r_dtsl("DTSL", [](Scenario &s) { run_shape<Dtsl>(s); });
}  // namespace hgvc
