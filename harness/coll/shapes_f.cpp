#include "shapes.h"

namespace hgvc
{
    using Dtsl = TSL<TS<Int>>;      // dynamic (unsized) list: grows as elements are written
    static RegisterShape r_dtsl("DTSL", [](Scenario &s) { run_shape<Dtsl>(s); });
}  // namespace hgvc
