#include "shapes.h"

namespace hgvc
{
    using Tsb2 = TSB<"VPair", Field<"a", TS<Int>>, Field<"b", TS<Int>>>;
    using Tsw  = TSW<Int, 3, 2>;
    static RegisterShape r_tsb("TSB", [](Scenario &s) { run_shape<Tsb2>(s); });
    static RegisterShape r_tsw("TSW", [](Scenario &s) { run_shape<Tsw>(s); });
}  // namespace hgvc
