#include "shapes.h"

namespace hgvc
{
    using TsdTs = TSD<Int, TS<Int>>;
    using Tsl3  = TSL<TS<Int>, 3>;
    static RegisterShape r_tsd("TSD", [](Scenario &s) { run_shape<TsdTs>(s); });
    static RegisterShape r_tsl("TSL", [](Scenario &s) { run_shape<Tsl3>(s); });
}  // namespace hgvc
