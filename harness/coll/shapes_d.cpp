#include "shapes.h"

namespace hgvc
{
    using TsdTss = TSD<Int, TSS<Int>>;
    using TsbTsl = TSB<"VMixed", Field<"a", TS<Int>>, Field<"l", TSL<TS<Int>, 2>>>;
    static RegisterShape r_tsd_tss("TSD_TSS", [](Scenario &s) { run_shape<TsdTss>(s); });
    static RegisterShape r_tsb_tsl("TSB_TSL", [](Scenario &s) { run_shape<TsbTsl>(s); });
}  // namespace hgvc
