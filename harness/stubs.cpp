// Stub definitions for symbols exported by the translation units /verif cannot compile offline
// (simdjson / tzdb / chrono stream operators). No property is anchored in them; calling one aborts.
// The remaining unresolved references (temporal arithmetic, time-zone provider, JSON codecs) are only
// reachable from operator kernels the drivers never wire; the link uses
// --unresolved-symbols=ignore-in-object-files for those. The two registration entry points below are
// *called* by register_standard_operators(), so they get real (empty) definitions.
namespace hgraph::stdlib
{
    void register_conversion_operators() {}
    void register_json_operators() {}
}  // namespace hgraph::stdlib
