// Stub definitions for symbols exported by the translation units /verif cannot compile offline
// (simdjson / tzdb / chrono stream operators). No property is anchored in them; calling one aborts.
// The remaining unresolved references (temporal arithmetic, time-zone provider, JSON codecs) are only
// reachable from operator kernels the drivers never wire; the link uses
// --unresolved-symbols=ignore-in-object-files for those. The two registration entry points below are
// *called* by register_standard_operators(), so they get real (empty) definitions.
#include <hgraph/lib/std/operators/impl/conversion_impl.h>

namespace hgraph::stdlib
{
    // conversion_impl.cpp cannot be compiled offline (it needs simdjson for one UTF-8 helper). The drivers need the
    // header-only operator implementations it registers for wiring constants (`const`), `nothing`, `zero` and
    // `default`; they are registered here exactly as conversion_impl.cpp does. The runtime value converters and the
    // str/convert/collect families stay unregistered (no property is anchored in them).
    void register_conversion_operators()
    {
        register_overload<const_, const_source>();
        register_overload<const_, const_delayed>();
        register_overload<nothing, nothing_source>();
        register_graph_overload<zero_, zero_int>();
        register_graph_overload<zero_, zero_float>();
        register_graph_overload<zero_, zero_str>();
        register_overload<zero_, zero_tsd>();
        register_graph_overload<default_, default_impl>();
    }
    void register_json_operators() {}
}  // namespace hgraph::stdlib
