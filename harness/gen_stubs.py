#!/usr/bin/env python3
"""Generate an assembly file defining every symbol that the excluded translation units would have
provided (found by a trial link) as a function that aborts. usage: gen_stubs.py out.s -- <link cmd...>"""
import subprocess, sys, re
out = sys.argv[1]
cmd = sys.argv[sys.argv.index("--") + 1:]
r = subprocess.run(cmd + ["-Wl,--no-demangle", "-o", "/dev/null"], capture_output=True, text=True)
syms = sorted(set(re.findall(r"undefined reference to `([^']+)'", r.stderr)))
lines = ["\t.text"]
for s in syms:
    if s == "main":
        continue
    lines += [f"\t.globl {s}", f"\t.type {s}, @function", f"{s}:", "\tcall abort@PLT"]
lines.append('\t.section .note.GNU-stack,"",@progbits')
open(out, "w").write("\n".join(lines) + "\n")
print(f"gen_stubs: {len(syms)} stubbed symbols", file=sys.stderr)
