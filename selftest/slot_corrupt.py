"""Binding of SlotTrace.tla: accepted schedule-table dumps are corrupted and must be rejected with the right clause."""
import sys, os, random, copy
sys.path.insert(0, os.path.join(os.path.dirname(os.path.abspath(__file__)), '..', 'glue'))
import hg, tracecheck, slotcheck
from collections import Counter
hg.build(("engine",))
rng = random.Random(7)
scns = slotcheck.scenarios(rng, 60)
traces = hg.run_driver("engine", scns)
items, mut = [], {}
def add(ev, kind):
    i = len(items); items.append({"id": i, "prog": {"end": 99, "own": "all"}, "ev": ev}); mut[i] = kind
for tr in traces:
    if isinstance(tr, dict):
        continue
    ev = [e for e in tr if e["e"] in ("slots", "ret")]
    add(ev, "orig")
    dumps = [i for i, e in enumerate(ev) if e["e"] == "slots"]
    # a child entry pending later than now whose parent is pushed later still
    for i in dumps:
        e = ev[i]; T = e["t"]
        kids = [x for x in e["gs"] if x["pg"] >= 0 and any(s > T for s in x["s"])]
        if kids:
            c = copy.deepcopy(ev); x = [y for y in c[i]["gs"] if y["g"] == kids[0]["g"]][0]
            par = [y for y in c[i]["gs"] if y["g"] == x["pg"]][0]
            par["s"][x["pn"]] = max(s for s in x["s"]) + 5
            add(c, "parent-later-than-child"); break
    for i in dumps:
        e = ev[i]; T = e["t"]
        root = [x for x in e["gs"] if x["pg"] < 0][0]
        if any(s > T for s in root["s"]):
            c = copy.deepcopy(ev); r = [y for y in c[i]["gs"] if y["pg"] < 0][0]; r["next"] = max(r["s"]) + 3
            add(c, "root-next-too-late"); break
    for i in dumps:
        e = ev[i]
        kids = [x for x in e["gs"] if x["pg"] >= 0]
        if kids:
            c = copy.deepcopy(ev); x = [y for y in c[i]["gs"] if y["g"] == kids[0]["g"]][0]; x["et"] = e["t"] + 2
            add(c, "child-clock-ahead"); break
    if len(dumps) >= 2:
        c = copy.deepcopy(ev); i = dumps[1]; r = [y for y in c[dumps[0]]["gs"] if y["pg"] < 0][0]
        if r["next"] < 1000000:
            c[i]["t"] = r["next"] + 1
            add(c, "cycle-after-cached-next")
v, st, t = tracecheck.validate("SlotTrace", "SlotTrace.cfg", items, "slotself", keep={"slots", "ret"})
c = Counter((mut[i], v[i][1] or "ACCEPT") for i in mut)
bad = 0
for k, n in sorted(c.items()):
    print(n, k)
    if (k[0] == "orig") != (k[1] == "ACCEPT"):
        bad += 1
print("slot_corrupt:", "FAILED" if bad else "ok")
sys.exit(1 if bad else 0)
