#!/usr/bin/env python3
"""Demonstrates that ResolutionTrace.tla (level A of C19) is bound to what the driver records: traces of the unchanged tree
are accepted; each single corruption of an accepted trace is rejected, with the clause that names the corruption."""
import copy
import json
import os
import sys

sys.path.insert(0, os.path.join(os.path.dirname(os.path.dirname(os.path.abspath(__file__))), "glue"))
import hg
import tracecheck
import check_resolve as cr

P = cr.parse_term


def cand(label, params, out):
    ps = params.split(";")
    return {"l": label, "ps": [P(x.lstrip("*")) for x in ps], "o": P(out), "v": ps[-1].startswith("*")}     # '*' marks a variadic tail


BASE = {
    # name: (candidates, arguments)
    "spec":   ([cand("leaf", "!TS<int>", "TS<int>"), cand("struct", "TS<int>", "TS<int>"), cand("any", "~T", "~T")], "TS<int>"),
    "two":    ([cand("int", "TS<int>", "TS<int>"), cand("flt", "TS<float>", "TS<float>")], "TS<int>"),
    "gen":    ([cand("gen", "TS<$S>", "TS<$S>"), cand("any", "~T", "~T")], "TS<int>"),
    "tie":    ([cand("one", "TS<int>", "TS<int>"), cand("dup", "TS<int>", "TS<float>"), cand("any", "~T", "~T")], "TS<int>"),
    "none":   ([cand("flt", "TS<float>", "TS<float>"), cand("set", "TSS<$S>", "TS<$S>")], "TS<int>"),
    "rep":    ([cand("same", "TS<$S>;TS<$S>", "TS<$S>")], "TS<int>;TS<float>"),
    "sized":  ([cand("lst", "TSL<~T,#N>", "TSL<~T,#N>"), cand("any", "~U", "~U")], "TSL<TS<int>,2>"),
    "scale":  ([cand("by_int", "TS<int>;int", "TS<int>"), cand("by_flt", "TS<int>;float", "TS<int>")], "TS<int>;int"),
    "nest":   ([cand("tsd_ref", "TSD<$K,REF<TS<$S>>>", "TS<$S>"), cand("any", "~T", "~T")], "TSD<str,TS<int>>"),
    "nsig":   ([cand("tsd_sig", "TSD<$K,SIGNAL>", "TSS<$K>")], "TSD<int,TS<float>>"),
    # variadic tails: f(*a: TS[S]) called as f(1, "a") / f(1, 1); f(x: TS[S], *a: TS[S]) called with (TS[int], TS[float])
    "vhet":   ([cand("many", "*TS<$S>", "TS<int>"), cand("any", "*~T", "TS<int>")], "int;str"),
    "vone":   ([cand("many", "*TS<$S>", "TS<int>")], "int;str"),
    "vsame":  ([cand("many", "*TS<$S>", "TS<int>")], "int;int"),
    "vout":   ([cand("tailout", "*TS<$S>", "TS<$S>"), cand("any", "*~T", "TS<int>")], "int;int"),
    "vfix":   ([cand("same", "TS<$S>;*TS<$S>", "TS<$S>"), cand("any", "*~T", "TS<int>")], "TS<int>;TS<float>"),
    # an output size variable that no input binds
    "osize":  ([cand("grow", "TS<int>", "TSL<TS<int>,#N>"), cand("any", "~T", "~T")], "TS<int>"),
    "oalone": ([cand("grow", "TS<int>", "TSL<TS<int>,#N>")], "TS<int>"),
}


def ev_res(item, k=0):
    return [e for e in item["ev"] if e["e"] == "res"][k]


def c_swap_to_less_specific(it):
    e = ev_res(it)
    e["sel"] = "struct"


def c_swap_to_non_matching(it):
    e = ev_res(it)
    e["sel"], e["out"] = "flt", P("TS<float>")


def c_change_binding(it):
    e = ev_res(it)
    e["bind"] = [["$S", P("float")]]


def c_change_size_binding(it):
    e = ev_res(it)
    e["bind"] = [[v, cr.T("sz", "3") if v == "#N" else t] for v, t in e["bind"]]


def c_drop_binding(it):
    e = ev_res(it)
    e["bind"] = []


def c_change_output(it):
    e = ev_res(it)
    e["out"] = P("TS<float>")


def c_drop_ambiguity(it):
    e = ev_res(it)
    e.update({"kind": "ok", "sel": "one", "bind": [], "out": P("TS<int>"), "tied": []})


def c_invent_match(it):
    e = ev_res(it)
    e.update({"kind": "ok", "sel": "flt", "bind": [], "out": P("TS<float>")})


def c_nomatch_as_ambiguous(it):
    e = ev_res(it)
    e.update({"kind": "ambiguous", "tied": ["flt", "set"]})


def c_two_types(it):
    e = ev_res(it)
    e.update({"kind": "ok", "sel": "same", "bind": [["$S", P("int")]], "out": P("TS<int>")})


def c_ok_to_nomatch(it):
    e = ev_res(it)
    e.update({"kind": "nomatch", "sel": "", "bind": [], "out": cr.SIG})


def c_ok_to_ambiguous(it):
    e = ev_res(it)
    e.update({"kind": "ambiguous", "sel": "", "bind": [], "out": cr.SIG, "tied": ["leaf", "struct"]})


def c_order_dependent(it):
    e = ev_res(it, 1)     # the second registration order reports other (self-consistent) ranks and another winner
    e["rk"] = [["struct", 0], ["leaf", 1], ["any", 10000]]
    e["sel"] = "struct"


def c_more_general_wins(it):
    # every order reports ranks under which the bare variable is the unique minimum (self-consistent with the outcome rule)
    for e in [x for x in it["ev"] if x["e"] == "res"]:
        e["rk"] = [["any", 1], ["gen", 101]]
        e.update({"kind": "ok", "sel": "any", "bind": [["~T", P("TS<int>")]], "out": P("TS<int>")})


def c_exact_ties_with_converted(it):
    # every order reports the exactly typed and the merely convertible scalar overload at the same rank (self-consistent)
    for e in [x for x in it["ev"] if x["e"] == "res"]:
        e.update({"kind": "ambiguous", "sel": "", "bind": [], "out": cr.SIG, "tied": ["by_int", "by_flt"], "rej": [],
                  "rk": [["by_int", 1], ["by_flt", 1]]})


def c_converted_beats_exact(it):
    for e in [x for x in it["ev"] if x["e"] == "res"]:
        e.update({"kind": "ok", "sel": "by_flt", "rk": [["by_flt", 1], ["by_int", 2]]})


def c_matching_candidate_dropped(it):
    # TSD[K, REF[TS[S]]] is listed as rejected and the bare variable wins, with ranks that make the bare variable the minimum
    for e in [x for x in it["ev"] if x["e"] == "res"]:
        e.update({"kind": "ok", "sel": "any", "bind": [["~T", P("TSD<str,TS<int>>")]], "out": P("TSD<str,TS<int>>"),
                  "rej": ["tsd_ref"], "rk": [["any", 10000], ["tsd_ref", 20000]]})


def c_only_candidate_dropped(it):
    e = ev_res(it)
    e.update({"kind": "nomatch", "sel": "", "bind": [], "out": cr.SIG, "rej": ["tsd_sig"]})


def c_variadic_rejected_fallback_wins(it):
    # f(*a: TS[S]) is listed as rejected for (1, "a") (the first tail argument bound S for the second); f(*a: T) wins; ranks self-consistent
    for e in [x for x in it["ev"] if x["e"] == "res"]:
        e.update({"kind": "ok", "sel": "any", "bind": [], "out": P("TS<int>"), "rej": ["many"], "rk": [["any", 20003], ["many", 204]]})


def c_only_variadic_rejected(it):
    for e in [x for x in it["ev"] if x["e"] == "res"]:
        e.update({"kind": "nomatch", "sel": "", "bind": [], "out": cr.SIG, "rej": ["many"], "rk": [["many", 204]]})


def c_tail_binding_reported(it):
    for e in [x for x in it["ev"] if x["e"] == "res"]:
        e["bind"] = [["$S", P("int")]]


def c_tail_binding_feeds_output(it):
    # f(*a: TS[S]) -> TS[S]: the tail's throw-away binding survives and resolves the output
    for e in [x for x in it["ev"] if x["e"] == "res"]:
        e.update({"kind": "ok", "sel": "tailout", "bind": [["$S", P("int")]], "out": P("TS<int>"), "rej": [],
                  "rk": [["tailout", 205], ["any", 20003]]})


def c_tail_not_checked_against_fixed(it):
    for e in [x for x in it["ev"] if x["e"] == "res"]:
        e.update({"kind": "ok", "sel": "same", "bind": [["$S", P("int")]], "out": P("TS<int>"), "rej": [],
                  "rk": [["same", 203], ["any", 20003]]})


def c_unbound_output_size_wins(it):
    # the output size variable falls back to the pattern's size 0 and the candidate beats the legitimate one
    for e in [x for x in it["ev"] if x["e"] == "res"]:
        e.update({"kind": "ok", "sel": "grow", "bind": [], "out": P("TSL<TS<int>,0>"), "rej": [], "rk": [["grow", 1], ["any", 10000]]})


def c_unbound_output_size_alone(it):
    for e in [x for x in it["ev"] if x["e"] == "res"]:
        e.update({"kind": "ok", "sel": "grow", "bind": [], "out": P("TSL<TS<int>,0>"), "rej": [], "rk": [["grow", 1]]})


def c_output_size_differs_from_binding(it):
    e = ev_res(it)
    e["out"] = P("TSL<TS<int>,3>")


def c_unexpected_error(it):
    e = ev_res(it)
    e.update({"kind": "other", "sel": "", "bind": [], "out": cr.SIG})


def c_unknown_label(it):
    e = ev_res(it)
    e["sel"] = "ghost"


def c_drop_end(it):
    it["ev"] = [e for e in it["ev"] if e["e"] != "end"]


CORRUPTIONS = [
    ("swap selected label -> less specific matching candidate", "spec", c_swap_to_less_specific, "C19.selected_is_not_unique_minimum_rank"),
    ("swap selected label -> candidate that does not match", "two", c_swap_to_non_matching, "C19.selected_candidate_does_not_match_arguments"),
    ("selected label not in the family", "two", c_unknown_label, "C19.selected_candidate_is_not_a_member_of_the_family"),
    ("change a binding ($S: int -> float)", "gen", c_change_binding, "C19.reported_binding_is_not_the_matched_type"),
    ("change a size binding (#N: 2 -> 3)", "sized", c_change_size_binding, "C19.reported_binding_is_not_the_matched_type"),
    ("drop the bindings", "gen", c_drop_binding, "C19.reported_binding_is_not_the_matched_type"),
    ("change the output type", "gen", c_change_output, "C19.output_type_is_not_substitution_of_bindings"),
    ("drop an ambiguity (report the first registered)", "tie", c_drop_ambiguity, "C19.ambiguity_not_reported"),
    ("no candidate matches, one is selected", "none", c_invent_match, "C19.selected_candidate_does_not_match_arguments"),
    ("no candidate matches, ambiguity reported", "none", c_nomatch_as_ambiguous, "C19.no_match_not_reported"),
    ("TS<$S>;TS<$S> selected for (TS<int>, TS<float>)", "rep", c_two_types, "C19.variable_bound_to_two_types"),
    ("winner replaced by a resolution error", "spec", c_ok_to_nomatch, "C19.resolution_error_although_a_candidate_matches"),
    ("winner replaced by an ambiguity error", "spec", c_ok_to_ambiguous, "C19.ambiguity_reported_although_the_most_specific_match_is_unique"),
    ("second registration order picks another winner", "spec", c_order_dependent, "C19.outcome_depends_on_registration_order"),
    ("bare variable out-ranks TS<$S> (ranks self-consistent)", "gen", c_more_general_wins,
     "C19.selected_candidate_is_strictly_more_general_than_another_matching_candidate"),
    ("exact and converted scalar overloads reported as tied (ranks self-consistent)", "scale", c_exact_ties_with_converted,
     "C19.ambiguity_between_an_exact_and_a_converted_scalar_match"),
    ("converted scalar overload wins over the exact one (ranks self-consistent)", "scale", c_converted_beats_exact,
     "C19.selected_candidate_converts_a_scalar_that_another_matching_candidate_takes_exactly"),
    ("TSD<$K,REF<TS<$S>>> rejected for TSD<str,TS<int>>, bare variable wins (ranks self-consistent)", "nest", c_matching_candidate_dropped,
     "C19.candidate_whose_parameters_match_the_arguments_was_rejected"),
    ("TSD<$K,SIGNAL> rejected for TSD<int,TS<float>>: resolution error", "nsig", c_only_candidate_dropped,
     "C19.candidate_whose_parameters_match_the_arguments_was_rejected"),
    ("f(*a: TS[S]) rejected for (1, 'a'), the f(*a: T) fallback wins (ranks self-consistent)", "vhet", c_variadic_rejected_fallback_wins,
     "C19.matching_variadic_candidate_rejected"),
    ("f(*a: TS[S]) rejected for (1, 'a'): resolution error", "vone", c_only_variadic_rejected, "C19.matching_variadic_candidate_rejected"),
    ("a tail argument's binding is reported in the result map", "vsame", c_tail_binding_reported,
     "C19.tail_argument_bound_a_variable_for_other_positions"),
    ("f(*a: TS[S]) -> TS[S] selected: the tail's binding resolves the output", "vout", c_tail_binding_feeds_output,
     "C19.tail_argument_bound_a_variable_for_other_positions"),
    ("f(x: TS[S], *a: TS[S]) selected for (TS[int], TS[float])", "vfix", c_tail_not_checked_against_fixed,
     "C19.selected_variadic_candidate_does_not_match_a_tail_argument"),
    ("TS<int> -> TSL<TS<int>,#N> selected with output TSL<TS<int>,0> over ~T (ranks self-consistent)", "osize", c_unbound_output_size_wins,
     "C19.output_size_is_not_explained_by_any_binding"),
    ("TS<int> -> TSL<TS<int>,#N> alone selected instead of the resolution error", "oalone", c_unbound_output_size_alone,
     "C19.output_size_is_not_explained_by_any_binding"),
    ("output size 3 although #N is bound to 2", "sized", c_output_size_differs_from_binding, "C19.output_type_is_not_substitution_of_bindings"),
    ("resolution raises another exception", "two", c_unexpected_error, "C19.resolution_raised_an_unexpected_error"),
    ("scenario did not complete (end dropped)", "two", c_drop_end, "trace.incomplete"),
]


def main():
    hg.build(("resolve",))
    names = sorted(BASE)
    scns, progs = [], {}
    for n in names:
        cands, args = BASE[n]
        args = [P(x) for x in args.split(";")]
        labels = [c["l"] for c in cands]
        scns.append(cr.scenario_text(n, cands, args, cr.all_orders(labels)))
        progs[n] = (cands, args)
    traces = hg.run_driver("resolve", scns)
    base_items = {}
    for n, tr in zip(names, traces):
        if isinstance(tr, dict):
            print("driver failed on %s: %s" % (n, tr))
            return 2
        base_items[n] = cr.trace_item(0, progs[n][0], progs[n][1], tr)
    items, expect = [], {}
    for k, n in enumerate(names):
        it = copy.deepcopy(base_items[n])
        it["id"] = k
        items.append(it)
        expect[k] = ("unchanged trace '%s'" % n, "")
    for j, (what, n, fn, clause) in enumerate(CORRUPTIONS):
        it = copy.deepcopy(base_items[n])
        it["id"] = 100 + j
        fn(it)
        items.append(it)
        expect[100 + j] = ("%s  [%s]" % (what, n), clause)
    verdicts, _, _ = tracecheck.validate("ResolutionTrace", "ResolutionTrace.cfg", items, "c19self", shards=1, keep=cr.KEEP)
    ok = True
    print("%-96s %-84s %s" % ("trace", "verdict of ResolutionTrace.tla", ""))
    for k in sorted(expect):
        what, want = expect[k]
        got = verdicts[k][1]
        good = got == want
        ok = ok and good
        print("%-96s %-84s %s" % (what, got or "accepted", "ok" if good else "UNEXPECTED (wanted %s)" % (want or "accepted")))
    print("c19_corrupt: %s" % ("every corruption rejected with the expected clause" if ok else "BINDING NOT DEMONSTRATED"))
    return 0 if ok else 1


if __name__ == "__main__":
    hg.main_wrapper(main)
