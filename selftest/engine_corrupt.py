import sys, random, time, copy
sys.path.insert(0, __import__('os').path.join(__import__('os').path.dirname(__import__('os').path.abspath(__file__)), '..', 'glue'))
import hg, programs as P, dfcheck, tracecheck
rng = random.Random(3)
progs = [P.random_program(rng, i) for i in range(1, 41)]
scns = [P.render(p) for p in progs]
traces = hg.run_driver("engine", scns)
items=[]
muts={}
def add(pid, prog, ev, kind):
    iid=len(items)+1
    items.append({"id":iid,"prog":prog,"ev":ev}); muts[iid]=(pid,kind)
for p,tr in zip(progs,traces):
    pj=P.to_json_programs([p])[0]
    add(p["id"],pj,tr,"orig")
    fns=[i for i,e in enumerate(tr) if e["e"]=="fn" and e.get("w")==1]
    if fns:
        i=rng.choice(fns); ev=copy.deepcopy(tr); ev[i]["out"]+=1; add(p["id"],pj,ev,"out+1")
    evs=[i for i,e in enumerate(tr) if e["e"]=="eval"]
    if evs:
        i=rng.choice(evs); ev=copy.deepcopy(tr); ev.insert(i, copy.deepcopy(ev[i])); add(p["id"],pj,ev,"dup-eval")
    cyc=[i for i,e in enumerate(tr) if e["e"]=="cycle" and e["g"]==0]
    if len(cyc)>1:
        # drop a whole cycle (events between cycle and cycled)
        i=cyc[0]; j=[k for k,e in enumerate(tr) if k>i and e["e"]=="cycled" and e["g"]==0][0]
        ev=tr[:i]+tr[j+1:]; add(p["id"],pj,ev,"drop-cycle")
    # shift times of last cycle by +1 (late)
    if cyc:
        i=cyc[-1]; ev=copy.deepcopy(tr)
        for e in ev[i:]:
            if "t" in e and e["e"] in("cycle","cycled","eval","fn","req"): e["t"]+=1
            for r in e.get("in",[]): pass
        add(p["id"],pj,ev,"late-cycle")
    # passive/invalid: flip a modified flag
    fi=[i for i,e in enumerate(tr) if e["e"]=="fn" and e.get("in")]
    if fi:
        i=rng.choice(fi); ev=copy.deepcopy(tr); ev[i]["in"][0]["m"]^=1; add(p["id"],pj,ev,"flip-m")
    # remove one fn (user code did not run)
    if fi:
        i=rng.choice(fi); ev=tr[:i]+tr[i+1:]; add(p["id"],pj,ev,"drop-fn")
v, st, tr = tracecheck.validate("EngineTrace","EngineTrace.cfg",items,"t4")
from collections import Counter
c=Counter()
for iid,(pid,kind) in muts.items():
    c[(kind, v[iid][1] or "ACCEPT")]+=1
for k,n in sorted(c.items()): print(n,k)
