import sys, random, copy, json
sys.path.insert(0, __import__('os').path.join(__import__('os').path.dirname(__import__('os').path.abspath(__file__)), '..', 'glue'))
import hg, tracecheck, check_life as CL
from collections import Counter
rng=random.Random(5)
cases=[]
for shape,(_,ids) in CL.SHAPES.items():
    for fs in [(), ((ids[1],"eval",2),), ((ids[0],"start",1),), ((ids[-1],"stop",1),), ((ids[1],"start",1),(ids[0],"stop",1))]:
        for c in (1,0):
            cases.append((shape,fs,c,CL.scenario("x",shape,fs,c)))
traces=hg.run_driver("engine",[c[3] for c in cases])
items=[];mut={}
def add(ev,c,kind):
    i=len(items); items.append({"id":i,"prog":{"cleanup":c},"ev":ev}); mut[i]=kind
for (shape,fs,c,scn),tr in zip(cases,traces):
    add(tr,c,"orig")
    stops=[i for i,e in enumerate(tr) if e["e"]=="nstop"]
    if stops:
        i=rng.choice(stops); n=tr[i]
        ev=[e for e in tr if not (e["e"] in("nstop","ustop","nstopped","nstopfail") and e.get("g")==n["g"] and e.get("n")==n["n"])]
        add(ev,c,"drop-stop")
    us=[i for i,e in enumerate(tr) if e["e"]=="ustop"]
    if us:
        i=rng.choice(us); ev=copy.deepcopy(tr); ev.insert(i,copy.deepcopy(ev[i])); add(ev,c,"dup-ustop")
    # swap two consecutive node stops in same graph
    for a in range(len(stops)-1):
        i,j=stops[a],stops[a+1]
        if tr[i]["g"]==tr[j]["g"]:
            ev=copy.deepcopy(tr)
            blockA=[e for e in tr if e["e"] in("nstop","ustop","nstopped") and e.get("g")==tr[i]["g"] and e.get("n")==tr[i]["n"]]
            blockB=[e for e in tr if e["e"] in("nstop","ustop","nstopped") and e.get("g")==tr[j]["g"] and e.get("n")==tr[j]["n"]]
            if len(blockA)==3 and len(blockB)==3 and j==i+3:
                ev[i:i+6]=blockB+blockA; add(ev,c,"swap-stop"); break
    rets=[i for i,e in enumerate(tr) if e["e"]=="ret" and e["ok"]==0]
    if rets:
        ev=copy.deepcopy(tr); ev[rets[0]]["node"]+=1; add(ev,c,"wrong-node")
        ev=copy.deepcopy(tr); ev[rets[0]]["tags"]=[]; add(ev,c,"wrong-msg")
    evs=[i for i,e in enumerate(tr) if e["e"]=="ueval"]
    if evs:
        # move a ueval before all starts
        ev=copy.deepcopy(tr); x=ev.pop(evs[0]); ev.insert(2,x); add(ev,c,"eval-before-start")
v,st,t=tracecheck.validate("LifeTrace","LifeTrace.cfg",items,"t6",keep=CL.KEEP)
c=Counter((mut[i], v[i][1] or "ACCEPT") for i in mut)
for k,n in sorted(c.items()): print(n,k)
