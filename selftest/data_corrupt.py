#!/usr/bin/env python3
"""Binding self-test of the data-layer trace specifications (C04 / C05 / C20).

Runs a handful of scenarios on the compiled tree, checks that the recorded traces are judged as on the unchanged tree
(baseline), then corrupts one field / one event of each accepted trace and requires CollTrace.tla /
RecordReplayTrace.tla to reject the corrupted trace with the clause that names the corruption.
Prints a table; exit 1 when a corruption is not rejected with the right clause, 2 on machinery failure."""
import copy
import json
import os
import sys

sys.path.insert(0, os.path.join(os.path.dirname(os.path.dirname(os.path.abspath(__file__))), "glue"))
import hg
import tracecheck
import check_data as cd

BASE = {
    "tss": ("TSS", {1: [cd.op("add", (), (1,)), cd.op("add", (), (2,))], 2: [cd.op("rem", (), (1,)), cd.op("add", (), (3,))], 4: [cd.op("add", (), (1,))]}, 5),
    "ts": ("TS", {2: [cd.op("set", (), (5,))], 3: [cd.op("set", (), (5,))]}, 5),
    "tsl": ("TSL", {1: [cd.op("set", (0,), (1,))], 3: [cd.op("set", (2,), (2,)), cd.op("set", (0,), (3,))]}, 4),
    "tsd": ("TSD", {1: [cd.op("set", (1,), (1,)), cd.op("set", (2,), (2,))], 2: [cd.op("del", (), (1,))], 3: [cd.op("set", (3,), (3,))]}, 4),
    # composite invalidation: the whole bundle in cycle 2 (both fields written before), a later write in cycle 4
    "tsbi": ("TSB", {1: [cd.op("set", (0,), (1,)), cd.op("set", (1,), (2,))], 2: [cd.op("inv")], 4: [cd.op("set", (1,), (5,))]}, 5),
    # dynamic list: three distinct children tick in cycle 2 (the per-cycle ring of modified children holds three entries)
    "dtsl": ("DTSL", {1: [cd.op("set", (0,), (1,)), cd.op("set", (1,), (1,))],
                      2: [cd.op("set", (0,), (2,)), cd.op("set", (2,), (2,)), cd.op("set", (3,), (3,))], 3: [cd.op("set", (4,), (1,))]}, 4),
    # dictionary with its key-set probe: cycle 2 erases an absent key, cycle 3 is a value-only tick
    "tsdk": ("TSD", {1: [cd.op("set", (1,), (1,))], 2: [cd.op("del", (), (7,))], 3: [cd.op("set", (1,), (2,))], 4: [cd.op("del", (), (1,))]}, 5),
    # un-peered bundle input, child link 0 activated in cycle 1 and made passive in cycle 3, child 0 ticks again in cycle 4
    "utsb": ("UTSB", {1: [cd.op("set", (0,), (1,)), cd.op("set", (1,), (1,))], 2: [cd.op("set", (0,), (2,))], 4: [cd.op("set", (0,), (3,))]}, 5,
             {1: [cd.op("act", (), (0,))], 3: [cd.op("pas", (), (0,))]}),
    "tsw": ("TSW", {1: [cd.op("push", (), (1,))], 2: [cd.op("push", (), (2,))], 3: [cd.op("push", (), (3,))], 4: [cd.op("push", (), (4,))]}, 5),
}


def probe(ev, t, pid=1, g=1):
    for i, e in enumerate(ev):
        if e["e"] == "p" and e["id"] == pid and e.get("g", 1) == g and e["t"] == t:
            return i
    raise KeyError((t, pid, g))


def find(ev, kind, **kw):
    for i, e in enumerate(ev):
        if e["e"] == kind and all(e.get(k) == v for k, v in kw.items()):
            return i
    raise KeyError((kind, kw))


def c_flip_modified_idle(ev):          # TSS: cycle 3 is idle
    ev[probe(ev, 3)]["o"]["m"] = 1


def c_drop_added(ev):                  # TSS cycle 2: added = [3]
    ev[probe(ev, 2)]["o"]["a"] = []


def c_overlap(ev):                     # TSS cycle 2: removed = [1]; claim 1 was also added
    o = ev[probe(ev, 2)]["o"]
    o["a"] = sorted(o["a"] + [1])


def c_added_absent(ev):                # TSS cycle 2: claim 9 was added although it is not in the value
    o = ev[probe(ev, 2)]["o"]
    o["a"] = sorted(o["a"] + [9])


def c_removed_never_present(ev):
    o = ev[probe(ev, 2)]["o"]
    o["r"] = sorted(o["r"] + [7])


def c_cancel_trace(ev):                # TSS cycle 4 (add 1 again after removal in cycle 2 -> genuine add); claim 2 (present before) was added
    o = ev[probe(ev, 4)]["o"]
    o["a"] = sorted(o["a"] + [2])


def c_valid_early(ev):                 # TS: first write in cycle 2
    o = ev[probe(ev, 1)]["o"]
    o["ok"] = 1


def c_lmt_wrong(ev):                   # TS cycle 4: lmt must be 3
    ev[probe(ev, 4)]["o"]["lmt"] = 2


def c_set_same_not_modified(ev):       # TS cycle 3 writes the same value: still a write
    ev[probe(ev, 3)]["o"]["m"] = 0


def c_delta_after_cycle(ev):           # TS cycle 4 idle
    ev[probe(ev, 4)]["o"]["dv"] = [5]


def c_consumer_value(ev):              # TS cycle 2: the consumer sees another value than the producer
    ev[probe(ev, 2)]["o"]["v"] = 6


def c_late_probe_flag(ev):             # the late probe (id 2) in an idle cycle
    ev[probe(ev, 4, pid=2)]["o"]["m"] = 1


def c_parent_not_modified(ev):         # TSL cycle 3: children 0 and 2 tick
    ev[probe(ev, 3)]["o"]["m"] = 0


def c_fixed_parent_alone(ev):          # TSL cycle 2 idle
    ev[probe(ev, 2)]["o"]["m"] = 1


def c_child_flag(ev):                  # TSL cycle 2 idle: child 1 claims a tick
    ev[probe(ev, 2)]["o"]["ch"][1]["m"] = 1


def c_tsd_removed_present(ev):         # TSD cycle 2 removes key 1: claim key 2 (still present) removed
    o = ev[probe(ev, 2)]["o"]
    o["r"] = sorted(o["r"] + [2])


def c_tsd_capture_misses_key(ev):      # TSD cycle 3 adds key 3: capture_delta without it
    e = ev[probe(ev, 3)]
    e["cap"] = [{"r": [], "m": []}]


def c_bundle_survives_invalidation(ev):   # cycle 3: the invalidated bundle still reads valid because one child kept its value
    o = ev[probe(ev, 3)]["o"]
    o["ok"] = 1
    o["lmt"] = 2
    o["ch"][1]["ok"] = 1
    o["ch"][1]["v"] = 2
    o["ch"][1]["lmt"] = 1


def c_child_survives_invalidation(ev):    # cycle 5 (after the later write of field 1): field 0 is valid again without a write
    o = ev[probe(ev, 5)]["o"]
    o["ch"][0]["ok"] = 1
    o["ch"][0]["v"] = 1
    o["ch"][0]["lmt"] = 1


def c_dynamic_list_drops_modified_child(ev):   # cycle 2: the earliest of three modified children vanishes from the delta
    e = ev[probe(ev, 2)]
    o = e["o"]
    o["mi"] = o["mi"][1:]
    o["dv"] = [{"m": o["dv"][0]["m"][1:]}]
    e["cap"] = [{"m": e["cap"][0]["m"][1:]}]


def c_dynamic_list_size(ev):                   # cycle 4 (idle): the list shrank
    o = ev[probe(ev, 4)]["o"]
    o["ch"] = o["ch"][:-1]
    o["sz"] -= 1


def c_keyset_stamped_by_absent_erase(ev):   # cycle 2 erases a key that is not there: the key set claims a modification
    o = ev[find(ev, "k", t=2)]["o"]
    o["m"] = 1
    o["lmt"] = 2


def c_keyset_lmt(ev):                       # cycle 3 (value-only tick): the key set's last-modified-time moved
    ev[find(ev, "k", t=3)]["o"]["lmt"] = 3


def c_unpeered_parent_misses_child_tick(ev):   # cycle 4: child 0 ticks through a link that was made passive; the parent does not follow
    o = ev[probe(ev, 4)]["o"]
    o["m"] = 0
    o["lmt"] = 2
    o["mi"] = []
    o["dv"] = []
    ev[probe(ev, 4)]["cap"] = []


def c_window_order(ev):
    o = ev[probe(ev, 4)]["o"]
    o["v"] = list(reversed(o["v"]))


def c_window_valid_early(ev):
    ev[probe(ev, 1)]["o"]["av"] = 1


def c_replayed_delta(ev):
    e = ev[find(ev, "rec", key="r2")]
    e["ent"][1] = [{"a": [4], "r": [1]}]


def c_replayed_cycle_shift(ev):
    e = ev[find(ev, "rec", key="r2")]
    e["ent"] = [[]] + e["ent"][:-1]


def c_replayed_value(ev):
    o = ev[probe(ev, 4, pid=3, g=2)]["o"]
    o["v"] = sorted(o["v"] + [8])


def c_replay_extra_tick(ev):
    ev[probe(ev, 3, pid=3, g=2)]["o"]["m"] = 1


def c_apply_post(ev):
    e = ev[find(ev, "ap", t=2)]
    e["post"]["v"] = sorted(e["post"]["v"] + [8])


def c_recapture(ev):
    e = ev[find(ev, "ap", t=2)]
    e["re"] = [{"a": [3], "r": []}]


def c_drop_probe_event(ev):            # an event is lost: the replay probe has no original to compare with
    del ev[probe(ev, 2)]


CORRUPTIONS = [
    # (base, spec, what, mutator, clause that must appear)
    ("tss", "CollTrace", "flip modified in an idle cycle", c_flip_modified_idle, "C04.modified_true_without_write"),
    ("tss", "CollTrace", "drop an element from added", c_drop_added, "C05.value_is_not_previous_plus_delta"),
    ("tss", "CollTrace", "element in added and removed", c_overlap, "C05.added_and_removed_overlap"),
    ("tss", "CollTrace", "added element not in the value", c_added_absent, "C05.added_element_absent"),
    ("tss", "CollTrace", "removed element that was never present", c_removed_never_present, "C05.removed_element_present_or_was_absent"),
    ("tss", "CollTrace", "present element reported as added", c_cancel_trace, "C05.cancelled_mutation_left_a_trace"),
    ("ts", "CollTrace", "valid before the first write", c_valid_early, "C04.valid_before_first_write"),
    ("ts", "CollTrace", "last-modified-time not the latest write", c_lmt_wrong, "C04.last_modified_time_is_not_the_latest_write_cycle"),
    ("ts", "CollTrace", "set-same-value cycle not modified", c_set_same_not_modified, "C04.modified_false_in_a_write_cycle"),
    ("ts", "CollTrace", "delta readable in an idle cycle", c_delta_after_cycle, "C04.delta_readable_after_its_cycle"),
    ("ts", "CollTrace", "consumer sees another value", c_consumer_value, "C04.consumer_disagrees_with_producer"),
    ("ts", "CollTrace", "late probe: modified in an idle cycle", c_late_probe_flag, "C04.modified_true_without_write"),
    ("tsl", "CollTrace", "parent not modified although children tick", c_parent_not_modified, "C04.parent_not_modified_with_child"),
    ("tsl", "CollTrace", "fixed parent modified without a child", c_fixed_parent_alone, "C04.fixed_parent_modified_without_child"),
    ("tsl", "CollTrace", "child modified in an idle cycle", c_child_flag, "C04.modified_true_without_write@consumer.child.TS"),
    ("tsd", "CollTrace", "present key reported removed", c_tsd_removed_present, "C05.removed_element_present_or_was_absent"),
    ("tsd", "CollTrace", "captured delta misses the added key", c_tsd_capture_misses_key, "C05.value_is_not_previous_plus_delta@consumer.capture_delta"),
    ("tsbi", "CollTrace", "invalidated bundle stays valid (a child kept its value)", c_bundle_survives_invalidation, "C04.valid_after_invalidation@consumer.root.TSB"),
    ("tsbi", "CollTrace", "child of an invalidated bundle valid again without a write", c_child_survives_invalidation, "C04.valid_after_invalidation@consumer.child.TS"),
    ("dtsl", "CollTrace", "dynamic list: drop one of three modified children", c_dynamic_list_drops_modified_child, "C05.value_is_not_previous_plus_delta@consumer."),
    ("dtsl", "CollTrace", "dynamic list shrinks", c_dynamic_list_size, "C05.list_size_is_not_the_net_effect_of_the_mutations"),
    ("tsdk", "CollTrace", "key set modified by an erase of an absent key", c_keyset_stamped_by_absent_erase, "C04.modified_true_without_write@consumer.keyset"),
    ("tsdk", "CollTrace", "key set last-modified-time moved by a value tick", c_keyset_lmt, "C04.last_modified_time_is_not_the_latest_write_cycle@consumer.keyset"),
    ("utsb", "CollTrace", "un-peered parent misses the tick of a passivated child link", c_unpeered_parent_misses_child_tick, "C04.parent_not_modified_with_child@consumer.root.TSB"),
    ("tsw", "CollTrace", "window order reversed", c_window_order, "C05.window_is_not_last_n_pushes"),
    ("tsw", "CollTrace", "window all_valid below the minimum count", c_window_valid_early, "C05.window_valid_before_min_count"),
    ("tss", "RecordReplayTrace", "change a replayed delta", c_replayed_delta, "C20.replayed_delta_differs"),
    ("tss", "RecordReplayTrace", "shift the replayed cycles by one", c_replayed_cycle_shift, "C20.replayed_cycle_differs"),
    ("tss", "RecordReplayTrace", "replayed value differs", c_replayed_value, "C20.replayed_value_differs"),
    ("tss", "RecordReplayTrace", "replay ticks in an idle cycle", c_replay_extra_tick, "C20.replayed_cycle_differs@tick_invented_by_replay"),
    ("tss", "RecordReplayTrace", "applied delta gives another state", c_apply_post, "C20.apply_of_captured_delta_is_not_post_state"),
    ("tss", "RecordReplayTrace", "re-captured delta differs", c_recapture, "C20.recapture_differs"),
    ("tss", "RecordReplayTrace", "drop an event of the original probe", c_drop_probe_event, "trace.replay_probe_without_original"),
]


def main():
    hg.build(("coll",))
    cases = {}
    for k, spec in BASE.items():
        shape, cyc, end = spec[:3]
        act = spec[3] if len(spec) > 3 else None
        rr = shape != "UTSB" and not cd.Case(k, shape, cyc, end, 2, True, "x").has_inv
        cases[k] = cd.Case(k, shape, cyc, end, 2, rr, "selftest", activity=act)
    names = list(cases)
    traces = hg.run_driver("coll", [cases[k].scn for k in names])
    for k, tr in zip(names, traces):
        if isinstance(tr, dict):
            raise hg.MachineryError("driver crashed on self-test scenario " + k)
        cases[k].events = tr
    items = {"CollTrace": [], "RecordReplayTrace": []}
    rows = []
    for k in names:       # baselines
        for spec, sel in (("CollTrace", cd.graph1), ("RecordReplayTrace", cd.rr_events)):
            if spec == "RecordReplayTrace" and not cases[k].rr:
                continue      # an invalidation is not a tick: C20 scenarios contain none
            rows.append((k, spec, "(unchanged)", None))
            items[spec].append({"id": len(rows) - 1, "prog": {"shape": cd.SHAPES[cases[k].shape]}, "ev": sel(cases[k].events)})
    for base, spec, what, fn, clause in CORRUPTIONS:
        sel = cd.graph1 if spec == "CollTrace" else cd.rr_events
        ev = copy.deepcopy(sel(cases[base].events))
        fn(ev)
        rows.append((base, spec, what, clause))
        items[spec].append({"id": len(rows) - 1, "prog": {"shape": cd.SHAPES[cases[base].shape]}, "ev": ev})
    verdicts = {}
    for spec in items:
        v, _, _ = tracecheck.validate(spec, spec + ".cfg", items[spec], "selftest", keep=cd.KEEP_COLL | cd.KEEP_RR)
        verdicts.update(v)
    baseline = {(r[0], r[1]): set(filter(None, verdicts[i][1].split(";"))) for i, r in enumerate(rows) if r[3] is None}
    bad = 0
    print("%-5s %-18s %-46s %-62s %s" % ("base", "spec", "corruption", "required clause", "result"))
    for i, (base, spec, what, clause) in enumerate(rows):
        got = set(filter(None, verdicts[i][1].split(";")))
        if clause is None:
            # on the unchanged tree the baselines may only show the recorded findings (F1 on nested children)
            unexpected = [c for c in got if cd.classify(c, cases[base]) == c]
            ok = not unexpected
            res = "accepted" if not got else ("only known findings: " + ",".join(sorted(cd.classify(c, cases[base]) for c in got))[:60] if ok else "UNEXPECTED " + ";".join(unexpected))
        else:
            new = got - baseline[(base, spec)]
            ok = any(c.startswith(clause) for c in new)
            res = "rejected: " + ";".join(sorted(c for c in new if c.startswith(clause)))[:90] if ok else "NOT REJECTED AS REQUIRED (got: %s)" % ";".join(sorted(new))[:120]
        bad += 0 if ok else 1
        print("%-5s %-18s %-46s %-62s %s" % (base, spec, what, clause or "-", res))
    print("data_corrupt: %d corruption(s), %d baseline(s), %d failure(s)" % (len(CORRUPTIONS), len(rows) - len(CORRUPTIONS), bad))
    return 1 if bad else 0


if __name__ == "__main__":
    hg.main_wrapper(main)
