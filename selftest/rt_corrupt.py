#!/usr/bin/env python3
"""Self-test of the C16 / C17 binding: corrupt traces that PushTrace.tla / RtTrace.tla accept and show that every corruption
is rejected by the right level-A clause; run the deliberately broken variants of the level-B models and show that TLC
reports them.  Prints a table; exit status 1 if any row is not as expected.

usage: rt_corrupt.py [--no-models]"""
import copy
import json
import os
import random
import re
import sys

sys.path.insert(0, os.path.join(os.path.dirname(os.path.dirname(os.path.abspath(__file__))), "glue"))
import hg
import tracecheck
import check_rt as C

Scn = C.Scn


def base_scenarios():
    o = {"seed": 7, "end_us": 9000, "slice_us": 400, "jitter": 1, "start_us": 0, "watchdog_ms": 10000}
    s16 = []
    for k in range(6):
        oo = dict(o, seed=7 + k)
        s16.append(Scn("st16q%d" % k, oo, [{"policy": "queue", "cap": 2, "stopafter": 0}],
                       [{"pid": 1, "src": 0, "kind": "try", "n": 10, "gap_us": 300, "retries": 2},
                        {"pid": 2, "src": 0, "kind": "block", "n": 10, "gap_us": 200, "retries": 0}]))
    for k in range(6):
        # conflating over a dictionary: effective deltas mixed with deltas that have no effect; timed from the graph's start
        oo = dict(o, seed=170 + k, end_us=300000, slice_us=300)
        s16.append(Scn("st16d%d" % k, oo, [{"policy": "confd", "cap": 0, "stopafter": 0}],
                       [{"pid": 1, "src": 0, "kind": "try", "n": 12, "gap_us": 150, "retries": 0, "fx": "110"},
                        {"pid": 2, "src": 0, "kind": "try", "n": 12, "gap_us": 0, "retries": 0, "fx": "1011"}], stopper=8000))
    s17 = []
    for k in range(6):
        oo = dict(o, seed=70 + k, end_us=6000, slice_us=300)
        s17.append(Scn("st17t%d" % k, oo, [{"policy": "queue", "cap": 0, "stopafter": 0}],
                       [{"pid": 1, "src": 0, "kind": "try", "n": 4, "gap_us": 700, "retries": 0}],
                       [{"tid": 0, "acts": [["rel.400", "wall.900"], ["rel.500"], ["wall.600"], ["rel.300"], ["wall.-30"], []]}],
                       stopper=4500))
    return s16, s17


def renumber(ev):
    for i, e in enumerate(ev):
        e["s"] = i + 1
    return ev


def find(ev, pred, start=0):
    for i in range(start, len(ev)):
        if pred(ev[i]):
            return i
    return -1


def is_h(e, *names):
    return e["e"] == "h" and e["p"] in names


# ------------------------------------------------------------------ C16 corruptions: each returns a corrupted copy or None
def c16_duplicate_delivery(ev):
    i = find(ev, lambda e: e["e"] == "dlv")
    j = find(ev, lambda e: e["e"] == "cycled", i)
    k = find(ev, lambda e: e["e"] == "cycle", j)
    if min(i, j, k) < 0:
        return None
    d = copy.deepcopy(ev[i])
    d["t"] = ev[k]["t"]
    return renumber(ev[:k + 1] + [d] + ev[k + 1:])


def c16_swap_two_deliveries(ev):
    i = find(ev, lambda e: e["e"] == "dlv")
    j = find(ev, lambda e: e["e"] == "dlv", i + 1)
    if min(i, j) < 0:
        return None
    ev[i]["vals"], ev[j]["vals"] = ev[j]["vals"], ev[i]["vals"]
    return ev


def c16_reorder_two_accepted_sends(ev):
    """two sends admitted in the order A, B are reported as admitted in the order B, A: the two calls exchange their values,
    the deliveries keep the real order"""
    def call_events(a):
        th = ev[a]["th"]
        c = max(i for i in range(a) if ev[i]["e"] == "call" and ev[i]["th"] == th)
        r = find(ev, lambda e: e["e"] == "ret" and e["th"] == th, a)
        return [c, a, r]
    delivered = [v for e in ev if e["e"] == "dlv" for v in e["vals"]]
    acc = [i for i, e in enumerate(ev) if is_h(e, "pq_accepted") and e["v"] in delivered]
    for a, b in zip(acc, acc[1:]):
        va, vb = ev[a]["v"], ev[b]["v"]
        for k in call_events(a):
            ev[k]["v"] = vb
        for k in call_events(b):
            ev[k]["v"] = va
        return ev
    return None


def c16_accept_after_stop(ev):
    i = find(ev, lambda e: is_h(e, "pq_stop_done"))
    if i < 0:
        return None
    extra = [{"e": "call", "s": 0, "th": 9, "src": 0, "v": 9000, "kind": "try"},
             {"e": "h", "s": 0, "th": 9, "p": "pq_accepted", "o": 0, "a": 1, "b": 1, "src": 0, "v": 9000},
             {"e": "ret", "s": 0, "th": 9, "src": 0, "v": 9000, "r": 1, "exc": 0}]
    return renumber(ev[:i + 1] + extra + ev[i + 1:])


def c16_exceed_capacity(ev):
    """two more admissions while the queue holds one value (capacity 2)"""
    i = find(ev, lambda e: is_h(e, "pq_accepted"))
    if i < 0:
        return None
    extra = []
    for n in (1, 2):
        extra += [{"e": "call", "s": 0, "th": 9, "src": 0, "v": 9000 + n, "kind": "try"},
                  {"e": "h", "s": 0, "th": 9, "p": "pq_accepted", "o": 0, "a": 1 + n, "b": 0, "src": 0, "v": 9000 + n},
                  {"e": "ret", "s": 0, "th": 9, "src": 0, "v": 9000 + n, "r": 1, "exc": 0}]
    return renumber(ev[:i + 1] + extra + ev[i + 1:])


def c16_result_flipped(ev):
    i = find(ev, lambda e: e["e"] == "ret" and e["r"] == 1)
    if i < 0:
        return None
    ev[i]["r"] = 0
    return ev


def c16_refused_while_empty(ev):
    i = find(ev, lambda e: is_h(e, "pq_accepted") and e["b"] == 1 and ev_kind(ev, e) == "try")
    if i < 0:
        return None
    th = ev[i]["th"]
    ev[i]["p"] = "pq_refused_full"
    j = find(ev, lambda e: e["e"] == "ret" and e["th"] == th, i)
    ev[j]["r"] = 0
    # the value is then never in the queue: drop its delivery and the mark that followed
    v = ev[i]["v"]
    return renumber([e for e in ev if not (e["e"] == "dlv" and v in e["vals"])][:j + 1])


def ev_kind(ev, h):
    c = [e for e in ev if e["e"] == "call" and e["th"] == h["th"] and e["s"] < h["s"]]
    return c[-1]["kind"] if c else ""


def c16_blocking_failed_without_stop(ev):
    i = find(ev, lambda e: is_h(e, "pq_accepted") and ev_kind(ev, e) == "block")
    if i < 0:
        return None
    th = ev[i]["th"]
    ev[i]["p"] = "pq_refused_stopped"
    j = find(ev, lambda e: e["e"] == "ret" and e["th"] == th, i)
    ev[j]["r"] = 0
    return renumber(ev[:j + 1])


def c16_two_in_one_cycle(ev):
    i = find(ev, lambda e: e["e"] == "dlv")
    j = find(ev, lambda e: e["e"] == "dlv", i + 1)
    if min(i, j) < 0:
        return None
    ev[j]["t"] = ev[i]["t"]
    return ev


def c16_times_decreasing(ev):
    i = find(ev, lambda e: e["e"] == "dlv")
    j = find(ev, lambda e: e["e"] == "dlv", i + 1)
    if min(i, j) < 0:
        return None
    ev[j]["t"] = ev[i]["t"] - 3
    return ev


def c16_drop_wake_after_send(ev):
    """a send is admitted and returns, the loop then sleeps a whole slice on it (the wake-up was lost)"""
    i = find(ev, lambda e: e["e"] in ("stopcall",) or is_h(e, "sc_begin_close"))
    w = max([k for k in range(i if i >= 0 else len(ev)) if is_h(ev[k], "rt_wait_begin")], default=-1)
    if w < 0:
        return None
    open_calls = {}
    for e in ev[:w]:
        if e["e"] == "call":
            open_calls[e["th"]] = True
        elif e["e"] == "ret":
            open_calls.pop(e["th"], None)
    if open_calls:
        return None
    extra = [{"e": "call", "s": 0, "th": 9, "src": 0, "v": 9000, "kind": "try"},
             {"e": "h", "s": 0, "th": 9, "p": "pq_accepted", "o": 0, "a": 1, "b": 1, "src": 0, "v": 9000},
             {"e": "ret", "s": 0, "th": 9, "src": 0, "v": 9000, "r": 1, "exc": 0}]
    tail = [copy.deepcopy(ev[w]), {"e": "h", "s": 0, "th": 0, "p": "rt_wait_end", "o": 1, "a": 0, "b": ev[w]["b"] + 400, "src": -1, "v": -1}]
    return renumber(ev[:w] + extra + tail + [{"e": "end", "msg": ""}])


def is_dict(ev):
    return any(e["e"] == "dlv" and e["keys"] for e in ev)


def c16d_delivery_misses_a_key(ev):
    """a merged state with two or more keys is delivered without one of them (not the newest value, so the prefix stays)"""
    order = [e["v"] for e in ev if is_h(e, "cf_accepted")]
    for e in ev:
        if e["e"] == "dlv" and len(e["vals"]) >= 2:
            k = min(range(len(e["vals"])), key=lambda i: order.index(e["vals"][i]))
            del e["vals"][k]
            del e["keys"][k]
            return ev
    return None


def c16d_value_under_other_key(ev):
    for e in ev:
        if e["e"] == "dlv" and len(e["vals"]) >= 2:
            e["keys"][0], e["keys"][1] = e["keys"][1], e["keys"][0]
            return ev
    return None


def c16d_tail(ev, sends):
    """the trace up to its last wait before any stop, then the given sends (value, fx), then the loop sits out a slice"""
    if not is_dict(ev):
        return None
    i = find(ev, lambda e: e["e"] in ("stopcall",) or is_h(e, "sc_begin_close"))
    w = max([k for k in range(i if i >= 0 else len(ev)) if is_h(ev[k], "rt_wait_begin")], default=-1)
    if w < 0:
        return None
    calls, undelivered = {}, set()
    for e in ev[:w]:
        if e["e"] == "call":
            calls[e["th"]] = e
        elif e["e"] == "ret":
            calls.pop(e["th"], None)
        elif is_h(e, "cf_accepted") and calls.get(e["th"], {}).get("fx") == 1:
            undelivered.add(e["v"])
        elif is_h(e, "cf_take"):
            undelivered.clear()
    if calls or undelivered:
        return None
    extra = []
    for v, fx in sends:
        extra += [{"e": "call", "s": 0, "th": 9, "src": 0, "v": v, "kind": "try", "fx": fx},
                  {"e": "h", "s": 0, "th": 9, "p": "cf_accepted", "o": 0, "a": fx, "b": 0, "src": 0, "v": v},
                  {"e": "ret", "s": 0, "th": 9, "src": 0, "v": v, "r": 1, "exc": 0}]
    tail = [copy.deepcopy(ev[w]), {"e": "h", "s": 0, "th": 0, "p": "rt_wait_end", "o": 1, "a": 0, "b": ev[w]["b"] + 400, "src": -1, "v": -1}]
    return renumber(ev[:w] + extra + tail + [{"e": "end", "msg": ""}])


def c16d_no_effect_delta_cancels_delivery(ev):
    """an effective delta, then one without effect, both accepted; nothing is delivered and the loop sleeps a slice"""
    return c16d_tail(ev, [(9000, 1), (9001, 0)])


def c16d_no_effect_delta_alone(ev):
    """control: only a delta without effect is accepted before the loop sleeps - there is nothing to deliver"""
    return c16d_tail(ev, [(9001, 0)])


# ------------------------------------------------------------------ C17 corruptions
def c17_pushed_value_missed(ev):
    """a value is admitted by the push source and its send returns, the loop then sits out a whole wait on it"""
    i = find(ev, lambda e: e["e"] in ("stopcall",))
    w = max([k for k in range(i if i >= 0 else len(ev)) if is_h(ev[k], "rt_wait_begin")], default=-1)
    if w < 0:
        return None
    open_calls, qn = {}, 0
    for e in ev[:w]:
        if e["e"] == "call":
            open_calls[e["th"]] = True
        elif e["e"] == "ret":
            open_calls.pop(e["th"], None)
        elif is_h(e, "pq_accepted"):
            qn += 1
        elif is_h(e, "pq_pop"):
            qn -= 1
    if open_calls or qn:
        return None
    extra = [{"e": "call", "s": 0, "th": 9, "src": 0, "v": 9000, "kind": "try", "fx": 1},
             {"e": "h", "s": 0, "th": 9, "p": "pq_accepted", "o": 0, "a": 1, "b": 1, "src": 0, "v": 9000},
             {"e": "ret", "s": 0, "th": 9, "src": 0, "v": 9000, "r": 1, "exc": 0}]
    tail = [copy.deepcopy(ev[w]), {"e": "h", "s": 0, "th": 0, "p": "rt_wait_end", "o": 1, "a": 0, "b": ev[w]["b"] + 300, "src": -1, "v": -1}]
    return renumber(ev[:w] + extra + tail + [{"e": "end", "msg": ""}])


def c17_pushed_value_in_flight(ev):
    """control: the same, but the send that admitted the value has not returned yet - it may still be about to wake the loop"""
    out = c17_pushed_value_missed(ev)
    if out is None:
        return None
    k = find(out, lambda e: e["e"] == "ret" and e["th"] == 9)
    return renumber(out[:k] + out[k + 1:-1] + [out[k], out[-1]])


def c17_cycle_before_wall(ev):
    prev = None
    for e in ev:
        if e["e"] == "cycle":
            if prev is not None and e["t"] > prev + 1:
                e["w"] = e["t"] - 5
                return ev
            prev = e["t"]
    return None


def c17_drop_wake_after_notify(ev):
    """the flag is set under the mutex while the loop waits, yet the loop starts another wait (it slept through the notify)"""
    for i, e in enumerate(ev):
        if is_h(e, "rt_mark_push_set"):
            b = max([k for k in range(i) if is_h(ev[k], "rt_wait_begin", "rt_compute_next")], default=-1)
            if b >= 0 and ev[b]["p"] == "rt_wait_begin":
                return renumber(ev[:i + 1] + [copy.deepcopy(ev[b])] + ev[i + 1:])
    return None


def c17_cycle_repeated(ev):
    i = find(ev, lambda e: e["e"] == "cycled")
    c = find(ev, lambda e: e["e"] == "cycle")
    if min(i, c) < 0 or c > i:
        return None
    return renumber(ev[:i + 1] + [copy.deepcopy(ev[c]), copy.deepcopy(ev[i])] + ev[i + 1:])


def c17_skip_scheduled_time(ev):
    """the evaluation of the timer at its scheduled time is removed: a later cycle passes over the pending time"""
    tevs = [i for i, e in enumerate(ev) if e["e"] == "tev"]
    for i in tevs[:-1]:
        j = find(ev, lambda e: e["e"] == "cycled", i)
        # the requests issued in that evaluation go too (they were never made)
        return renumber([e for k, e in enumerate(ev) if not (i <= k < j and e["e"] in ("tev", "req"))])
    return None


def c17_drop_last_wakeup(ev):
    """the last evaluation of the timer before the end (its whole cycle) is removed and the run returns without a stop request"""
    if any(e["e"] == "stopcall" for e in ev):
        ev = [e for e in ev if e["e"] not in ("stopcall", "stopret") and not is_h(e, "rt_stop")]
        ev[find(ev, lambda e: e["e"] == "runret")]["w"] = 10 ** 6
    tevs = [i for i, e in enumerate(ev) if e["e"] == "tev"]
    if not tevs:
        return None
    i = tevs[-1]
    c = max(k for k in range(i) if ev[k]["e"] == "cycle")
    j = find(ev, lambda e: e["e"] == "cycled", i)
    return renumber(ev[:c] + [e for e in ev[j + 1:] if e["e"] not in ("cycle", "cycled", "dlv", "tev", "req")])


def c17_alarm_dropped(ev):
    i = find(ev, lambda e: e["e"] == "req" and e["kind"] == "wall")
    if i < 0:
        return None
    ev[i]["eff"] = -1
    return ev


def c17_alarm_wrong_time(ev):
    i = find(ev, lambda e: e["e"] == "req" and e["kind"] == "wall" and e["want"] > e["w1"])
    if i < 0:
        return None
    ev[i]["eff"] = ev[i]["want"] + 7
    return ev


def c17_ran_on_after_stop(ev):
    i = find(ev, lambda e: e["e"] == "stopret")
    c = find(ev, lambda e: e["e"] == "cycle")
    if min(i, c) < 0:
        return None
    last = max(e["t"] for e in ev if e["e"] == "cycle")
    extra = []
    for n in (1, 2):
        x = copy.deepcopy(ev[c])
        x["t"], x["w"] = last + 10 * n, last + 10 * n + 1
        extra += [x, {"e": "cycled", "s": 0, "th": 0, "t": x["t"]}]
    rest = [e for e in ev[i + 1:] if e["e"] not in ("cycle", "cycled", "tev", "req", "dlv")]
    return renumber(ev[:i + 1] + extra + rest)


def c17_evaluated_at_unscheduled_time(ev):
    i = find(ev, lambda e: e["e"] == "tev")
    if i < 0:
        return None
    c = max(k for k in range(i) if ev[k]["e"] == "cycle")
    # the whole cycle (and the timer's evaluation in it) happens 3 us early
    prev = [e["t"] for e in ev[:c] if e["e"] == "cycle"]
    if prev and ev[c]["t"] - 3 <= prev[-1]:
        return None
    t = ev[i]["t"]
    for k in range(c, len(ev)):
        if ev[k]["e"] in ("cycle", "cycled", "tev") and ev[k]["t"] == t:
            ev[k]["t"] = t - 3
        if ev[k]["e"] == "cycled":
            break
    return ev


def c17_returned_early(ev):
    if any(e["e"] == "stopcall" for e in ev):
        return None
    r = find(ev, lambda e: e["e"] == "runret")
    last = [e["t"] for e in ev if e["e"] == "cycle"]
    if r < 0 or not last:
        return None
    ev[r]["w"] = last[-1] + 2
    return ev


C16 = [("duplicate a delivery (same value again in a later cycle)", c16_duplicate_delivery, "C16.value_delivered_twice"),
       ("exchange the values of two deliveries", c16_swap_two_deliveries, "C16.delivered_not_prefix_of_accepted"),
       ("reorder two accepted sends (admission order B,A instead of A,B)", c16_reorder_two_accepted_sends, "C16.delivered_not_prefix_of_accepted"),
       ("add an accept after stop", c16_accept_after_stop, "C16.accepted_after_stop"),
       ("two more admissions into a queue of capacity 2", c16_exceed_capacity, "C16.capacity_exceeded"),
       ("a send that was admitted reports false", c16_result_flipped, "C16.send_returned_false_but_the_value_was_admitted"),
       ("try_send refused 'full' while the queue is empty", c16_refused_while_empty, "C16.send_refused_while_not_full_and_not_stopped"),
       ("send_blocking fails although nothing has stopped", c16_blocking_failed_without_stop, "C16.blocking_send_failed_without_stop"),
       ("two deliveries at the same evaluation time", c16_two_in_one_cycle, "C16.two_values_in_one_cycle"),
       ("a delivery at an earlier time than the previous one", c16_times_decreasing, "C16.delivery_times_not_increasing"),
       ("drop the wake after a send: the loop sleeps a slice on an accepted value", c16_drop_wake_after_send, "C16.accepted_value_never_delivered_although_run_continued"),
       ("dictionary: a delivered merged state lacks one of its keys", c16d_delivery_misses_a_key, "C16.delivered_not_the_merged_latest_state_of_the_accepted_deltas"),
       ("dictionary: two delivered values exchange their keys", c16d_value_under_other_key, "C16.delivered_value_under_another_key"),
       ("dictionary: effective delta, then a no-effect delta, nothing delivered, loop sleeps", c16d_no_effect_delta_cancels_delivery, "C16.accepted_value_never_delivered_although_run_continued"),
       ("dictionary, control: only a no-effect delta accepted, loop sleeps (must be accepted)", c16d_no_effect_delta_alone, "")]
C17 = [("make a cycle precede its wall time", c17_cycle_before_wall, "C17.evaluated_before_wall_clock_reached_T"),
       ("drop a wake after a notify: flag set while waiting, loop sleeps again", c17_drop_wake_after_notify, "C17.notification_lost_while_waiting"),
       ("repeat a cycle at the same evaluation time", c17_cycle_repeated, "C17.time_not_strictly_increasing"),
       ("remove the timer's evaluation at a scheduled time", c17_skip_scheduled_time, "C17.scheduled_time_skipped"),
       ("remove the last scheduled evaluation before the end", c17_drop_last_wakeup, "C17.wakeup_dropped_before_end|C17.alarm_dropped"),
       ("a wall-clock alarm is not registered", c17_alarm_dropped, "C17.alarm_dropped"),
       ("a future wall-clock alarm is registered 7 us late", c17_alarm_wrong_time, "C17.alarm_registered_at_the_wrong_time"),
       ("two more cycles after a stop request returned", c17_ran_on_after_stop, "C17.ran_on_after_stop_request"),
       ("the timer's cycle happens 3 us before its scheduled time", c17_evaluated_at_unscheduled_time, "C17.evaluated_at_a_time_never_scheduled"),
       ("run() returns before the end time without a stop request", c17_returned_early, "C17.run_returned_before_end_time_without_stop"),
       ("a pushed value is admitted, its send returns, the loop sits out a wait on it", c17_pushed_value_missed, "C17.pushed_value_missed_the_loop_sat_out_a_wait_on_it"),
       ("control: the same while the admitting send is still in flight (must be accepted)", c17_pushed_value_in_flight, "")]


def table(pid, scns, corruptions):
    module, points = C.SPEC[pid]
    traces = hg.run_driver("rt", [s.text() for s in scns], timeout_per=15.0)
    base = []
    for s, tr in zip(scns, traces):
        if isinstance(tr, dict) or tr[-1]["e"] != "end":
            raise hg.MachineryError("base scenario %s did not run: %s" % (s.name, str(tr)[-300:]))
        base.append((s, C.strip(tr, points)))
    items = [{"id": "base%d" % k, "prog": s.prog(), "ev": ev} for k, (s, ev) in enumerate(base)]
    rows = []
    for n, (what, fn, want) in enumerate(corruptions):
        made = None
        for s, ev in base:
            out = fn(copy.deepcopy(ev))
            if out is not None:
                made = (s, out)
                break
        if made is None:
            rows.append((what, want, "(no base trace offers the pattern)", False))
            continue
        items.append({"id": "c%d" % n, "prog": made[0].prog(), "ev": made[1]})
        rows.append([what, want, None, None])
    verdicts, _, _ = tracecheck.validate(module, module + ".cfg", items, pid.lower() + "self", keep=C.KEEP, shards=1)
    ok = True
    for k in range(len(base)):
        if verdicts["base%d" % k][1]:
            print("uncorrupted trace base%d is rejected: %s" % (k, verdicts["base%d" % k][1]))
            ok = False
    for n, row in enumerate(rows):
        if row[2] is None:
            got = verdicts["c%d" % n][1]
            row[2] = got or "(accepted)"
            row[3] = got in row[1].split("|")
        ok = ok and row[3]
    return rows, ok


def model_mutants():
    rows = []
    for mu, want in (("wake_after_push", "NoSleepOnPending"), ("no_remark", "NoSleepOnPending"), ("late_reset", "NoSleepOnPending"), ("full_gt", "CapacityBound"),
                     ("late_close", "DecisionsOK")):
        r = hg.tlc("MCPushQueue", "PushQueue.mutant.cfg", env={"PQ_MUTANT": mu}, timeout=1200, workers=8)
        m = re.search(r"Invariant (\w+) is violated", r.violation or "")
        got = m.group(1) if m else "(no violation)"
        rows.append(("PushQueue.tla mutant " + mu, want, got, got == want))
    # the pending flag of the conflating policy follows the last delta only (dictionary output, deltas without effect)
    r = hg.tlc("MCPushQueue", "PushQueue.mutantd.cfg", env={"PQ_MUTANT": "pending_last"}, timeout=1200, workers=8)
    m = re.search(r"Invariant (\w+) is violated", r.violation or "")
    got = m.group(1) if m else "(no violation)"
    rows.append(("PushQueue.tla mutant pending_last (dictionary source)", "NoSleepOnPending", got, got == "NoSleepOnPending"))
    r = hg.tlc("MCRealTime", "RealTime.mutant.cfg", timeout=1200, workers=8)
    m = re.search(r"Invariant (\w+) is violated", r.violation or "")
    got = m.group(1) if m else "(no violation)"
    rows.append(("RealTime.tla mutant: flags set and notified without the mutex", "DecisionsOK|NoLostNotification", got, got in ("DecisionsOK", "NoLostNotification")))
    return rows


def main():
    hg.build(("rt",))
    s16, s17 = base_scenarios()
    allok = True
    out = []
    for pid, scns, cors in (("C16", s16, C16), ("C17", s17, C17)):
        rows, ok = table(pid, scns, cors)
        allok = allok and ok
        out += rows
    if "--no-models" not in sys.argv:
        rows = model_mutants()
        allok = allok and all(r[3] for r in rows)
        out += rows
    w = max(len(r[0]) for r in out)
    print("%-*s | %-58s | %-58s | %s" % (w, "corruption", "expected clause", "verdict", "ok"))
    print("-" * (w + 130))
    for what, want, got, ok in out:
        print("%-*s | %-58s | %-58s | %s" % (w, what, want, got, "yes" if ok else "NO"))
    print("rt_corrupt: %s" % ("all corruptions rejected by the expected clause" if allok else "FAILED"))
    return 0 if allok else 1


if __name__ == "__main__":
    hg.main_wrapper(main)
