// Example demo program for the build kit (same style as tests/cpp/*.cpp, without Catch2):
//   make -C <kit> -j16 demo SRC=<this file> OUT=/tmp/mut/<name>/demo && /tmp/mut/<name>/demo
#include <hgraph/lib/std/std_operators.h>
#include <hgraph/lib/testing/check_output.h>
#include <hgraph/lib/testing/eval_node.h>
#include <hgraph/lib/testing/record_replay.h>
#include <hgraph/lib/testing/runtime_support.h>
#include <hgraph/types/graph_wiring.h>
#include <hgraph/types/static_node.h>
#include <hgraph/types/subgraph_wiring.h>
#include <iostream>

using namespace hgraph;
using namespace hgraph::testing;

struct AddOne
{
    static constexpr auto name = "add_one";
    static void           eval(In<"x", TS<Int>> x, Out<TS<Int>> out) { out.set(x.value() + 1); }
};
struct G
{
    static constexpr auto name = "g";
    static void           compose(Wiring &w)
    {
        auto x = wire<stdlib::replay_impl, TS<Int>>(w, Str{"x"});          // replays values seeded in the global state
        wire<stdlib::dense_record_impl>(w, wire<AddOne>(w, x), Str{"out"});  // records every tick (cycle-aligned)
    }
};
int main()
{
    stdlib::register_standard_operators();
    GraphBuilder gb = build_graph<G>();
    set_replay_values<Int>(gb.global_state(), "x", values<Int>(5, none, 7));   // one entry per engine cycle, none = no tick
    GraphExecutorValue ex  = run_graph(std::move(gb), MIN_ST, MAX_ET);
    auto               got = get_recorded_values<Int>(ex.view().graph().global_state(), "out");
    int                rc  = 0;
    auto               want = values<Int>(6, none, 8);
    if (got.size() != want.size()) { rc = 1; }
    for (std::size_t i = 0; i < got.size() && i < want.size(); ++i)
    {
        std::cout << i << ": " << (got[i] ? std::to_string(*got[i]) : "-") << "\n";
        if (got[i] != want[i]) { rc = 1; }
    }
    std::cout << (rc == 0 ? "PASS" : "FAIL") << "\n";
    return rc;
}
