// Minimal stand-in for Catch2 (not installed): CHECK / REQUIRE print failures and set hgv_demo_failed.
#pragma once
#include <cstdlib>
#include <iostream>
inline int hgv_demo_failed = 0;
#define CHECK(...) do { if (!(__VA_ARGS__)) { std::cout << "CHECK failed: " #__VA_ARGS__ << " (" << __FILE__ << ":" << __LINE__ << ")\n"; hgv_demo_failed = 1; } } while (0)
#define CHECK_FALSE(...) CHECK(!(__VA_ARGS__))
#define REQUIRE(...) do { if (!(__VA_ARGS__)) { std::cout << "REQUIRE failed: " #__VA_ARGS__ << " (" << __FILE__ << ":" << __LINE__ << ")\n"; std::exit(1); } } while (0)
#define REQUIRE_FALSE(...) REQUIRE(!(__VA_ARGS__))
#define INFO(x) do { } while (0)
#define CAPTURE(...) do { } while (0)
#define UNSCOPED_INFO(x) do { } while (0)
#define FAIL(x) do { std::cout << "FAIL: " << x << "\n"; std::exit(1); } while (0)
#define FAIL_CHECK(x) do { std::cout << "FAIL: " << x << "\n"; hgv_demo_failed = 1; } while (0)
#define SUCCEED(...) do { } while (0)
#define CHECK_THROWS_AS(expr, ex) do { bool t_ = false; try { (void)(expr); } catch (const ex &) { t_ = true; } catch (...) { } CHECK(t_); } while (0)
#define CHECK_THROWS(expr) do { bool t_ = false; try { (void)(expr); } catch (...) { t_ = true; } CHECK(t_); } while (0)
#define CHECK_NOTHROW(expr) do { try { (void)(expr); } catch (...) { CHECK(false); } } while (0)
