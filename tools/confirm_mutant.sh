#!/bin/sh
# Confirms a delivered regression in its own workspace: demo passes on the unchanged worktree, fails with the patch applied.
# usage: tools/confirm_mutant.sh <Cxx> <A|B>   -> prints CONFIRMED / NOT-CONFIRMED <reason>
pid="$1"; v="$2"; W=/tmp/mut/${MUT_PREFIX:-m_}$pid; D=$W/out/$v
[ -f "$D/patch.diff" ] || { echo "NOT-CONFIRMED $pid/$v no patch"; exit 1; }
git -C "$W/wt" checkout -- . >/dev/null 2>&1
make -C "$W/kit" -j8 demo SRC="$D/demo.cpp" OUT="$W/confirm_demo" >"$W/confirm_build0.log" 2>&1 || { echo "NOT-CONFIRMED $pid/$v demo does not build on unchanged tree"; exit 1; }
"$W/confirm_demo" >"$W/confirm_run0.log" 2>&1; rc0=$?
P="$D/patch.diff"; [ -f "$D/patch_orig.diff" ] && P="$D/patch_orig.diff"   # a patch ported to a later /repo HEAD keeps its original for the workspace
git -C "$W/wt" apply "$P" || { echo "NOT-CONFIRMED $pid/$v patch does not apply"; exit 1; }
# header edits: the seeded dependency files may not see them - force the demo to be recompiled, and the library objects of edited .cpp files
for f in $(git -C "$W/wt" diff --name-only); do touch "$W/wt/$f"; done
make -C "$W/kit" -j8 demo SRC="$D/demo.cpp" OUT="$W/confirm_demo" >"$W/confirm_build1.log" 2>&1; b1=$?
if [ $b1 -ne 0 ]; then git -C "$W/wt" checkout -- .; echo "NOT-CONFIRMED $pid/$v does not compile with the patch"; exit 1; fi
timeout 120 "$W/confirm_demo" >"$W/confirm_run1.log" 2>&1; rc1=$?
git -C "$W/wt" checkout -- . >/dev/null 2>&1
for f in $(git -C "$W/wt" status --porcelain | awk '{print $2}'); do :; done
if [ $rc0 -eq 0 ] && [ $rc1 -ne 0 ]; then echo "CONFIRMED $pid/$v unchanged rc=0 patched rc=$rc1: $(tail -1 "$W/confirm_run1.log" | cut -c1-100)"; else echo "NOT-CONFIRMED $pid/$v unchanged rc=$rc0 patched rc=$rc1"; fi
# rebuild the library from the clean tree so the workspace is back to its initial state
for f in $(cd "$W/wt" && git diff --name-only HEAD 2>/dev/null); do :; done
