#!/usr/bin/env python3
"""Stores confirmed changes of a round under seeded/<Cxx>-<v>/ and regenerates seeded/README.md from every seeded/*/meta.json.
usage: tools/add_seeded.py [<prefix> <Cxx>-<v> ...]   (without arguments: only regenerate the README)"""
import glob, json, os, re, shutil, sys
V = os.path.dirname(os.path.dirname(os.path.abspath(__file__)))
S = os.path.join(V, "seeded")
args = sys.argv[1:]
if args:
    pre = args[0]
    confirmed = {}
    f = os.path.join(V, "out", "confirm_%s.log" % pre)
    if os.path.exists(f):
        for l in open(f):
            m = re.match(r"(CONFIRMED|NOT-CONFIRMED) (C\d+)/([A-Z]) (.*)", l.strip())
            if m:
                confirmed["%s-%s" % (m.group(2), m.group(3))] = (m.group(1) == "CONFIRMED", m.group(4))
    for mid in args[1:]:
        pid, v = mid.split("-")
        src = "/tmp/mut/%s%s/out/%s" % (pre, pid, v)
        ok, info = confirmed.get(mid, (False, ""))
        if not ok or not os.path.exists(src):
            print("skip %s (not confirmed)" % mid)
            continue
        dst = os.path.join(S, mid)
        os.makedirs(dst, exist_ok=True)
        for fn in ("patch.diff", "demo.cpp"):
            shutil.copy(os.path.join(src, fn), os.path.join(dst, fn))
        meta = json.load(open(os.path.join(src, "meta.json")))
        res = {}
        rf = os.path.join(S, "results", mid + ".txt")
        if os.path.exists(rf):
            for l in open(rf):
                m = re.match(r"(C\d+) exit=(\d+) (\d+) violation", l.strip())
                if m:
                    res[m.group(1)] = int(m.group(2))
        meta["breaks_property"] = pid
        meta["confirmed"] = {"by": "tools/confirm_mutant.sh in the workspace the change was written in: demo exits 0 on the unchanged worktree, non-zero with patch.diff applied (library and demo rebuilt)", "result": info}
        meta["checks_run"] = {c: ("VIOLATION reported (exit 1)" if rc == 1 else "not detected (exit 0)" if rc == 0 else "exit %d" % rc) for c, rc in sorted(res.items())}
        meta["evaluated_with"] = "tools/try_mutant.sh seeded/%s/patch.diff quick %s  (scratch worktree of /repo HEAD + scratch build, nothing committed)" % (mid, " ".join(sorted(res)))
        json.dump(meta, open(os.path.join(dst, "meta.json"), "w"), indent=1)
rows = []
for mf in sorted(glob.glob(os.path.join(S, "C*-*", "meta.json"))):
    mid = os.path.basename(os.path.dirname(mf))
    meta = json.load(open(mf))
    pid = mid.split("-")[0]
    res = dict(meta.get("checks_run", {}))
    rf = os.path.join(S, "results", mid + ".txt")     # later runs (after strengthening) override what meta.json recorded
    if os.path.exists(rf):
        for l in open(rf):
            m = re.match(r"(C\d+) exit=(\d+) (\d+) violation", l.strip())
            if m:
                res[m.group(1)] = "VIOLATION reported (exit 1)" if m.group(2) == "1" else "not detected (exit 0)" if m.group(2) == "0" else "exit " + m.group(2)
        meta["checks_run"] = res
        json.dump(meta, open(mf, "w"), indent=1)
    caught = sorted(c for c, r in res.items() if r.startswith("VIOLATION"))
    rows.append((mid, meta.get("title", "")[:110], ", ".join(meta.get("files", []))[:70], ", ".join(caught) or "-", "yes" if pid in caught else ("other check" if caught else "NO")))
with open(os.path.join(S, "README.md"), "w") as f:
    f.write("# Seeded regressions\n\nWritten by independent sub-agents that saw only the property text and a scratch worktree (nothing from /verif).\n"
            "Each directory: `patch.diff`, `demo.cpp` (passes unchanged, fails with the patch - confirmed), `meta.json`.\n"
            "Evaluate one: `tools/try_mutant.sh seeded/<id>/patch.diff quick <Cxx> ...` (never committed to /repo).\n\n"
            "| id | change | files | caught by (quick tier) | own property's check |\n|---|---|---|---|---|\n")
    for r in rows:
        f.write("| %s | %s | %s | %s | %s |\n" % r)
    own = sum(1 for r in rows if r[4] == "yes")
    anyc = sum(1 for r in rows if r[3] != "-")
    f.write("\n%d confirmed changes; %d caught by the check of the property they target, %d by at least one check.\n" % (len(rows), own, anyc))
print("seeded: %d rows" % len(rows))
