#!/bin/sh
# Creates an isolated workspace for an independent "break this property" sub-agent:
#   /tmp/mut/<name>/wt        git worktree of /repo HEAD (the agent edits here)
#   /tmp/mut/<name>/kit       a self-contained build kit (Makefile, stubs) - nothing else from /verif
#   /tmp/mut/<name>/build     objects pre-seeded from /verif/build so the first build is incremental
# usage: tools/mk_mutant_ws.sh <name>
set -e
name="$1"; W=/tmp/mut/$name
rm -rf "$W"; mkdir -p "$W/kit" "$W/build"
git -C /repo worktree prune
git -C /repo worktree add --detach "$W/wt" HEAD >/dev/null 2>&1
# sources older than the seeded objects, so only what the agent touches is rebuilt
find "$W/wt" -type f \( -name '*.cpp' -o -name '*.h' -o -name '*.in' -o -name '*.toml' \) -exec touch -d '2020-01-01' {} +
cp -a /verif/build/obj "$W/build/obj"
cp -a /verif/build/gen "$W/build/gen"
find "$W/build/obj" -name '*.d' -exec sed -i "s#/repo/#$W/wt/#g; s#/verif/build/gen#$W/build/gen#g; s#/verif/build/obj#$W/build/obj#g" {} +
touch -d '2020-01-02' "$W/build/gen/hgraph/version.h"
cp /verif/harness/gen_version.py /verif/harness/gen_stubs.py /verif/harness/stubs.cpp "$W/kit/"
mkdir -p "$W/kit/include/catch2"
cp /verif/tools/kit_templates/catch2/catch_test_macros.hpp "$W/kit/include/catch2/"
sed "s#/tmp/mut/<name>#$W#g" /verif/tools/kit_templates/example_demo.cpp > "$W/kit/example_demo.cpp"
cat > "$W/kit/Makefile" <<MK
# Build kit: compiles the worktree into a static library and links demo programs against it.
#   make -C $W/kit -j16 lib                 -> $W/build/libhg.a   (incremental; a full rebuild takes ~5 min)
#   make -C $W/kit -j16 demo SRC=/path/demo.cpp OUT=/path/demo   -> links one demo program
REPO := $W/wt
B    := $W/build
SITE := /venv/lib/python3.12/site-packages
CXX  := g++
CXXFLAGS := -std=c++2b -O1 -fPIC -w -DHGRAPH_STATIC_DEFINE -DFMT_HEADER_ONLY -DSPDLOG_FMT_EXTERNAL -MMD -MP \\
            -I\$(B)/gen -I\$(REPO)/include -I\$(REPO)/include/third_party -I\$(REPO)/src -I\$(SITE)/include -I\$(SITE)/pyarrow/include -I$W/kit/include
LDFLAGS  := -L\$(SITE)/pyarrow -l:libarrow_compute.so.2500 -l:libarrow.so.2500 -lpthread -Wl,-rpath,\$(SITE)/pyarrow
# these 5 translation units need libraries that are not installed (simdjson, tzdb); their symbols are stubbed
EXCLUDE := src/hgraph/types/value/json_codec.cpp src/hgraph/types/time_zone_provider.cpp src/hgraph/types/temporal.cpp \\
           src/hgraph/lib/std/operators/conversion_impl.cpp src/hgraph/lib/std/operators/json_impl.cpp
SRCS := \$(filter-out \$(EXCLUDE),\$(shell cd \$(REPO) && find src -name '*.cpp' -not -path 'src/hgraph/python/*' | sort))
OBJS := \$(patsubst %.cpp,\$(B)/obj/%.o,\$(SRCS))
lib: \$(B)/libhg.a \$(B)/stubs.o \$(B)/autostubs.o
\$(B)/obj/%.o: \$(REPO)/%.cpp
	@mkdir -p \$(dir \$@)
	\$(CXX) \$(CXXFLAGS) -c \$< -o \$@
\$(B)/libhg.a: \$(OBJS)
	@rm -f \$@
	ar rcs \$@ \$(OBJS)
\$(B)/stubs.o: $W/kit/stubs.cpp
	\$(CXX) \$(CXXFLAGS) -c \$< -o \$@
\$(B)/autostubs.s: \$(B)/libhg.a \$(B)/stubs.o
	python3 $W/kit/gen_stubs.py \$@ -- \$(CXX) -Wl,--whole-archive \$(B)/libhg.a -Wl,--no-whole-archive \$(B)/stubs.o \$(LDFLAGS)
\$(B)/autostubs.o: \$(B)/autostubs.s
	\$(CXX) -c \$< -o \$@
demo: lib
	\$(CXX) \$(CXXFLAGS) -c \$(SRC) -o \$(OUT).o
	\$(CXX) -o \$(OUT) \$(OUT).o \$(B)/stubs.o \$(B)/autostubs.o -Wl,--start-group \$(B)/libhg.a -Wl,--end-group \$(LDFLAGS)
-include \$(OBJS:.o=.d)
.PHONY: lib demo
MK
echo "$W"
