#!/bin/sh
# usage: tools/mk_round.sh <prefix> <variantA> <variantB> <Cxx>...   - workspaces + prompts for one round of independent sub-agents
# writes /tmp/mut/<prefix><Cxx>/PROMPT.txt (the text handed to the sub-agent; nothing from /verif besides the property text
# and the one-line titles of the changes that already exist for it)
pre="$1"; va="$2"; vb="$3"; shift 3
for pid in "$@"; do
  /verif/tools/mk_mutant_ws.sh "$pre$pid" >/dev/null
  W=/tmp/mut/$pre$pid
  python3 - "$pid" "$pre" "$va" "$vb" <<'PY'
import json, sys, glob, os
pid, pre, va, vb = sys.argv[1:5]
W = "/tmp/mut/%s%s" % (pre, pid)
prop = [json.loads(l) for l in open("/verif/properties.jsonl") if json.loads(l)["id"] == pid][0]
text = "%s - %s\n%s\nCode the property is anchored in: %s" % (pid, prop.get("title", ""), prop["statement"], ", ".join(prop.get("anchors", {}).get("files", [])))
open(W + "/PROPERTY.txt", "w").write(text + "\n")
t = open("/verif/tools/mutant_prompt_template.txt").read()
t = t.replace("/tmp/mut/m_@PID@", W).replace("@PID@", pid).replace("@PROPERTY@", text)
t = t.replace("A/patch.diff", va + "/patch.diff").replace("A/demo.cpp", va + "/demo.cpp").replace("A/meta.json", va + "/meta.json")
t = t.replace("B/patch.diff", vb + "/patch.diff").replace("B/demo.cpp", vb + "/demo.cpp").replace("B/meta.json", vb + "/meta.json")
t = t.replace("TWO different changes (A and B)", "TWO different changes (%s and %s)" % (va, vb)).replace("A and B must differ", "%s and %s must differ" % (va, vb)).replace("ONLY change A applied", "ONLY change %s applied" % va).replace("summarising A and B", "summarising %s and %s" % (va, vb))
titles = []
for m in sorted(glob.glob("/verif/seeded/%s-*/meta.json" % pid)):
    titles.append("- " + json.load(open(m)).get("title", "")[:200])
if titles:
    t += "\n\nChanges that ALREADY EXIST for this property (do something different: another mechanism, another part of the property's scope sentence, preferably another file):\n" + "\n".join(titles) + "\n"
open(W + "/PROMPT.txt", "w").write(t)
PY
  mkdir -p "$W/out" "$W/work"
  echo "$W"
done
