#!/bin/sh
# Evaluate a seeded change against checks WITHOUT touching /repo: a scratch worktree + a scratch build dir seeded from /verif/build.
# usage: tools/try_mutant.sh <patch.diff> <tier> <Cxx> [<Cxx> ...]      (prints one line per check; leaves nothing behind)
set -e
patch="$(realpath "$1")"; tier="$2"; shift 2
tag=$(basename "$(dirname "$patch")")-$$
WT=/tmp/mutrepo-$tag; B=/verif/out/mutbuild-$tag
cleanup() { git -C /repo worktree remove --force "$WT" >/dev/null 2>&1 || true; rm -rf "$WT" "$B"; git -C /repo worktree prune; }
trap cleanup EXIT
git -C /repo worktree prune
git -C /repo worktree add --detach "$WT" HEAD >/dev/null 2>&1
find "$WT" -type f \( -name '*.cpp' -o -name '*.h' -o -name '*.in' -o -name '*.toml' \) -exec touch -d '2020-01-01' {} +
mkdir -p "$B"
cp -a /verif/build/obj /verif/build/hobj /verif/build/gen "$B"/
cp -a /verif/build/libhgv.a /verif/build/autostubs.s /verif/build/autostubs.o "$B"/ 2>/dev/null || true
cp -a /verif/build/hgv_* "$B"/ 2>/dev/null || true
find "$B" -name '*.d' -exec sed -i "s#/repo/#$WT/#g; s#/verif/build/#$B/#g" {} +
touch -d '2020-01-02' "$B/gen/hgraph/version.h"
if ! git -C "$WT" apply "$patch"; then echo "PATCH-DOES-NOT-APPLY $patch"; exit 3; fi
if [ -n "$MUT_CMD" ]; then HGV_REPO="$WT" HGV_BUILD="$B" VERIF_EVID_DIR="$B/evidence" sh -c "$MUT_CMD"; exit 0; fi
for pid in "$@"; do
  out=$(HGV_REPO="$WT" HGV_BUILD="$B" VERIF_EVID_DIR="$B/evidence" /verif/check "$pid" --tier "$tier" 2>&1) && st=0 || st=$?
  echo "$pid exit=$st $(echo "$out" | grep -c '^VIOLATION') violation line(s); $(echo "$out" | tail -1 | cut -c1-140)"
  echo "$out" | grep -A1 '^VIOLATION' | head -4 | cut -c1-260
done
