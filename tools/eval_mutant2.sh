#!/bin/sh
# usage: tools/eval_mutant2.sh <Cxx> <A|B> <check> [<check>...]  - evaluates one delivered regression and appends the
# result lines to seeded/results/<Cxx>-<A|B>.txt
pid="$1"; v="$2"; shift 2
p=/tmp/mut/${MUT_PREFIX:-m_}$pid/out/$v/patch.diff
[ -f "$p" ] || p=/verif/seeded/$pid-$v/patch.diff
[ -f "$p" ] || { echo "no patch for $pid/$v"; exit 1; }
/verif/tools/try_mutant.sh "$p" quick "$@" 2>&1 | grep -E "exit=|PATCH" | tee -a /verif/seeded/results/$pid-$v.txt
