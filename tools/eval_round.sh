#!/bin/sh
# usage: tools/eval_round.sh <prefix> <Cxx> <variant> [<check>...]   confirm a delivered change in its workspace, then run the quick
# tier of the named checks (default: the property's own) against it in a scratch worktree; results -> seeded/results/<Cxx>-<v>.txt
pre="$1"; pid="$2"; v="$3"; shift 3
checks="${*:-$pid}"
mkdir -p /verif/seeded/results /verif/out
c=$(MUT_PREFIX=$pre /verif/tools/confirm_mutant.sh "$pid" "$v" 2>&1 | tail -1)
echo "$c" | tee -a /verif/out/confirm_$pre.log
case "$c" in CONFIRMED*) ;; *) exit 1 ;; esac
/verif/tools/try_mutant.sh /tmp/mut/$pre$pid/out/$v/patch.diff quick $checks 2>&1 | grep -E "exit=|PATCH|VIOLATION" | cut -c1-300 | tee -a /verif/seeded/results/$pid-$v.txt
