#!/bin/sh
# usage: tools/eval_mutants.sh <Cxx> <extra checks...>   evaluates /tmp/mut/m_<Cxx>/out/{A,B}/patch.diff against Cxx + extras (quick tier)
pid="$1"; shift
for v in A B; do
  p=/tmp/mut/m_$pid/out/$v/patch.diff
  [ -f "$p" ] || continue
  echo "=== $pid/$v: $(python3 -c "import json;print(json.load(open('/tmp/mut/m_$pid/out/$v/meta.json'))['title'])" 2>/dev/null)"
  /verif/tools/try_mutant.sh "$p" quick "$pid" "$@" 2>&1 | grep -E "exit=|^VIOLATION|PATCH" | head -8
done
