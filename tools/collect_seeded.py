#!/usr/bin/env python3
"""Collects confirmed seeded regressions from the sub-agents' workspaces into /verif/seeded/<id>/ and writes
seeded/README.md (which checks catch which change). Evaluation results come from files written by
tools/eval_mutants.sh / tools/try_mutant.sh into seeded/results/<id>.txt (one line per check run)."""
import glob
import json
import os
import re
import shutil

V = os.path.dirname(os.path.dirname(os.path.abspath(__file__)))
S = os.path.join(V, "seeded")
os.makedirs(os.path.join(S, "results"), exist_ok=True)

confirmed = {}
for f in sorted(glob.glob(os.path.join(V, "out", "confirm_batch*.log"))):
    for l in open(f):
        m = re.match(r"(CONFIRMED|NOT-CONFIRMED) (C\d+)/([A-F]) (.*)", l.strip())
        if m:
            confirmed["%s-%s" % (m.group(2), m.group(3))] = (m.group(1) == "CONFIRMED", m.group(4))

rows = []
for mid, (ok, info) in sorted(confirmed.items()):
    pid, v = mid.split("-")
    src = "/tmp/mut/m_%s/out/%s" % (pid, v)
    if not os.path.exists(src) and v in "CD":
        src = "/tmp/mut/r2_%s/out/%s" % (pid, v)      # second round: variants C / D
    if not os.path.exists(src) and v in "EF":
        src = "/tmp/mut/r3_%s/out/%s" % (pid, v)      # third round: variants E / F
    dst = os.path.join(S, mid)
    if ok and os.path.exists(src):
        os.makedirs(dst, exist_ok=True)
        for fn in ("patch.diff", "demo.cpp"):
            shutil.copy(os.path.join(src, fn), os.path.join(dst, fn))
        meta = json.load(open(os.path.join(src, "meta.json")))
    elif os.path.exists(os.path.join(dst, "meta.json")):
        meta = json.load(open(os.path.join(dst, "meta.json")))
    else:
        continue
    res = {}
    rf = os.path.join(S, "results", mid + ".txt")
    if os.path.exists(rf):
        for l in open(rf):
            m = re.match(r"(C\d+) exit=(\d+) (\d+) violation", l.strip())
            if m:
                res[m.group(1)] = int(m.group(2))     # later lines (re-runs after strengthening) override
    meta["breaks_property"] = pid
    meta["confirmed"] = {"by": "tools/confirm_mutant.sh in the workspace the change was written in: demo exits 0 on the unchanged worktree, "
                               "non-zero with patch.diff applied (library and demo rebuilt)", "result": info}
    meta["checks_run"] = {c: ("VIOLATION reported (exit 1)" if rc == 1 else "not detected (exit 0)" if rc == 0 else "exit %d" % rc) for c, rc in sorted(res.items())}
    meta["evaluated_with"] = "tools/try_mutant.sh seeded/%s/patch.diff quick %s  (scratch worktree of /repo HEAD + scratch build, nothing committed)" % (mid, " ".join(sorted(res)))
    json.dump(meta, open(os.path.join(dst, "meta.json"), "w"), indent=1)
    caught = sorted(c for c, rc in res.items() if rc == 1)
    rows.append((mid, meta.get("title", "")[:110], ", ".join(meta.get("files", []))[:70], ", ".join(caught) or "-", "yes" if pid in caught else ("other check" if caught else "NO")))

with open(os.path.join(S, "README.md"), "w") as f:
    f.write("# Seeded regressions\n\nWritten by independent sub-agents that saw only the property text and a scratch worktree (nothing from /verif).\n"
            "Each directory: `patch.diff`, `demo.cpp` (passes unchanged, fails with the patch - confirmed), `meta.json`.\n"
            "Evaluate one: `tools/try_mutant.sh seeded/<id>/patch.diff quick <Cxx> ...` (never committed to /repo).\n\n"
            "| id | change | files | caught by (quick tier) | own property's check |\n|---|---|---|---|---|\n")
    for r in rows:
        f.write("| %s | %s | %s | %s | %s |\n" % r)
    n = len(rows)
    own = sum(1 for r in rows if r[4] == "yes")
    anyc = sum(1 for r in rows if r[3] != "-")
    f.write("\n%d confirmed changes; %d caught by the check of the property they target, %d by at least one check.\n" % (n, own, anyc))
print("seeded: %d rows" % len(rows))
