#!/usr/bin/env python3
"""Writes spec/cfg/SimExecutor.*.cfg: the exhaustive fault-free configurations, one configuration per named fault (listing only the
invariant that fault must break) and the generating configuration of glue/sim_model.py.  Run after changing the constants."""
import os
CFG = "/verif/spec/cfg"
ALL = ["TimeStrictlyIncreases", "WithinWindow", "EveryWakeupHonouredExactly", "NoUnrequestedCycle",
       "CacheIsMinFutureSlot", "AtMostOncePerCycle", "NoLostNotify", "NeverPast", "CursorMonotone"]
TYPED = '{"srcall", "srcchain", "timer", "fbsrc", "sched", "echo", "delay", "pass"}'

def cfg(name, fault="none", n=3, maxt=6, starts="{1, 2}", ends="{5, 7}", maxpend=2, pereval=1, budget=4, kinds='{"free"}', wd="TRUE", stops="TRUE",
        emit="FALSE", invs=ALL, spec="Spec", view=True, depth=80, extra=()):
    lines = ["SPECIFICATION " + spec, "CONSTANTS N = %d" % n, " MaxT = %d" % maxt, " Starts = " + starts, " Ends = " + ends,
             " Deltas = {1, 2, 4}", " MaxPend = %d" % maxpend, " PerEval = %d" % pereval, " Budget = %d" % budget, " Kinds = " + kinds, " Withdraw = " + wd, " Stops = " + stops,
             ' Fault = "%s"' % fault, " Emit = " + emit, " MaxDepth = %d" % depth]
    if view:
        lines.append("VIEW View")
    lines.append("CONSTRAINT Bound")
    for i in invs:
        lines.append(("PROPERTY " if i in ("CursorMonotone", "Terminates") else "INVARIANT ") + i)
    lines += list(extra)
    lines.append("CHECK_DEADLOCK FALSE")
    open(os.path.join(CFG, "SimExecutor.%s.cfg" % name), "w").write("\n".join(lines) + "\n")


FAULTS = [("nolower", "nolower", "EveryWakeupHonouredExactly"), ("nolower2", "nolower", "NoLostNotify"),
          ("overwrite", "overwrite", "CacheIsMinFutureSlot"), ("skipplus1", "skipplus1", "CacheIsMinFutureSlot"),
          ("seedgt", "seedgt", "EveryWakeupHonouredExactly"), ("norearm", "norearm", "EveryWakeupHonouredExactly"),
          ("norearm2", "norearm2", "EveryWakeupHonouredExactly"), ("maxadvance", "maxadvance", "EveryWakeupHonouredExactly"),
          ("endinclusive", "endinclusive", "WithinWindow"), ("cachege", "cachege", "AtMostOncePerCycle"),
          ("cachege2", "cachege", "NoUnrequestedCycle"), ("noreset", "noreset", "CursorMonotone"),
          ("noreset2", "noreset", "TimeStrictlyIncreases"), ("nocachereset", "nocachereset", "TimeStrictlyIncreases"),
          ("pushinvert", "pushinvert", "NoUnrequestedCycle"), ("fbnow", "fbnow", "EveryWakeupHonouredExactly"), ("overwrite2", "overwrite", "NeverPast")]

if __name__ == "__main__":
    small = dict(n=2, maxt=4, starts="{1}", ends="{4}", budget=3, wd="FALSE", stops="FALSE")
    for name, fault, inv in FAULTS:
        if name == "overwrite2":   # a wake-up that was jumped over makes the node's next re-arm ask for the past: needs three nodes
            cfg(name, fault=fault, invs=[inv], n=3, maxt=6, starts="{1}", ends="{7}", budget=4, wd="FALSE", stops="FALSE")
        else:
            cfg(name, fault=fault, invs=[inv], **small)
    # exhaustive, fault-free
    cfg("quick", n=3, maxt=5, starts="{1}", ends="{5}", budget=3, wd="FALSE", stops="FALSE")
    cfg("wdstopq", n=2, maxt=4, starts="{1}", ends="{4}", budget=3, wd="TRUE", stops="TRUE", pereval=2)
    cfg("wdstop", n=2, maxt=5, starts="{1, 2}", ends="{5}", budget=3, wd="TRUE", stops="TRUE", pereval=2)
    cfg("thorough", n=3, maxt=6, starts="{1, 2}", ends="{5, 7}", budget=4, wd="FALSE", stops="FALSE")
    cfg("wdstop3", n=3, maxt=6, starts="{1, 2}", ends="{5, 7}", budget=3, wd="TRUE", stops="TRUE")
    cfg("live", n=2, maxt=3, starts="{1}", ends="{3}", budget=2, wd="FALSE", stops="FALSE", spec="FairSpec", view=False, invs=["Terminates"])
    cfg("gen", n=3, maxt=6, kinds=TYPED, wd="FALSE", stops="FALSE", emit="TRUE", pereval=2, view=False, invs=[], depth=200)
