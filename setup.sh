#!/bin/sh
# Build /repo's working tree and the native drivers from files on disk only (offline). ~5-6 min cold on 16 cores.
set -e
cd "$(dirname "$0")"
mkdir -p build out evidence
make -C harness -k -j"$(nproc)" all > build/setup-make.log 2>&1 || { tail -40 build/setup-make.log; exit 2; }
echo "setup ok: $(ls build/hgv_* | tr '\n' ' ')"
