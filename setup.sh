#!/bin/sh
# Build /repo's working tree and the native drivers of the registered checks from files on disk only (offline).
# ~5-6 min cold on 16 cores. Drivers still under development (not listed in build_modes.txt) are not built here.
set -e
cd "$(dirname "$0")"
mkdir -p build out evidence
find build -maxdepth 1 -name "hgv_*" ! -perm -u+x -delete 2>/dev/null || true   # debris of an interrupted link
rm -f build/*.tmp
targets=""
for m in $(cat build_modes.txt); do targets="$targets /verif/build/hgv_$m"; done
make -C harness -j"$(nproc)" $targets > build/setup-make.log 2>&1 || { tail -40 build/setup-make.log; exit 2; }
echo "setup ok: $(ls build/hgv_* | tr '\n' ' ')"
