---------------------------- MODULE NestedSched ----------------------------
(***************************************************************************)
(* Level B (implementation-shaped) model of the graph schedule tables and  *)
(* of scheduling delegation between a nested child graph and its parent    *)
(* (C09 mechanism; also C02 "no wake-up is lost" one level below the       *)
(* observable streams).                                                    *)
(*                                                                         *)
(* Code modelled (one operator / action per critical section):             *)
(*   graph.cpp  schedule_node_impl            -> SchedLocal                *)
(*   graph.cpp  nested_schedule_node_impl     -> Sched (clamp + push)      *)
(*   graph.cpp  evaluate_impl (node loop)     -> BeginCycle / SkipNode /   *)
(*                                               EvalPlain / EvalNest /    *)
(*                                               FinishGraph               *)
(*   graph.cpp  propagate_nested_parent_schedule,                          *)
(*   nested_graph_node.cpp single_nested_graph_propagate_schedule -> pull  *)
(*   node.cpp   evaluate_impl tail (advance / re-arm of the node's timer)  *)
(*                                                                         *)
(* A chain of Depth graphs: graph g+1 is the child of node NestAt of graph *)
(* g.  Every node owns a set `want` of pending timer requests (its         *)
(* NodeScheduler; NodeSched.tla is the detailed model of that object).     *)
(* slot[g][n] is the graph schedule entry (0 = never scheduled; entries    *)
(* <= the graph's evaluation time are stale: lazy clean-up), nxt[g] the    *)
(* cached next scheduled time.                                             *)
(*                                                                         *)
(* Fault = "none" is the code as it is.  The other values remove one       *)
(* mechanism each; TLC must then find a violation (the invariants have     *)
(* teeth): "nopull", "nopush", "noclamp", "norearm".                       *)
(***************************************************************************)
EXTENDS Integers, Sequences, FiniteSets, TLC, SlotRules

CONSTANTS Depth, NN, NestAt, MaxT, Dts, MaxTg, Fault

Inf == MaxT + 10
Graphs == 0..(Depth - 1)
Nodes == 1..NN
IsNested(g) == g > 0
IsNestNode(g, n) == g < Depth - 1 /\ n = NestAt
Max2(a, b) == IF a > b THEN a ELSE b
MinOf(S) == CHOOSE x \in S : \A y \in S : x <= y

VARIABLES phase,       \* "start" (nodes arm their first timers) | "run"
          now,         \* engine time of the current / last root cycle
          slot, nxt,   \* schedule tables
          et,          \* evaluation_time of every graph
          evaluating, cursor,
          stack,       \* graphs being evaluated, innermost last
          want,        \* want[g][n]: the node's own pending timer requests
          must, ranc,  \* node instances notified / evaluated in the current root cycle
          err          \* a schedule request in the past was made (the code throws)

vars == <<phase, now, slot, nxt, et, evaluating, cursor, stack, want, must, ranc, err>>

----------------------------------------------------------------------------
\* schedule_node_impl: st = [slot, nxt, err]
SchedLocal(st, g, n, when) ==
    LET cur   == et[g]
        takes == st.slot[g][n] <= cur \/ when < st.slot[g][n]
    IN IF when < cur THEN [st EXCEPT !.err = TRUE]
       ELSE IF takes THEN [st EXCEPT !.slot[g][n] = when,
                                     !.nxt[g] = IF when > cur /\ when < @ THEN when ELSE @]
       ELSE st

\* GraphView::schedule_node: the root uses schedule_node_impl, a nested graph nested_schedule_node_impl
RECURSIVE Sched(_, _, _, _)
Sched(st, g, n, when0) ==
    IF ~IsNested(g) THEN SchedLocal(st, g, n, when0)
    ELSE LET when == IF Fault = "noclamp" THEN when0 ELSE Max2(when0, et[g - 1])
             s1   == SchedLocal(st, g, n, when)
             idle == ~evaluating[g]
             s2   == IF idle /\ when < s1.nxt[g] THEN [s1 EXCEPT !.nxt[g] = when] ELSE s1
         IN IF idle /\ Fault # "nopush" /\ ~s2.err THEN Sched(s2, g - 1, NestAt, when) ELSE s2

\* notifications: targets is a set of <<g, n>>.  A notification normally carries the notifier's current time; a
\* cross-boundary one may carry the idle child's own, older clock (a reference re-bound to an older target samples it
\* at the child's last evaluation time) - `stale` - which nested_schedule_node_impl clamps to the parent's time.
RECURSIVE SchedAll(_, _, _, _)
SchedAll(st, targets, when, stale) ==
    IF targets = {} THEN st
    ELSE LET x == CHOOSE y \in targets : TRUE
             w == IF stale /\ ~evaluating[x[1]] /\ et[x[1]] < when THEN et[x[1]] ELSE when
         IN SchedAll(Sched(st, x[1], x[2], w), targets \ {x}, when, stale)

Tables == [slot |-> slot, nxt |-> nxt, err |-> err]
Commit(st) == slot' = st.slot /\ nxt' = st.nxt /\ err' = st.err

----------------------------------------------------------------------------
Init == /\ phase = "start" /\ now = 0
        /\ slot = [g \in Graphs |-> [n \in Nodes |-> 0]]
        /\ nxt = [g \in Graphs |-> Inf]
        /\ et = [g \in Graphs |-> 0]
        /\ evaluating = [g \in Graphs |-> FALSE]
        /\ cursor = [g \in Graphs |-> 0]
        /\ stack = <<>>
        /\ want = [g \in Graphs |-> [n \in Nodes |-> {}]]
        /\ must = {} /\ ranc = {} /\ err = FALSE

\* during start a node arms its first timer; graphs are idle, so a child's request is pushed to its parent
\* (equivalently: the child is started by its nested node, which then pulls the child's next time)
StartArm(g, n, t) ==
    /\ phase = "start" /\ ~IsNestNode(g, n) /\ want[g][n] = {}
    /\ want' = [want EXCEPT ![g][n] = {t}]
    /\ Commit(Sched(Tables, g, n, t))
    /\ UNCHANGED <<phase, now, et, evaluating, cursor, stack, must, ranc>>

Go == /\ phase = "start" /\ phase' = "run"
      /\ UNCHANGED <<now, slot, nxt, et, evaluating, cursor, stack, want, must, ranc, err>>

BeginCycle ==
    /\ phase = "run" /\ stack = <<>> /\ ~err /\ nxt[0] <= MaxT
    /\ now' = nxt[0]
    /\ et' = [et EXCEPT ![0] = nxt[0]]
    /\ evaluating' = [evaluating EXCEPT ![0] = TRUE]
    /\ nxt' = [nxt EXCEPT ![0] = Inf]
    /\ cursor' = [cursor EXCEPT ![0] = 1]
    /\ stack' = <<0>>
    /\ must' = {} /\ ranc' = {}
    /\ UNCHANGED <<phase, slot, want, err>>

Top == stack[Len(stack)]

SkipNode ==
    /\ stack # <<>> /\ ~err
    /\ LET g == Top  n == cursor[g] IN
       /\ n <= NN /\ slot[g][n] # et[g]
       /\ nxt' = [nxt EXCEPT ![g] = IF slot[g][n] > et[g] /\ slot[g][n] < @ THEN slot[g][n] ELSE @]
       /\ cursor' = [cursor EXCEPT ![g] = n + 1]
    /\ UNCHANGED <<phase, now, slot, et, evaluating, stack, want, must, ranc, err>>

\* the nodes an output of node n of graph g can notify: later nodes of g, and - when the nested node is among them -
\* the nodes of the descendants it feeds (a child's inputs are bound directly to the outer output)
RECURSIVE Below(_)
Below(g) == IF g >= Depth - 1 THEN {} ELSE {<<g + 1, m>> : m \in Nodes} \cup Below(g + 1)
Downstream(g, n) == {<<g, m>> : m \in {x \in Nodes : x > n}} \cup (IF g < Depth - 1 /\ NestAt > n THEN Below(g) ELSE {})

\* node.cpp evaluate_impl: user code (may request one more timer, may tick its output), then advance / re-arm
EvalPlain(req, targets, stale) ==
    /\ stack # <<>> /\ ~err
    /\ LET g == Top  n == cursor[g]  T == et[g] IN
       /\ n <= NN /\ slot[g][n] = T /\ ~IsNestNode(g, n)
       /\ req \subseteq {T + d : d \in Dts} /\ Cardinality(req) <= 1 /\ \A t \in req : t <= MaxT + 2
       /\ targets \subseteq Downstream(g, n) /\ Cardinality(targets) <= 2
       /\ LET w0    == want[g][n]
              fired == w0 # {} /\ MinOf(w0) = T
              w1    == w0 \cup req
              \* NodeScheduler::schedule pushes a request that is the new earliest to the graph
              s1    == IF req # {} /\ (\A x \in w0 \ {T} : MinOf(req) < x) THEN Sched(Tables, g, n, MinOf(req)) ELSE Tables
              w2    == IF fired THEN w1 \ {T} ELSE w1
              s2    == IF fired THEN (IF w2 # {} THEN Sched(s1, g, n, MinOf(w2)) ELSE s1)
                       ELSE IF w2 # {} /\ Fault # "norearm" THEN Sched(s1, g, n, MinOf(w2)) ELSE s1
              s3    == SchedAll(s2, targets, T, stale)
          IN /\ want' = [want EXCEPT ![g][n] = w2]
             /\ Commit(s3)
             /\ must' = must \cup targets
             /\ ranc' = ranc \cup {<<g, n>>}
       /\ cursor' = [cursor EXCEPT ![g] = n + 1]
    /\ UNCHANGED <<phase, now, et, evaluating, stack>>

\* the nested node evaluates its child graph at its own graph's time
EvalNest ==
    /\ stack # <<>> /\ ~err
    /\ LET g == Top  n == cursor[g]  c == g + 1 IN
       /\ n <= NN /\ slot[g][n] = et[g] /\ IsNestNode(g, n)
       /\ et' = [et EXCEPT ![c] = et[g]]
       /\ evaluating' = [evaluating EXCEPT ![c] = TRUE]
       /\ nxt' = [nxt EXCEPT ![c] = Inf]
       /\ cursor' = [cursor EXCEPT ![c] = 1]
       /\ stack' = Append(stack, c)
       /\ ranc' = ranc \cup {<<g, n>>}
    /\ UNCHANGED <<phase, now, slot, want, must, err>>

\* end of a graph's node loop: the child pushes its next time to the parent node (pull), the nested node may tick
\* its forwarded output, the parent loop goes on with the next node
FinishGraph(targets) ==
    /\ stack # <<>> /\ ~err
    /\ LET g == Top IN
       /\ cursor[g] > NN
       /\ IF g = 0
          THEN /\ targets = {}
               /\ stack' = <<>>
               /\ cursor' = [cursor EXCEPT ![0] = 0]
               /\ evaluating' = [evaluating EXCEPT ![0] = FALSE]
               /\ UNCHANGED <<slot, nxt, err, must>>
          ELSE /\ targets \subseteq {<<g - 1, m>> : m \in {x \in Nodes : x > NestAt}} /\ Cardinality(targets) <= 1
               /\ LET s1 == IF nxt[g] < Inf /\ Fault # "nopull" THEN Sched(Tables, g - 1, NestAt, nxt[g]) ELSE Tables
                      s2 == SchedAll(s1, targets, et[g - 1], FALSE)
                  IN Commit(s2)
               /\ must' = must \cup targets
               /\ stack' = SubSeq(stack, 1, Len(stack) - 1)
               /\ cursor' = [cursor EXCEPT ![g] = 0, ![g - 1] = @ + 1]
               /\ evaluating' = [evaluating EXCEPT ![g] = FALSE]
    /\ UNCHANGED <<phase, now, et, want, ranc>>

UpTo2(S) == {{}} \cup {{x} : x \in S} \cup (IF MaxTg >= 2 THEN {{x, y} : x \in S, y \in S} ELSE {})
Next == \/ \E g \in Graphs, n \in Nodes, t \in 1..2 : StartArm(g, n, t)
        \/ Go \/ BeginCycle \/ SkipNode \/ EvalNest
        \/ \E req \in {{}} \cup {{t} : t \in 1..(MaxT + 2)}, tg \in UpTo2(Graphs \X Nodes), stale \in BOOLEAN : EvalPlain(req, tg, stale)
        \/ \E tg \in UpTo2(Graphs \X Nodes) : FinishGraph(tg)

Spec == Init /\ [][Next]_vars

----------------------------------------------------------------------------
Idle == phase = "run" /\ stack = <<>>

\* The schedule-table rule itself lives in SlotRules.tla (shared with SlotTrace.tla, which evaluates it on the tables
\* recorded from the real engine).
Dump == {[g |-> g, pg |-> g - 1, pn |-> NestAt - 1, next |-> nxt[g], s |-> [i \in Nodes |-> slot[g][i]]] : g \in Graphs}

Covered == Idle => CoveredIn(now, Dump)
NoLostTimer == Idle => \A g \in Graphs, n \in Nodes : \A t \in want[g][n] : t > now
TimerArmed == Idle => \A g \in Graphs, n \in Nodes : want[g][n] # {} => slot[g][n] > now /\ slot[g][n] <= MinOf(want[g][n])
NoLostNotify == Idle => must \subseteq ranc
ChildClock == \A g \in Graphs : IsNested(g) => (et[g] <= et[g - 1] /\ (evaluating[g] => et[g] = et[g - 1]))
NeverPast == ~err
=============================================================================
