--------------------------- MODULE ReduceTreeTrace ---------------------------
(* File mode of ReduceTree: the glue hands over what the REAL reduce produced - per scenario the combiner, the zero, and per
   cycle the dictionary the operator was reading (its valid elements, as recorded from the running graph) together with the
   result recorded in the same cycle.  TLC judges every cycle against level A (ResultA: the fold over exactly the valid
   elements with the zero rules) and names the clause of C11 that the first wrong cycle breaks.  Level B's prediction is
   compared by the glue (a difference that A accepts is DRIFT). *)
EXTENDS ReduceTree, Json, IOUtils

\* items: [id, comb, haszero (0/1), zero, cycles: << <<t, <<<<k, v>>, ...>>, ok, v>>, ... >>]
Items == JsonDeserialize(IOEnv.REDUCE_FILE)

ParamsOf(it) == [comb |-> it.comb, hasZero |-> it.haszero = 1, zero |-> it.zero, lifted |-> FALSE]
DictOf(pairs) == LET ks == {pairs[i][1] : i \in 1..Len(pairs)}
                 IN [k \in ks |-> pairs[CHOOSE i \in 1..Len(pairs) : pairs[i][1] = k][2]]

Clause(c) == CASE c = "empty_nozero"  -> "C11.empty_collection_without_zero_must_have_no_result"
               [] c = "empty_zero"    -> "C11.empty_collection_with_zero_must_give_the_zero"
               [] c = "single_zero"   -> "C11.single_element_with_zero_must_give_combine_of_element_and_zero"
               [] c = "single_nozero" -> "C11.single_element_without_zero_must_give_the_element"
               [] OTHER               -> "C11.two_or_more_elements_must_give_their_fold_without_the_zero"

Want(it, c) == LET f == DictOf(c[2]) IN ResultA(ParamsOf(it), f, DOMAIN f)
Got(c) == IF c[3] = 0 THEN <<0, 0>> ELSE <<1, c[4]>>
Bad(it) == {i \in 1..Len(it.cycles) : Want(it, it.cycles[i]) # Got(it.cycles[i])}
Verdict(it) ==
    IF Bad(it) = {} THEN [id |-> it.id, why |-> "", at |-> 0, want |-> <<0, 0>>, got |-> <<0, 0>>]
    ELSE LET i == CHOOSE x \in Bad(it) : \A y \in Bad(it) : x <= y
             c == it.cycles[i]
         IN [id |-> it.id, why |-> Clause(CaseOf(ParamsOf(it), DOMAIN DictOf(c[2]))), at |-> c[1], want |-> Want(it, c), got |-> Got(c)]

VARIABLES k
FileInit == k = 0
FileNext == /\ k < Len(Items)
            /\ k' = k + 1
            /\ PrintT(<<"RVERDICT", ToJson(Verdict(Items[k + 1]))>>)
FileSpec == FileInit /\ [][FileNext]_k
=============================================================================
