----------------------------- MODULE SlotTrace -----------------------------
(***************************************************************************)
(* Binds NestedSched.tla's state to the implementation: the engine driver  *)
(* (opt slots=1) dumps, at the end of every root cycle, the schedule table *)
(* of every live graph instance (root and every nested / dynamically       *)
(* created child) through the public GraphView API.  Each dump must        *)
(* satisfy the delegation rule the model proves about the protocol         *)
(* (SlotRules!CoveredIn), the child clocks must not run ahead of their     *)
(* parents, and the next root cycle must come no later than the cached     *)
(* next time of the previous dump.                                         *)
(***************************************************************************)
EXTENDS Integers, Sequences, FiniteSets, TLC, Json, IOUtils, SlotRules

Traces == JsonDeserialize(IOEnv.TRACE_FILE)

VARIABLES tid, l, S, verdict, done
vars == <<tid, l, S, verdict, done>>

Ok(s)   == [S |-> s, why |-> ""]
Fail(c) == [S |-> S, why |-> c]

RECURSIVE FirstFail(_, _)
FirstFail(cs, k) == IF k > Len(cs) THEN ""
                    ELSE IF ~cs[k][2] THEN cs[k][1] ELSE FirstFail(cs, k + 1)

SetOf(q) == {q[i] : i \in 1..Len(q)}

InitS == [prevT |-> -1, prevNext |-> -1, ended |-> FALSE]

OnSlots(e) ==
    LET gs == SetOf(e.gs)
        why == FirstFail(<<
          <<"C02.root_cycle_later_than_the_cached_next_scheduled_time", S.prevNext < 0 \/ e.t <= S.prevNext>>,
          <<"C09.child_clock_ahead_of_its_parent", \A x \in gs : x.pg < 0 \/ \A p \in gs : p.g = x.pg => x.et <= p.et>>,
          <<"C02.pending_entry_of_the_root_before_its_next_scheduled_time", UncoveredRoot(e.t, gs) = {}>>,
          <<"C09.pending_work_of_a_child_graph_not_covered_by_its_parent_node", UncoveredNested(e.t, gs) = {}>> >>, 1)
        root == CHOOSE x \in gs : x.pg < 0
    IN IF why # "" THEN Fail(why) ELSE Ok([S EXCEPT !.prevT = e.t, !.prevNext = root.next])

Step(e) == CASE e.e = "slots" -> (IF \E x \in SetOf(e.gs) : x.pg < 0 THEN OnSlots(e) ELSE Ok(S))
             [] e.e = "ret"   -> Ok([S EXCEPT !.ended = TRUE])
             [] OTHER         -> Ok(S)

Init == /\ tid \in 1..Len(Traces)
        /\ l = 1
        /\ S = InitS
        /\ verdict = ""
        /\ done = FALSE

Consume == /\ ~done /\ verdict = "" /\ l <= Len(Traces[tid].ev)
           /\ LET r == Step(Traces[tid].ev[l])
              IN  S' = r.S /\ verdict' = r.why
           /\ l' = l + 1
           /\ UNCHANGED <<tid, done>>

Finish == /\ ~done /\ (verdict # "" \/ l > Len(Traces[tid].ev))
          /\ done' = TRUE
          /\ PrintT(<<"VERDICT", Traces[tid].id, l - 1, IF verdict = "" /\ ~S.ended THEN "trace.incomplete" ELSE verdict>>)
          /\ UNCHANGED <<tid, l, S, verdict>>

Next == Consume \/ Finish
Spec == Init /\ [][Next]_vars
=============================================================================
