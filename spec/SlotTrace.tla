----------------------------- MODULE SlotTrace -----------------------------
(***************************************************************************)
(* Binds NestedSched.tla's state to the implementation: the engine driver  *)
(* (opt slots=1) dumps, at the end of every root cycle, the schedule table *)
(* of every live graph instance (root and every nested / dynamically       *)
(* created child) through the public GraphView API.  Each dump must        *)
(* satisfy the delegation rule the model proves about the protocol         *)
(* (SlotRules!CoveredIn), the child clocks must not run ahead of their     *)
(* parents, and the next root cycle must come no later than the cached     *)
(* next time of the previous dump.                                         *)
(***************************************************************************)
EXTENDS Integers, Sequences, FiniteSets, TLC, Json, IOUtils, SlotRules

Traces == JsonDeserialize(IOEnv.TRACE_FILE)

VARIABLES tid, l, S, verdict, done
vars == <<tid, l, S, verdict, done>>

Ok(s)   == [S |-> s, why |-> ""]
Fail(c) == [S |-> S, why |-> c]

\* clauses are <<property, name, condition>>; a check run for one property (prog.own) evaluates that property's clauses only,
\* so that a rejection belonging to another property does not end the trace before its own clauses were reached
Mine(p) == Traces[tid].prog.own \in {"all", p}
RECURSIVE FirstFail(_, _)
FirstFail(cs, k) == IF k > Len(cs) THEN ""
                    ELSE IF Mine(cs[k][1]) /\ ~cs[k][3] THEN cs[k][2] ELSE FirstFail(cs, k + 1)

SetOf(q) == {q[i] : i \in 1..Len(q)}

InitS == [prevT |-> -1, prevNext |-> -1, ended |-> FALSE,
          pend |-> {},      \* <<graph instance, node index, time, tag>>: wake-ups requested by nodes of any live graph instance
          root |-> -1,      \* the root graph's instance id
          final |-> {}]     \* what was still pending when the root graph began to stop

OnSlots(e) ==
    LET gs == SetOf(e.gs)
        why == FirstFail(<<
          <<"C02", "C02.root_cycle_later_than_the_cached_next_scheduled_time", S.prevNext < 0 \/ e.t <= S.prevNext>>,
          <<"C09", "C09.child_clock_ahead_of_its_parent", \A x \in gs : x.pg < 0 \/ \A p \in gs : p.g = x.pg => x.et <= p.et>>,
          <<"C02", "C02.pending_entry_of_the_root_before_its_next_scheduled_time", UncoveredRoot(e.t, gs) = {}>>,
          <<"C09", "C09.pending_work_of_a_child_graph_not_covered_by_its_parent_node", UncoveredNested(e.t, gs) = {}>>,
          <<"C02", "C02.wakeup_requested_inside_a_graph_instance_not_honoured_at_its_time", \A p \in S.pend : p[3] > e.t>> >>, 1)
        root == CHOOSE x \in gs : x.pg < 0
    IN IF why # "" THEN Fail(why)
       ELSE Ok([S EXCEPT !.prevT = e.t, !.prevNext = root.next])

\* a node of some graph instance (root, nested, or a dynamically created child) asks to be woken at e.at; a tagged request
\* replaces the node's earlier request with the same tag
OnReq(e) == IF e.at <= e.t THEN Ok(S)
            ELSE Ok([S EXCEPT !.pend = {p \in @ : ~(e.tag # "" /\ p[1] = e.g /\ p[2] = e.n /\ p[4] = e.tag)} \cup {<<e.g, e.n, e.at, e.tag>>}])
\* the engine gives the node its turn at time e.t
OnEval(e) == Ok([S EXCEPT !.pend = {p \in @ : ~(p[1] = e.g /\ p[2] = e.n /\ p[3] = e.t)}])
\* a graph instance that stops (a removed key, a de-selected branch, the end of the run) takes its requests with it
\* user code of a node of graph instance e.g threw at e.t: that instance's cycle is aborted there (the exception is caught by
\* a node above it, or ends the run).  Named deviation (DESIGN 12.4, aborted child cycles): what the instance's later-ranked
\* nodes were due to do IN this very cycle is lost with the cycle; what they had pending for later is not.
OnThrow(e) == Ok([S EXCEPT !.pend = {p \in @ : ~(p[1] = e.g /\ p[3] = e.t)}])

OnGone(e) == IF e.e = "gstart" /\ e.pg < 0 THEN Ok([S EXCEPT !.root = e.g, !.pend = {p \in @ : p[1] # e.g}])
             ELSE IF e.e = "gstop" /\ e.g = S.root THEN Ok([S EXCEPT !.final = S.pend, !.pend = {}])
             ELSE Ok([S EXCEPT !.pend = {p \in @ : p[1] # e.g}])

\* a run that returns normally has honoured every wake-up that fell inside its window
OnRet(e) == IF Mine("C02") /\ e.ok = 1 /\ \E p \in S.final : p[3] < Traces[tid].prog.end
            THEN Fail("C02.wakeup_requested_inside_a_graph_instance_dropped_at_the_end_of_the_run")
            ELSE Ok([S EXCEPT !.ended = TRUE])

Step(e) == CASE e.e = "slots" -> (IF \E x \in SetOf(e.gs) : x.pg < 0 THEN OnSlots(e) ELSE Ok(S))
             [] e.e = "req"   -> OnReq(e)
             [] e.e = "eval"  -> OnEval(e)
             [] e.e = "fn"    -> OnThrow(e)
             [] e.e \in {"gstop", "gstart", "gstartfail"} -> OnGone(e)
             [] e.e = "ret"   -> OnRet(e)
             [] OTHER         -> Ok(S)

Init == /\ tid \in 1..Len(Traces)
        /\ l = 1
        /\ S = InitS
        /\ verdict = ""
        /\ done = FALSE

Consume == /\ ~done /\ verdict = "" /\ l <= Len(Traces[tid].ev)
           /\ LET r == Step(Traces[tid].ev[l])
              IN  S' = r.S /\ verdict' = r.why
           /\ l' = l + 1
           /\ UNCHANGED <<tid, done>>

Finish == /\ ~done /\ (verdict # "" \/ l > Len(Traces[tid].ev))
          /\ done' = TRUE
          /\ PrintT(<<"VERDICT", Traces[tid].id, l - 1, IF verdict = "" /\ ~S.ended THEN "trace.incomplete" ELSE verdict>>)
          /\ UNCHANGED <<tid, l, S, verdict>>

Next == Consume \/ Finish
Spec == Init /\ [][Next]_vars
=============================================================================
