----------------------------- MODULE WiringRank -----------------------------
(* Level B of the rank pass of Wiring::finish (src/hgraph/types/graph_wiring.cpp build_ranked_graph) together with the
   level-A statement of C01's structural half.

   A program is a sequence of node INSTANCES in insertion order (the order of the add_node calls).  Instance i has an
   ordered list of producers ins[i] (an input may name ANY instance: a later one or itself is wired through a delayed
   binding) and the program has a set of explicit rank dependencies deps (<<c, p>>: c is evaluated after p).  A feedback
   is not special here: its source is an instance without inputs, its sink an instance that consumes the bound value and
   the source - which is exactly why a loop closed through it is no dependency cycle.

   Level B (the code): in-degree = number of rank-relevant producer occurrences (+ explicit dependencies), one FIFO ready
   queue seeded in insertion order, a consumer is released when its LAST occurrence is removed, and the build is refused
   when fewer instances were ranked than exist.
   Level A (the property): the build is refused iff the dependency relation has a cycle; when it is accepted every
   instance has exactly one rank and every consumer ranks after each of its producers.
   TLC checks B => A for every program of the bounded family, and evaluates both on the programs / observed builds the
   glue hands over (file mode, see WiringTrace section). *)
EXTENDS Naturals, Sequences, FiniteSets, TLC, Json, IOUtils

CONSTANTS Fault       \* "none" or a named slip of the rank pass (the invariants must notice it)

RECURSIVE SumOver(_, _)
SumOver(S, f) == IF S = {} THEN 0 ELSE LET x == CHOOSE y \in S : TRUE IN f[x] + SumOver(S \ {x}, f)

Size(p) == Len(p.ins)
Ids(p) == 1..Size(p)
DepSet(p) == {<<d[1], d[2]>> : d \in {p.deps[k] : k \in 1..Len(p.deps)}}

\* how often `prod` occurs among the rank-relevant producers of consumer c (every occurrence is one edge)
Occ(p, prod, c) == Cardinality({k \in 1..Len(p.ins[c]) : p.ins[c][k] = prod})
                   + (IF <<c, prod>> \in DepSet(p) THEN 1 ELSE 0)

\* ---------------------------------------------------------------- level A: the dependency relation and its cycles
Edge(p) == {<<a, b>> \in Ids(p) \X Ids(p) : Occ(p, a, b) > 0}            \* a must have had its turn before b
RECURSIVE Reach(_, _, _)
Reach(p, frontier, seen) ==
    LET next == {b \in Ids(p) : \E a \in frontier : <<a, b>> \in Edge(p)} \ seen
    IN IF next = {} THEN seen ELSE Reach(p, next, seen \cup next)
Cyclic(p) == \E a \in Ids(p) : a \in Reach(p, {a}, {})

\* ---------------------------------------------------------------- level B: Kahn with insertion-order tie-break
\* what the in-degree loop counts for one producer / consumer pair under the named fault
Counted(p, prod, c) ==
    CASE Fault = "nodeps" -> Cardinality({k \in 1..Len(p.ins[c]) : p.ins[c][k] = prod})       \* explicit dependencies not counted
      [] Fault = "dedup"  -> IF Occ(p, prod, c) > 0 THEN 1 ELSE 0                              \* counted once per pair ...
      [] OTHER            -> Occ(p, prod, c)
\* ... while the consumers list still holds every occurrence
Released(p, prod, c) == IF Fault = "nodeps" THEN Counted(p, prod, c) ELSE Occ(p, prod, c)

InDegree(p) == [c \in Ids(p) |-> SumOver(Ids(p), [prod \in Ids(p) |-> Counted(p, prod, c)])]

RECURSIVE SeqOfSet(_, _)
SeqOfSet(S, n) == IF n = 0 THEN <<>> ELSE LET s == SeqOfSet(S, n - 1) IN IF n \in S THEN Append(s, n) ELSE s   \* ascending = insertion order

Monus(a, b) == IF a > b THEN a - b ELSE 0
RECURSIVE Kahn(_, _, _, _)
Kahn(p, indeg, ready, ranked) ==
    IF ready = <<>> THEN ranked
    ELSE LET n      == IF Fault = "lifo" THEN ready[Len(ready)] ELSE Head(ready)
             rest   == IF Fault = "lifo" THEN SubSeq(ready, 1, Len(ready) - 1) ELSE Tail(ready)
             indeg2 == [c \in Ids(p) |-> Monus(indeg[c], Released(p, n, c))]
             newly  == {c \in Ids(p) : Released(p, n, c) > 0 /\ indeg[c] > 0 /\ indeg2[c] = 0}
         IN Kahn(p, indeg2, rest \o SeqOfSet(newly, Size(p)), Append(ranked, n))

Ranked(p) == LET d == InDegree(p) IN Kahn(p, d, SeqOfSet({c \in Ids(p) : d[c] = 0}, Size(p)), <<>>)
RefusedGiven(p, r) == IF Fault = "weaklen" THEN Len(r) = 0 ELSE Len(r) # Size(p)
Refused(p) == RefusedGiven(p, Ranked(p))

\* ---------------------------------------------------------------- level A on a build result
Pos(order, x) == CHOOSE k \in 1..Len(order) : order[k] = x
IsPermutation(p, order) == Len(order) = Size(p) /\ {order[k] : k \in 1..Len(order)} = Ids(p)
Topological(p, order) == \A e \in Edge(p) : Pos(order, e[1]) < Pos(order, e[2])

BuildOk(p, refused, order) ==
    /\ refused = Cyclic(p)
    /\ ~refused => IsPermutation(p, order) /\ Topological(p, order)
=============================================================================
