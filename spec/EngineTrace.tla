---------------------------- MODULE EngineTrace ----------------------------
(***************************************************************************)
(* Level A trace specification of the evaluation engine (C01, C02, C03 and *)
(* the flag/ordering parts of C04, C09): validates traces recorded from    *)
(* the compiled working tree by harness/engine.                            *)
(*                                                                         *)
(* The abstract state is what the properties talk about: the current cycle *)
(* time of the root graph and of every nested graph instance, which nodes  *)
(* have had their turn in the cycle, the pending wake-up requests, and per *)
(* vocabulary node the last written value / time and private state.  Every *)
(* trace event is one action; its enabling condition is written as a list  *)
(* of named clauses (the first clause that fails is the verdict), so a     *)
(* rejected trace says which part of which property the code broke.        *)
(*                                                                         *)
(* Nothing implementation-shaped is assumed: any evaluation order that     *)
(* respects the dataflow is accepted, cycles at times somebody asked for   *)
(* and later withdrew are accepted (the documented stale-slot behaviour),  *)
(* evaluations of a node with nothing to do are accepted when the node     *)
(* itself asked for that time.                                             *)
(*                                                                         *)
(* File format (IOEnv.TRACE_FILE): JSON array of                           *)
(*   [id, prog : [start, end, nodes], ev : Seq(event)]                     *)
(* events are the driver's ndjson lines (see harness/engine/engine.cpp).   *)
(***************************************************************************)
EXTENDS Integers, Sequences, FiniteSets, TLC, Json, IOUtils, Vocab

Traces == JsonDeserialize(IOEnv.TRACE_FILE)

VARIABLES tid, l, S, verdict, done
vars == <<tid, l, S, verdict, done>>

MaxInst == 15
Insts   == 0..MaxInst

P(t)  == Traces[t].prog
NN(t) == Len(P(t).nodes)

----------------------------------------------------------------------------
Ok(s)   == [S |-> s, why |-> ""]
Fail(c) == [S |-> S, why |-> c]

\* first failing clause of a list <<name, BOOLEAN>>, "" when all hold (evaluated lazily)
RECURSIVE FirstFail(_, _)
FirstFail(cs, k) == IF k > Len(cs) THEN ""
                    ELSE IF ~cs[k][2] THEN cs[k][1] ELSE FirstFail(cs, k + 1)

Node(i) == P(tid).nodes[i]
IsNode(i) == i \in 1..NN(tid)

\* nodes that must have their turn after node i: the readers of its output, and the nodes with an explicit rank dependency on it
Consumers(i) == {c \in 1..NN(tid) : \E k \in 1..Len(Node(c).ins) : Node(c).ins[k] = i}
                \cup {P(tid).rankdeps[k][1] : k \in {j \in 1..Len(P(tid).rankdeps) : P(tid).rankdeps[j][2] = i}}
FbReaders(i) == {f \in 1..NN(tid) : Node(f).kind = "fb" /\ Node(f).bind = i}

NoVal == -999999   \* "no scripted value at this time" (script values are small integers)
ScriptVal(i, t) == LET js == {j \in 1..Len(Node(i).script) : Node(i).script[j][1] = t}
                   IN  IF js = {} THEN NoVal ELSE Node(i).script[CHOOSE j \in js : TRUE][2]

IdAt(s, g, n) == LET m == {x \in s.ids : x[1] = g /\ x[2] = n}
                 IN  IF m = {} THEN -1 ELSE (CHOOSE x \in m : TRUE)[3]

InitS(t) ==
    LET p == P(t)
        fbInit == {i \in 1..Len(p.nodes) : p.nodes[i].kind = "fb" /\ p.nodes[i].init # -1}
    IN
    [ rnow   |-> 0,                      \* root cycle time while a root cycle is in progress
      last   |-> 0,                      \* time of the last completed root cycle
      gnow   |-> [g \in Insts |-> 0],    \* cycle time of a graph instance while it is being evaluated
      gcyc   |-> [g \in Insts |-> 0],    \* time of the latest cycle of a graph instance
      par    |-> [g \in Insts |-> <<-1, -1>>],
      evald  |-> [g \in Insts |-> {}],   \* node indexes that had their turn in the current cycle of g
      fired  |-> {},                     \* vocabulary node ids whose user code ran in this root cycle
      due    |-> {},                     \* ids evaluated at a time they had pending
      stale  |-> {},                     \* ids evaluated at a time they had asked for and withdrawn
      lw     |-> [i \in 1..Len(p.nodes) |-> 0],
      lv     |-> [i \in 1..Len(p.nodes) |-> 0],
      nst    |-> [i \in 1..Len(p.nodes) |-> 0],
      tagt   |-> [i \in 1..Len(p.nodes) |-> 0],
      fbq    |-> [i \in 1..Len(p.nodes) |-> IF i \in fbInit THEN << <<p.start, p.nodes[i].init>> >> ELSE <<>>],
      pend   |-> {<<i, p.start>> : i \in fbInit},
      wd     |-> {},
      reqT   |-> IF fbInit = {} THEN {} ELSE {p.start},
      started|-> {},
      ids    |-> {},
      cyc    |-> {},
      threw  |-> {},                     \* <<id, input value>> of captured exceptions thrown in this root cycle
      errd   |-> {},                     \* ids whose error tick has been observed in this root cycle
      ended  |-> FALSE ]

----------------------------------------------------------------------------
(* graph / node lifecycle                                                  *)
\* Named deviation (sampled initialisation, nested_bindings.h schedule_sampled_input_consumers - documented design):
\* when a nested child graph starts, consumers of its boundary inputs whose plain validity gate is empty are scheduled
\* once for the cycle of the start, so the engine may run a cycle at the start time of a nested graph although no node
\* asked for it.  Accepted only at exactly that time.
OnGstart(e) == Ok([S EXCEPT !.par[e.g] = <<e.pg, e.pn>>, !.gcyc[e.g] = 0,
                            !.reqT = IF e.pg >= 0 THEN @ \cup {IF S.rnow # 0 THEN S.rnow ELSE P(tid).start} ELSE @])

OnNstarted(e) ==
    IF ~IsNode(e.id) THEN Ok(S)
    ELSE LET t0 == IF S.rnow # 0 THEN S.rnow ELSE P(tid).start
             s1 == [S EXCEPT !.started = @ \cup {e.id}, !.ids = @ \cup {<<e.g, e.n, e.id>>},
                             !.nst[e.id] = 0, !.tagt[e.id] = 0]
         IN  IF Node(e.id).kind = "timer"     \* schedule_on_start: an own request for the start time
             THEN Ok([s1 EXCEPT !.pend = @ \cup {<<e.id, t0>>}, !.reqT = @ \cup {t0}])
             ELSE Ok(s1)

OnNstop(e) == IF IsNode(e.id) THEN Ok([S EXCEPT !.started = @ \ {e.id}]) ELSE Ok(S)

----------------------------------------------------------------------------
(* cycles                                                                  *)
OnCycle(e) ==
    IF e.g = 0 THEN
        LET why == FirstFail(<<
              <<"C02.cycle_before_start_time", e.t >= P(tid).start>>,
              <<"C02.cycle_at_or_after_end_time", e.t < P(tid).end>>,
              <<"C02.time_not_strictly_increasing", e.t > S.last>>,
              <<"C02.wakeup_skipped_or_late", \A r \in S.pend : r[2] >= e.t>>,
              <<"C02.cycle_at_unrequested_time", e.t \in S.reqT>> >>, 1)
        IN IF why # "" THEN Fail(why)
           ELSE \* C08: a value written to a feedback at t-1 is what its readers see from the start of cycle t
                LET dl == {f \in 1..NN(tid) : Node(f).kind = "fb" /\ S.fbq[f] # <<>> /\ S.fbq[f][1][1] = e.t}
                IN Ok([S EXCEPT !.rnow = e.t, !.gnow[0] = e.t, !.gcyc[0] = e.t, !.evald[0] = {},
                             !.fired = {}, !.due = {}, !.stale = {}, !.cyc = @ \cup {e.t},
                             !.threw = {}, !.errd = {},
                             !.lw  = [i \in DOMAIN @ |-> IF i \in dl THEN e.t ELSE @[i]],
                             !.lv  = [i \in DOMAIN @ |-> IF i \in dl THEN S.fbq[i][1][2] ELSE @[i]],
                             !.fbq = [i \in DOMAIN @ |-> IF i \in dl THEN Tail(@[i]) ELSE @[i]],
                             \* feedback deliveries are library nodes: discharged by the cycle itself
                             !.pend = {r \in @ : ~(r[2] = e.t /\ Node(r[1]).kind = "fb")}])
    ELSE
        LET pg == S.par[e.g][1]
            pn == S.par[e.g][2]
            why == FirstFail(<<
              <<"C09.child_cycle_without_parent", pg \in Insts>>,
              <<"C09.child_evaluated_while_parent_idle", S.gnow[pg] # 0>>,
              <<"C09.child_time_earlier_than_parent_time", e.t >= S.gnow[pg]>>,
              <<"C09.child_cycle_outside_its_node_evaluation", pn \in S.evald[pg]>>,
              <<"C02.child_time_not_strictly_increasing", e.t > S.gcyc[e.g]>> >>, 1)
        IN IF why # "" THEN Fail(why)
           ELSE Ok([S EXCEPT !.gnow[e.g] = e.t, !.gcyc[e.g] = e.t, !.evald[e.g] = {}])

Captured(i) == \E k \in 1..Len(P(tid).capt) : \E j \in 1..Len(P(tid).capt[k][2]) : P(tid).capt[k][2][j] = i

ShouldFire(s, i, t) ==
    /\ Node(i).kind \notin SourceKinds
    /\ \E k \in ActiveInsS(Node(i), s.nst[i]) : k <= Len(Node(i).ins) /\ s.lw[Node(i).ins[k]] = t
    /\ \A k \in ValidIns(Node(i)) : k <= Len(Node(i).ins) => s.lw[Node(i).ins[k]] # 0

ReqValid(s, i) == \A k \in ValidIns(Node(i)) : k <= Len(Node(i).ins) => s.lw[Node(i).ins[k]] # 0

OnCycled(e) ==
    IF e.g # 0 THEN Ok([S EXCEPT !.gnow[e.g] = 0])
    ELSE
        LET t == S.rnow
            why == FirstFail(<<
              <<"C02.cycle_end_without_cycle", t # 0 /\ e.t = t>>,
              <<"C02.wakeup_not_honoured_in_its_cycle", \A r \in S.pend : r[2] # t>>,
              <<"C03.user_code_did_not_run_though_active_input_ticked",
                    \A i \in S.started : ShouldFire(S, i, t) => i \in S.fired>>,
              <<"C03.user_code_did_not_run_at_due_wakeup",
                    \A i \in S.due : (i \in S.started /\ ReqValid(S, i)) => i \in S.fired>>,
              <<"C15.captured_exception_without_error_tick_in_its_cycle",
                    \A x \in S.threw : Captured(x[1]) => x[1] \in S.errd>> >>, 1)
        IN IF why # "" THEN Fail(why)
           ELSE Ok([S EXCEPT !.rnow = 0, !.last = t, !.gnow = [g \in Insts |-> 0]])

----------------------------------------------------------------------------
(* node evaluation (observer level)                                        *)
OnEval(e) ==
    LET why == FirstFail(<<
          <<"C01.node_evaluated_outside_a_cycle_of_its_graph", S.gnow[e.g] # 0 /\ S.gnow[e.g] = e.t>>,
          <<"C01.node_evaluated_twice_in_one_cycle", e.n \notin S.evald[e.g]>> >>, 1)
        id == IdAt(S, e.g, e.n)
    IN IF why # "" THEN Fail(why)
       ELSE LET s1 == [S EXCEPT !.evald[e.g] = @ \cup {e.n}]
            IN IF id = -1 THEN Ok(s1)
               ELSE Ok([s1 EXCEPT !.due   = IF <<id, e.t>> \in S.pend THEN @ \cup {id} ELSE @,
                                  !.stale = IF <<id, e.t>> \in S.wd THEN @ \cup {id} ELSE @,
                                  !.pend  = @ \ {<<id, e.t>>}])

----------------------------------------------------------------------------
(* user code ran (logged from inside the node's evaluate callback)         *)
Expected(s, e) ==
    LET i == e.id
        n == Node(i)
        iv  == [k \in 1..Len(n.ins) |-> IF s.lw[n.ins[k]] # 0 THEN s.lv[n.ins[k]] ELSE 0]
        iok == [k \in 1..Len(n.ins) |-> s.lw[n.ins[k]] # 0]
    IN CASE n.kind = "src"   -> [w |-> ScriptVal(i, e.t) # NoVal, v |-> ScriptVal(i, e.t), s |-> s.nst[i]]
         [] n.kind = "timer" -> [w |-> TRUE, v |-> s.nst[i], s |-> s.nst[i] + 1]
         [] n.kind = "echo"  -> [w |-> i \in s.due /\ s.fbq[i] # <<>>, v |-> IF s.fbq[i] # <<>> THEN s.fbq[i][1][2] ELSE 0, s |-> s.nst[i]]
         [] n.kind = "techo" -> [w |-> i \in s.due /\ s.fbq[i] # <<>> /\ s.fbq[i][1][2] >= 0,
                                 v |-> IF s.fbq[i] # <<>> THEN s.fbq[i][1][2] ELSE 0, s |-> s.nst[i]]
         [] n.kind = "delay" -> [w |-> i \in s.due, v |-> s.nst[i],
                                 s |-> IF s.lw[n.ins[1]] = e.t THEN iv[1] ELSE s.nst[i]]
         [] n.kind = "tdelay" -> [w |-> i \in s.due /\ s.nst[i] >= 0, v |-> s.nst[i],
                                  s |-> IF s.lw[n.ins[1]] = e.t THEN iv[1] ELSE s.nst[i]]
         [] OTHER            -> F(n, iv, iok, s.nst[i])

InputsTruthful(s, e) ==
    LET n == Node(e.id) IN
    FirstFail(<<
      <<"C03.input_count", Len(e.in) = Len(n.ins)>>,
      <<"C04.consumer_sees_wrong_valid_flag",
            \A k \in 1..Len(n.ins) : (e.in[k].ok = 1) = (s.lw[n.ins[k]] # 0)>>,
      <<"C04.consumer_sees_wrong_modified_flag",
            \A k \in 1..Len(n.ins) : (e.in[k].m = 1) = (s.lw[n.ins[k]] = e.t)>>,
      <<"C04.consumer_sees_wrong_last_modified_time",
            \A k \in 1..Len(n.ins) : e.in[k].lmt = s.lw[n.ins[k]]>>,
      <<"C03.input_is_not_the_latest_value_of_its_producer",
            \A k \in 1..Len(n.ins) : s.lw[n.ins[k]] # 0 => e.in[k].v = s.lv[n.ins[k]]>> >>, 1)

\* Library nodes (kinds in LibKinds) have no user code that logs what it wrote: what they wrote is learnt from the first
\* consumer that reads them (its view of value / last-modified-time); every later reader must agree with that, and the value
\* itself is judged by the stream comparison with Dataflow.tla.
LibKinds == {"fdiv"}
InferLib(s, e) ==
    IF ~IsNode(e.id) THEN s
    ELSE LET n == Node(e.id)
             ks == {k \in 1..Len(n.ins) : k <= Len(e.in) /\ Node(n.ins[k]).kind \in LibKinds /\ e.in[k].ok = 1
                                          /\ e.in[k].lmt > s.lw[n.ins[k]]}
         IN [s EXCEPT !.lw = [p \in DOMAIN @ |-> IF \E k \in ks : n.ins[k] = p THEN e.in[CHOOSE k \in ks : n.ins[k] = p].lmt ELSE @[p]],
                      !.lv = [p \in DOMAIN @ |-> IF \E k \in ks : n.ins[k] = p THEN e.in[CHOOSE k \in ks : n.ins[k] = p].v ELSE @[p]]]

OnFnS(s, e) ==
    IF ~IsNode(e.id) THEN Fail("trace.fn_of_unknown_node")
    ELSE
    LET i == e.id
        n == Node(i)
        t == e.t
        why1 == FirstFail(<<
          <<"C03.user_code_ran_while_node_not_started", i \in s.started>>,
          <<"C03.user_code_ran_outside_a_cycle", s.gnow[e.g] # 0 /\ s.gnow[e.g] = t /\ s.rnow # 0>>,
          <<"C01.user_code_ran_twice_in_one_cycle", i \notin s.fired>>,
          <<"C01.consumer_ran_before_its_producer_had_its_turn", \A c \in Consumers(i) : c \notin s.fired>> >>, 1)
        why2 == IF why1 # "" THEN why1 ELSE InputsTruthful(s, e)
        anyTick == \E k \in ActiveInsS(n, s.nst[i]) : k <= Len(n.ins) /\ s.lw[n.ins[k]] = t
        why3 == IF why2 # "" THEN why2 ELSE FirstFail(<<
          <<"C03.user_code_ran_without_ticked_active_input_or_own_wakeup",
                anyTick \/ i \in s.due \/ i \in s.stale>>,
          <<"C03.user_code_ran_with_invalid_required_input", ReqValid(s, i)>> >>, 1)
    IN IF why3 # "" THEN Fail(why3)
       ELSE LET x == Expected(s, e)
                threw == "throw" \in DOMAIN e
            IN IF (e.w = 1) # x.w \/ (x.w /\ e.out # x.v)
               THEN Fail("C03.output_is_not_the_function_of_the_inputs")
               ELSE LET s0 == IF n.kind \in {"echo", "techo"}
                                 THEN LET q1 == IF i \in s.due /\ s.fbq[i] # <<>> THEN Tail(s.fbq[i]) ELSE s.fbq[i]
                                          q2 == IF s.lw[n.ins[1]] = t THEN Append(q1, <<t + n.k, s.lv[n.ins[1]]>>) ELSE q1
                                      IN [s EXCEPT !.fbq[i] = q2]
                                 ELSE s
                        s1 == [s0 EXCEPT !.fired = @ \cup {i}, !.nst[i] = x.s,
                                        !.threw = IF threw THEN @ \cup {<<i, IF n.kind = "tdelay" THEN s.nst[i] ELSE IF n.kind = "techo" THEN s.fbq[i][1][2] ELSE e.in[1].v>>} ELSE @,
                                        !.tagt[i] = IF n.kind \in {"delay", "tdelay"} /\ i \in s.due /\ @ = t THEN 0 ELSE @]
                        s2 == IF x.w THEN [s1 EXCEPT !.lw[i] = t, !.lv[i] = x.v,
                                                     !.pend = @ \cup {<<f, t + 1>> : f \in FbReaders(i)},
                                                     !.fbq = [f \in DOMAIN @ |-> IF f \in FbReaders(i)
                                                                 THEN Append(@[f], <<t + 1, x.v>>) ELSE @[f]],
                                                     !.reqT = IF FbReaders(i) = {} THEN @ ELSE @ \cup {t + 1}]
                              ELSE s1
                    IN Ok(s2)

OnFn(e) == OnFnS(InferLib(S, e), e)

----------------------------------------------------------------------------
(* wake-up requests made by user code through its scheduler                *)
OnReq(e) ==
    IF ~IsNode(e.id) THEN Ok(S)
    ELSE
    LET i == e.id
        starting == i \notin S.started
        accepted == e.at > e.t \/ (e.at = e.t /\ starting)
    IN IF ~accepted THEN Ok(S)     \* requests for now / the past after start are ignored by design (C18)
       ELSE LET old == S.tagt[i]
                s1  == [S EXCEPT !.pend = @ \cup {<<i, e.at>>}, !.reqT = @ \cup {e.at}]
            IN IF e.tag = "" THEN Ok(s1)
               ELSE Ok([s1 EXCEPT !.tagt[i] = e.at,
                                  !.wd   = IF old # 0 /\ old # e.at THEN @ \cup {<<i, old>>} ELSE @,
                                  !.pend = IF old # 0 /\ old # e.at THEN @ \ {<<i, old>>} ELSE @])

(* captured errors (C15): the error output of the capturing node / try_except ticked *)
OnErr(e) ==
    LET c   == {k \in 1..Len(P(tid).capt) : P(tid).capt[k][1] = e.id}
        ths == IF c = {} THEN {} ELSE {P(tid).capt[CHOOSE k \in c : TRUE][2][j] : j \in 1..Len(P(tid).capt[CHOOSE k \in c : TRUE][2])}
        \* a lifted library operator (fdiv) has no user code that could log its exception: it throws exactly when it is
        \* evaluated (one of its inputs written in this cycle, both valid) with a zero divisor
        lib == {<<i, 0>> : i \in {j \in ths : /\ Node(j).kind = "fdiv"
                                              /\ S.lw[Node(j).ins[1]] # 0 /\ S.lw[Node(j).ins[2]] # 0
                                              /\ S.lv[Node(j).ins[2]] = 0
                                              /\ (S.lw[Node(j).ins[1]] = S.rnow \/ S.lw[Node(j).ins[2]] = S.rnow)}}
        hit == {x \in S.threw \cup lib : x[1] \in ths /\ x[1] \notin S.errd}
        Msg(x) == IF Node(x[1]).kind = "fdiv" THEN "floordiv_: division by zero" ELSE "neg " \o ToString(x[2])
        why == FirstFail(<<
          <<"C15.error_tick_outside_a_cycle", S.rnow # 0 /\ e.t = S.rnow>>,
          <<"C15.error_tick_without_exception_in_this_cycle", hit # {}>>,
          <<"C15.error_message_is_not_the_exception_message",
                \E x \in hit : e.msg = Msg(x)>> >>, 1)
    IN IF why # "" THEN Fail(why)
       ELSE Ok([S EXCEPT !.errd = @ \cup {(CHOOSE x \in hit : e.msg = Msg(x))[1]}])

OnRet(e) ==
    LET why == FirstFail(<<
          <<"run_raised_an_exception", e.ok = 1>>,
          <<"C02.wakeup_inside_window_dropped_at_end", \A r \in S.pend : r[2] >= P(tid).end>> >>, 1)
    IN IF why # "" THEN Fail(why) ELSE Ok([S EXCEPT !.ended = TRUE])

Step(e) ==
    CASE e.e = "cycle"    -> OnCycle(e)
      [] e.e = "cycled"   -> OnCycled(e)
      [] e.e = "eval"     -> OnEval(e)
      [] e.e = "fn"       -> OnFn(e)
      [] e.e = "req"      -> OnReq(e)
      [] e.e = "gstart"   -> OnGstart(e)
      [] e.e = "nstarted" -> OnNstarted(e)
      [] e.e = "nstop"    -> OnNstop(e)
      [] e.e = "ret"      -> OnRet(e)
      [] e.e = "err"      -> OnErr(e)
      [] OTHER            -> Ok(S)

----------------------------------------------------------------------------
Init == /\ tid \in 1..Len(Traces)
        /\ l = 1
        /\ S = InitS(tid)
        /\ verdict = ""
        /\ done = FALSE

Consume == /\ ~done /\ verdict = "" /\ l <= Len(Traces[tid].ev)
           /\ LET r == Step(Traces[tid].ev[l])
              IN  S' = r.S /\ verdict' = r.why
           /\ l' = l + 1
           /\ UNCHANGED <<tid, done>>

Finish == /\ ~done /\ (verdict # "" \/ l > Len(Traces[tid].ev))
          /\ done' = TRUE
          /\ PrintT(<<"VERDICT", Traces[tid].id, l - 1, IF verdict = "" /\ ~S.ended THEN "trace.incomplete" ELSE verdict>>)
          /\ UNCHANGED <<tid, l, S, verdict>>

Next == Consume \/ Finish
Spec == Init /\ [][Next]_vars

=============================================================================
