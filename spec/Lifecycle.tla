------------------------------ MODULE Lifecycle ------------------------------
(***************************************************************************)
(* Level B (implementation-shaped) model of the graph lifecycle under      *)
(* faults (C14).                                                           *)
(*                                                                         *)
(* Code modelled (one action per critical step):                           *)
(*   graph.cpp   start_impl: node loop, `started_nodes`, rollback guard    *)
(*               -> StartLeaf / StartNestedBegin / StartNestedEnd /        *)
(*                  StartDone / RollbackStopLeaf / RollbackStopNested* /   *)
(*                  RollbackDone                                           *)
(*   graph.cpp   stop_impl: reverse loop, FirstExceptionRecorder,          *)
(*               `state.started = false`, deferred rethrow                 *)
(*               -> StopLeaf / StopNestedBegin / StopNestedEnd / StopDone  *)
(*   graph.cpp   evaluate_impl node loop (an exception aborts the cycle)   *)
(*               -> EvalLeaf / EvalNestedBegin / EvalNestedEnd / EvalDone  *)
(*   node.cpp    start_impl / stop_impl: the node's own `started` flag     *)
(*               (set after the user hook returned; cleared by stop even   *)
(*               when the hook throws; stop of a node that is not started  *)
(*               runs no user code)                                        *)
(*   nested_graph_node.cpp  single_nested_graph_start / _stop / _evaluate: *)
(*               the child graph starts / stops / evaluates INSIDE the     *)
(*               nested node's start / stop / evaluation                   *)
(*   executor.cpp run_storage: start phase, cycle loop, the unwind guard   *)
(*               `cleanup_on_error || uncaught_exceptions() == 0`, the     *)
(*               stop phase, what is rethrown; ~ExecutorStorage: stop of a *)
(*               graph that is still started, exceptions swallowed         *)
(*               -> RunBegin / StartReturned / BeginCycle / CycleReturned /*)
(*                  BeginStop / StopReturned / Unwind / UnwindStopReturned *)
(*                  / ReturnFromRun / ReleaseBegin / ReleaseStopReturned / *)
(*                  ReleaseExecutor                                        *)
(*                                                                         *)
(* The call stack of the C++ is explicit: `stack` holds one frame per      *)
(* running graph-level loop (innermost last); a frame that finishes is     *)
(* popped and leaves its result (no exception / the exception) in `res`,   *)
(* which the caller's continuation consumes.                               *)
(*                                                                         *)
(* A scenario = shape (tree of graphs) x fault set x clean-up flag, chosen *)
(* in Init.  A fault <<id, phase, occ>> makes the user hook `phase` of the *)
(* leaf node `id` throw on its occ-th call (the driver's lifecycle nodes   *)
(* count calls per (id, phase): harness/engine/engine.cpp maybe_fault).    *)
(* Afterwards the behaviour is deterministic; its event log is what the    *)
(* lifecycle observer of the real engine must show (glue/life_model.py).   *)
(*                                                                         *)
(* Level A (the sentences of C14) is checked on every behaviour:           *)
(*   StoppedExactlyOnce, ReverseStopOrder, NoEvalOutsideStartStop,         *)
(*   FailedStartStopsExactlyStarted, FailingStopDoesNotPreventOthers,      *)
(*   OriginalErrorReachesCaller.                                           *)
(*                                                                         *)
(* Not modelled: children created and retired during evaluation (map_,     *)
(* switch_, reduce) and the real-time loop; those are covered by level A   *)
(* trace validation only (LifeTrace.tla on check_life's scenarios).        *)
(*                                                                         *)
(* Fault = "none" is the code as it is.  Named slips, each of which TLC    *)
(* must reject:                                                            *)
(*   "fwdrollback"   the rollback walks the started nodes 0..k-1 instead   *)
(*                   of k-1..0 (seeded change C14-B)                       *)
(*   "stopabort"     the stop loop lets the first exception escape (no     *)
(*                   recorder): later nodes are not stopped, the graph     *)
(*                   stays marked started                                  *)
(*   "rollbackabort" a throwing stop ends the rollback (the unwind guard   *)
(*                   swallows the exception as a whole): the defect fixed  *)
(*                   by 785f910                                            *)
(*   "noreturnstop"  run() leaves without the stop phase on the error path *)
(*                   (guard condition `&&` instead of `||`)                *)
(*   "lasterror"     the recorder keeps the LAST exception and a failure   *)
(*                   of the clean-up replaces the error being unwound      *)
(*   "rollbackincl"  `++started_nodes` before the start call: the rollback *)
(*                   also stops the node whose start failed                *)
(*   "nochildstart"  the nested node does not start its child graph in its *)
(*                   start hook (start_child_on_start dropped)             *)
(***************************************************************************)
EXTENDS Integers, Sequences, FiniteSets, TLC, Json

CONSTANTS ShapeSet,     \* set of shape records (see Flat3 ...)
          MaxOcc,       \* occurrences 1..MaxOcc
          MaxFaults,    \* 0, 1 or 2 faults per scenario
          Fault,        \* "none" or a named slip
          Emit          \* TRUE: print every finished behaviour as one JSON line

----------------------------------------------------------------------------
\* shapes: G[g] is the node list of graph g (graph 1 is the root); a node is a leaf with a scenario id or a nested node
\* owning child graph `child`.  The three named shapes are the ones of glue/check_life.py (same ids, same order).
L(id) == [id |-> id, child |-> 0]
N(c)  == [id |-> 0, child |-> c]
Flat3   == [name |-> "flat3",   cycles |-> 3, G |-> << <<L(1), L(2), L(3)>> >>]
Nested  == [name |-> "nested",  cycles |-> 3, G |-> << <<L(1), L(2), N(2), L(6)>>, <<L(4), L(5)>> >>]
Nested2 == [name |-> "nested2", cycles |-> 2, G |-> << <<L(1), N(2), L(6)>>, <<L(7), N(3)>>, <<L(4), L(5)>> >>]

KeysOf(sh)    == UNION {{<<g, i>> : i \in 1..Len(sh.G[g])} : g \in 1..Len(sh.G)}
LeafIdsOf(sh) == {sh.G[k[1]][k[2]].id : k \in KeysOf(sh)} \ {0}
Phases        == {"start", "eval", "stop"}
UniverseOf(sh) == LeafIdsOf(sh) \X Phases \X (1..MaxOcc)
FaultSetsOf(sh) == {{}} \cup (IF MaxFaults >= 1 THEN {{a} : a \in UniverseOf(sh)} ELSE {})
                        \cup (IF MaxFaults >= 2 THEN {{a, b} : a \in UniverseOf(sh), b \in UniverseOf(sh)} ELSE {})

NoExc == [id |-> 0, phase |-> "", g |-> 0, n |-> 0]
NoRes == [set |-> FALSE, exc |-> NoExc]
Res(x) == [set |-> TRUE, exc |-> x]

VARIABLES shape, faults, cleanup,      \* the scenario
          pc, cyc, inflight,           \* run_storage: where it is, cycle number, the exception being unwound / to rethrow
          stack, res,                  \* the call stack of graph-level loops and the result of the last finished one
          nst, gst,                    \* node.started / graph.started flags
          cnt,                         \* calls of user hooks per <<id, phase>>
          log,                         \* observer events, in order
          stat, stops, evals,          \* level A bookkeeping per node: status, stop attempts, evaluations
          first,                       \* the first exception thrown by user code
          ret,                         \* what run() handed to its caller
          gfailed, gstopret            \* graphs whose start failed / whose stop call returned
vars == <<shape, faults, cleanup, pc, cyc, inflight, stack, res, nst, gst, cnt, log, stat, stops, evals, first, ret, gfailed, gstopret>>

G        == shape.G
Keys     == shape.K
Desc(k)  == G[k[1]][k[2]]
IsLeaf(k) == Desc(k).child = 0
NodeCount(g) == Len(G[g])
ParentOf(g) == CHOOSE k \in Keys : Desc(k).child = g
RECURSIVE RootIndex(_)
RootIndex(k) == IF k[1] = 1 THEN k[2] ELSE RootIndex(ParentOf(k[1]))

Ev(e, k) == [e |-> e, g |-> k[1] - 1, n |-> k[2] - 1]
PhaseWord(p) == CASE p = "eval" -> "evaluate" [] OTHER -> p
RetEv(x) == IF x = NoExc THEN [e |-> "ret", ok |-> 1, node |-> 0 - 1, id |-> 0, phase |-> "", word |-> ""]
            ELSE [e |-> "ret", ok |-> 0, node |-> RootIndex(<<x.g, x.n>>) - 1, id |-> x.id, phase |-> x.phase, word |-> PhaseWord(x.phase)]

Fires(id, ph) == <<id, ph, cnt[<<id, ph>>] + 1>> \in faults
Bump(id, ph)  == [cnt EXCEPT ![<<id, ph>>] = @ + 1]
Exc(k, ph)    == [id |-> Desc(k).id, phase |-> ph, g |-> k[1], n |-> k[2]]
First(x)      == IF first = NoExc THEN x ELSE first

Frame(op, g, i, m) == [op |-> op, g |-> g, i |-> i, m |-> m, wait |-> FALSE, exc |-> NoExc]
Top    == stack[Len(stack)]
Pop    == SubSeq(stack, 1, Len(stack) - 1)
SetTop(f) == [stack EXCEPT ![Len(stack)] = f]
Running(op) == Len(stack) > 0 /\ Top.op = op
\* graph.stop(): `if (!state.started) return;` -> a frame that does nothing (m = 0)
StopFrame(g) == IF gst[g] THEN Frame("stop", g, NodeCount(g), 1) ELSE Frame("stop", g, 0, 0)

\* K: the node keys of the shape, computed once (the invariants range over them in every state)
WithKeys(sh) == [name |-> sh.name, cycles |-> sh.cycles, G |-> sh.G, K |-> KeysOf(sh)]
Init == /\ shape \in {WithKeys(sh) : sh \in ShapeSet}
        /\ faults \in FaultSetsOf(shape)
        /\ cleanup \in BOOLEAN
        /\ pc = "init" /\ cyc = 0 /\ inflight = NoExc
        /\ stack = <<>> /\ res = NoRes
        /\ nst = [k \in KeysOf(shape) |-> FALSE]
        /\ gst = [g \in 1..Len(shape.G) |-> FALSE]
        /\ cnt = [x \in LeafIdsOf(shape) \X Phases |-> 0]
        /\ log = <<>>
        /\ stat = [k \in KeysOf(shape) |-> "none"]
        /\ stops = [k \in KeysOf(shape) |-> 0]
        /\ evals = [k \in KeysOf(shape) |-> 0]
        /\ first = NoExc /\ ret = NoRes
        /\ gfailed = [g \in 1..Len(shape.G) |-> FALSE]
        /\ gstopret = [g \in 1..Len(shape.G) |-> FALSE]

Scn == <<shape, faults, cleanup>>

----------------------------------------------------------------------------
(* graph.cpp start_impl *)
\* the rollback guard fires: stop what was started (m nodes; i of them still to go), then hand the start failure on
ToRollback(g, started, x) ==
    LET m == IF Fault = "rollbackincl" THEN started + 1 ELSE started
    IN  [Frame("rollback", g, m, m) EXCEPT !.exc = x]

StartLeaf ==
    /\ Running("start") /\ ~Top.wait /\ Top.i < NodeCount(Top.g)
    /\ LET k == <<Top.g, Top.i + 1>> IN
       /\ IsLeaf(k)
       /\ cnt' = Bump(Desc(k).id, "start")
       /\ IF Fires(Desc(k).id, "start")
          THEN /\ log' = log \o <<Ev("nstart", k), Ev("nstartfail", k)>>
               /\ stat' = [stat EXCEPT ![k] = "startfailed"]
               /\ first' = First(Exc(k, "start"))
               /\ stack' = SetTop(ToRollback(Top.g, Top.i, Exc(k, "start")))
               /\ nst' = nst
          ELSE /\ log' = log \o <<Ev("nstart", k), Ev("nstarted", k)>>
               /\ stat' = [stat EXCEPT ![k] = "started"]
               /\ nst' = [nst EXCEPT ![k] = TRUE]                           \* node.cpp: state.started = true after the hook
               /\ stack' = SetTop([Top EXCEPT !.i = @ + 1])                 \* ++started_nodes
               /\ first' = first
    /\ UNCHANGED <<Scn, pc, cyc, inflight, res, gst, stops, evals, ret, gfailed, gstopret>>

\* single_nested_graph_start: child_graph().start() inside the node's start hook
StartNestedBegin ==
    /\ Running("start") /\ ~Top.wait /\ Top.i < NodeCount(Top.g)
    /\ LET k == <<Top.g, Top.i + 1>> IN
       /\ ~IsLeaf(k)
       /\ IF Fault = "nochildstart"
          THEN /\ log' = log \o <<Ev("nstart", k), Ev("nstarted", k)>>
               /\ stat' = [stat EXCEPT ![k] = "started"]
               /\ nst' = [nst EXCEPT ![k] = TRUE]
               /\ stack' = SetTop([Top EXCEPT !.i = @ + 1])
          ELSE /\ log' = Append(log, Ev("nstart", k))
               /\ stat' = [stat EXCEPT ![k] = "starting"]
               /\ stack' = Append(SetTop([Top EXCEPT !.wait = TRUE]), Frame("start", Desc(k).child, 0, 0))
               /\ nst' = nst
    /\ UNCHANGED <<Scn, pc, cyc, inflight, res, gst, cnt, stops, evals, first, ret, gfailed, gstopret>>

StartNestedEnd ==
    /\ Running("start") /\ Top.wait /\ res.set
    /\ LET k == <<Top.g, Top.i + 1>> IN
       IF res.exc = NoExc
       THEN /\ log' = Append(log, Ev("nstarted", k))
            /\ stat' = [stat EXCEPT ![k] = "started"]
            /\ nst' = [nst EXCEPT ![k] = TRUE]
            /\ stack' = SetTop([Top EXCEPT !.i = @ + 1, !.wait = FALSE])
       ELSE /\ log' = Append(log, Ev("nstartfail", k))
            /\ stat' = [stat EXCEPT ![k] = "startfailed"]
            /\ stack' = SetTop(ToRollback(Top.g, Top.i, res.exc))
            /\ nst' = nst
    /\ res' = NoRes
    /\ UNCHANGED <<Scn, pc, cyc, inflight, gst, cnt, stops, evals, first, ret, gfailed, gstopret>>

StartDone ==
    /\ Running("start") /\ ~Top.wait /\ Top.i = NodeCount(Top.g)
    /\ gst' = [gst EXCEPT ![Top.g] = TRUE]
    /\ stack' = Pop /\ res' = Res(NoExc)
    /\ UNCHANGED <<Scn, pc, cyc, inflight, nst, cnt, log, stat, stops, evals, first, ret, gfailed, gstopret>>

\* the node the rollback visits next: index - 1 counting down, or (slip) counting up
RollbackKey == <<Top.g, IF Fault = "fwdrollback" THEN Top.m - Top.i + 1 ELSE Top.i>>
\* after a stop of the rollback: on to the next node; a throwing stop is swallowed per node (785f910) or (slip) ends the loop
RollbackNext(threw) == [Top EXCEPT !.i = IF threw /\ Fault = "rollbackabort" THEN 0 ELSE @ - 1, !.wait = FALSE]
Stopped(k) == IF stat[k] \in {"started", "stopping"} THEN [stat EXCEPT ![k] = "stopped"] ELSE stat

\* node.cpp stop_impl on a leaf: no user code unless the node is started; the flag is cleared even when the hook throws
LeafStopThrows(k) == nst[k] /\ Fires(Desc(k).id, "stop")
LeafStopEvents(k) == IF LeafStopThrows(k) THEN <<Ev("nstop", k), Ev("nstopfail", k), Ev("nstopped", k)>>
                     ELSE <<Ev("nstop", k), Ev("nstopped", k)>>
LeafStopCommon(k) ==
    /\ IsLeaf(k)
    /\ cnt' = IF nst[k] THEN Bump(Desc(k).id, "stop") ELSE cnt
    /\ log' = log \o LeafStopEvents(k)
    /\ nst' = [nst EXCEPT ![k] = FALSE]
    /\ stat' = Stopped(k)
    /\ stops' = [stops EXCEPT ![k] = @ + 1]
    /\ first' = IF LeafStopThrows(k) THEN First(Exc(k, "stop")) ELSE first

RollbackStopLeaf ==
    /\ Running("rollback") /\ ~Top.wait /\ Top.i > 0
    /\ LeafStopCommon(RollbackKey)
    /\ stack' = SetTop(RollbackNext(LeafStopThrows(RollbackKey)))
    /\ UNCHANGED <<Scn, pc, cyc, inflight, res, gst, evals, ret, gfailed, gstopret>>

\* single_nested_graph_stop: child_graph().stop() inside the node's stop hook (only when the node is started)
NestedStopBegin(k) ==
    /\ ~IsLeaf(k)
    /\ stops' = [stops EXCEPT ![k] = @ + 1]
    /\ IF nst[k]
       THEN /\ log' = Append(log, Ev("nstop", k))
            /\ stat' = [stat EXCEPT ![k] = IF @ = "started" THEN "stopping" ELSE @]
            /\ stack' = Append(SetTop([Top EXCEPT !.wait = TRUE]), StopFrame(Desc(k).child))
       ELSE /\ log' = log \o <<Ev("nstop", k), Ev("nstopped", k)>>
            /\ stat' = stat
            /\ stack' = SetTop([Top EXCEPT !.i = @ - 1])

RollbackStopNestedBegin ==
    /\ Running("rollback") /\ ~Top.wait /\ Top.i > 0
    /\ NestedStopBegin(RollbackKey)
    /\ UNCHANGED <<Scn, pc, cyc, inflight, res, nst, gst, cnt, evals, first, ret, gfailed, gstopret>>

RollbackStopNestedEnd ==
    /\ Running("rollback") /\ Top.wait /\ res.set
    /\ LET k == RollbackKey IN
       /\ log' = log \o (IF res.exc # NoExc THEN <<Ev("nstopfail", k), Ev("nstopped", k)>> ELSE <<Ev("nstopped", k)>>)
       /\ nst' = [nst EXCEPT ![k] = FALSE]
       /\ stat' = Stopped(k)
    /\ stack' = SetTop(RollbackNext(res.exc # NoExc))
    /\ res' = NoRes
    /\ UNCHANGED <<Scn, pc, cyc, inflight, gst, cnt, stops, evals, first, ret, gfailed, gstopret>>

\* end of the guard: `state.started = false`; the start failure continues to unwind
RollbackDone ==
    /\ Running("rollback") /\ ~Top.wait /\ Top.i = 0
    /\ gst' = [gst EXCEPT ![Top.g] = FALSE]
    /\ gfailed' = [gfailed EXCEPT ![Top.g] = TRUE]
    /\ stack' = Pop /\ res' = Res(Top.exc)
    /\ UNCHANGED <<Scn, pc, cyc, inflight, nst, cnt, log, stat, stops, evals, first, ret, gstopret>>

----------------------------------------------------------------------------
(* graph.cpp stop_impl *)
\* FirstExceptionRecorder::capture (slip: keeps the last); slip "stopabort": no recorder, the exception leaves the loop
Record(x) == IF Top.exc = NoExc \/ Fault = "lasterror" THEN x ELSE Top.exc
StopNext(threw, x) ==
    IF threw /\ Fault = "stopabort" THEN [Top EXCEPT !.i = 0, !.m = 2, !.exc = x, !.wait = FALSE]
    ELSE [Top EXCEPT !.i = @ - 1, !.exc = IF threw THEN Record(x) ELSE @, !.wait = FALSE]

StopLeaf ==
    /\ Running("stop") /\ ~Top.wait /\ Top.i > 0
    /\ LET k == <<Top.g, Top.i>> IN
       /\ LeafStopCommon(k)
       /\ stack' = SetTop(StopNext(LeafStopThrows(k), Exc(k, "stop")))
    /\ UNCHANGED <<Scn, pc, cyc, inflight, res, gst, evals, ret, gfailed, gstopret>>

StopNestedBegin ==
    /\ Running("stop") /\ ~Top.wait /\ Top.i > 0
    /\ NestedStopBegin(<<Top.g, Top.i>>)
    /\ UNCHANGED <<Scn, pc, cyc, inflight, res, nst, gst, cnt, evals, first, ret, gfailed, gstopret>>

StopNestedEnd ==
    /\ Running("stop") /\ Top.wait /\ res.set
    /\ LET k == <<Top.g, Top.i>> IN
       /\ log' = log \o (IF res.exc # NoExc THEN <<Ev("nstopfail", k), Ev("nstopped", k)>> ELSE <<Ev("nstopped", k)>>)
       /\ nst' = [nst EXCEPT ![k] = FALSE]
       /\ stat' = Stopped(k)
    /\ stack' = SetTop(StopNext(res.exc # NoExc, res.exc))
    /\ res' = NoRes
    /\ UNCHANGED <<Scn, pc, cyc, inflight, gst, cnt, stops, evals, first, ret, gfailed, gstopret>>

\* `state.started = false; ... exceptions.rethrow_if_any()` (m = 1); nothing to do (m = 0); the exception escaped (m = 2)
StopDone ==
    /\ Running("stop") /\ ~Top.wait /\ Top.i = 0
    /\ gst' = IF Top.m = 1 THEN [gst EXCEPT ![Top.g] = FALSE] ELSE gst
    /\ gstopret' = IF Top.m # 0 THEN [gstopret EXCEPT ![Top.g] = TRUE] ELSE gstopret
    /\ stack' = Pop /\ res' = Res(Top.exc)
    /\ UNCHANGED <<Scn, pc, cyc, inflight, nst, cnt, log, stat, stops, evals, first, ret, gfailed>>

----------------------------------------------------------------------------
(* graph.cpp evaluate_impl: every node of these shapes is due in every cycle; an exception aborts the cycle *)
EvalLeaf ==
    /\ Running("eval") /\ ~Top.wait /\ Top.i <= NodeCount(Top.g)
    /\ LET k == <<Top.g, Top.i>> IN
       /\ IsLeaf(k)
       /\ log' = Append(log, Ev("eval", k))
       /\ evals' = [evals EXCEPT ![k] = @ + 1]
       /\ cnt' = Bump(Desc(k).id, "eval")
       /\ IF Fires(Desc(k).id, "eval")
          THEN /\ first' = First(Exc(k, "eval"))
               /\ stack' = Pop /\ res' = Res(Exc(k, "eval"))
          ELSE /\ first' = first
               /\ stack' = SetTop([Top EXCEPT !.i = @ + 1]) /\ res' = res
    /\ UNCHANGED <<Scn, pc, cyc, inflight, nst, gst, stat, stops, ret, gfailed, gstopret>>

EvalNestedBegin ==
    /\ Running("eval") /\ ~Top.wait /\ Top.i <= NodeCount(Top.g)
    /\ LET k == <<Top.g, Top.i>> IN
       /\ ~IsLeaf(k)
       /\ log' = Append(log, Ev("eval", k))
       /\ evals' = [evals EXCEPT ![k] = @ + 1]
       /\ stack' = Append(SetTop([Top EXCEPT !.wait = TRUE]), Frame("eval", Desc(k).child, 1, 0))
    /\ UNCHANGED <<Scn, pc, cyc, inflight, res, nst, gst, cnt, stat, stops, first, ret, gfailed, gstopret>>

EvalNestedEnd ==
    /\ Running("eval") /\ Top.wait /\ res.set
    /\ IF res.exc # NoExc THEN stack' = Pop /\ res' = res
       ELSE stack' = SetTop([Top EXCEPT !.i = @ + 1, !.wait = FALSE]) /\ res' = NoRes
    /\ UNCHANGED <<Scn, pc, cyc, inflight, nst, gst, cnt, log, stat, stops, evals, first, ret, gfailed, gstopret>>

EvalDone ==
    /\ Running("eval") /\ ~Top.wait /\ Top.i > NodeCount(Top.g)
    /\ stack' = Pop /\ res' = Res(NoExc)
    /\ UNCHANGED <<Scn, pc, cyc, inflight, nst, gst, cnt, log, stat, stops, evals, first, ret, gfailed, gstopret>>

----------------------------------------------------------------------------
(* executor.cpp run_storage / ~ExecutorStorage *)
Idle == stack = <<>>
Exe(newpc, newcyc, newinf, newstack, newres) ==
    /\ pc' = newpc /\ cyc' = newcyc /\ inflight' = newinf /\ stack' = newstack /\ res' = newres
    /\ UNCHANGED <<Scn, nst, gst, cnt, stat, stops, evals, first, gfailed, gstopret>>

RunBegin      == pc = "init" /\ Exe("start", 0, NoExc, <<Frame("start", 1, 0, 0)>>, NoRes) /\ UNCHANGED <<log, ret>>
\* a failed start leaves run() before the stop guard exists (start_impl has rolled back on its own)
StartReturned == /\ pc = "start" /\ Idle /\ res.set
                 /\ Exe(IF res.exc # NoExc THEN "ret" ELSE "cycle", 1, res.exc, <<>>, NoRes) /\ UNCHANGED <<log, ret>>
BeginCycle    == /\ pc = "cycle" /\ cyc <= shape.cycles
                 /\ Exe("eval", cyc, NoExc, <<Frame("eval", 1, 1, 0)>>, NoRes) /\ UNCHANGED <<log, ret>>
CycleReturned == /\ pc = "eval" /\ Idle /\ res.set
                 /\ IF res.exc # NoExc THEN Exe("unwind", cyc, res.exc, <<>>, NoRes) ELSE Exe("cycle", cyc + 1, NoExc, <<>>, NoRes)
                 /\ UNCHANGED <<log, ret>>
\* stop_graph.complete(): the normal stop phase; its (first) exception is what run() throws
BeginStop     == /\ pc = "cycle" /\ cyc > shape.cycles
                 /\ Exe("stop", cyc, NoExc, <<StopFrame(1)>>, NoRes) /\ UNCHANGED <<log, ret>>
StopReturned  == /\ pc = "stop" /\ Idle /\ res.set
                 /\ Exe("ret", cyc, res.exc, <<>>, NoRes) /\ UNCHANGED <<log, ret>>
\* ~UnwindCleanupGuard with an exception in flight: `if (cleanup_on_error || uncaught_exceptions() == 0) stop_storage()`
Unwind        == /\ pc = "unwind"
                 /\ IF cleanup /\ Fault # "noreturnstop" THEN Exe("unwindstop", cyc, inflight, <<StopFrame(1)>>, NoRes)
                    ELSE Exe("ret", cyc, inflight, <<>>, NoRes)
                 /\ UNCHANGED <<log, ret>>
\* a failure of the clean-up is swallowed: the error being unwound stays the one that reaches the caller
UnwindStopReturned ==
                 /\ pc = "unwindstop" /\ Idle /\ res.set
                 /\ Exe("ret", cyc, IF Fault = "lasterror" /\ res.exc # NoExc THEN res.exc ELSE inflight, <<>>, NoRes)
                 /\ UNCHANGED <<log, ret>>
ReturnFromRun == /\ pc = "ret"
                 /\ log' = Append(log, RetEv(inflight))
                 /\ ret' = Res(inflight)
                 /\ Exe("returned", cyc, inflight, <<>>, NoRes)
\* the executor value goes out of scope: `if (graph.started()) stop_storage()` with every exception swallowed
ReleaseBegin  == /\ pc = "returned"
                 /\ IF gst[1] THEN Exe("relstop", cyc, inflight, <<StopFrame(1)>>, NoRes) ELSE Exe("release", cyc, inflight, <<>>, NoRes)
                 /\ UNCHANGED <<log, ret>>
ReleaseStopReturned ==
                 /\ pc = "relstop" /\ Idle /\ res.set
                 /\ Exe("release", cyc, inflight, <<>>, NoRes) /\ UNCHANGED <<log, ret>>

Tree == {<<ParentOf(g)[1] - 1, ParentOf(g)[2] - 1, g - 1>> : g \in 2..Len(G)}
Behaviour(l) == [shape |-> shape.name, cleanup |-> IF cleanup THEN 1 ELSE 0, faults |-> faults, tree |-> Tree, obs |-> l]
ReleaseExecutor ==
                 /\ pc = "release"
                 /\ log' = Append(log, [e |-> "released"])
                 /\ Exe("released", cyc, inflight, <<>>, NoRes) /\ UNCHANGED ret
                 /\ Emit => PrintT(<<"LIFE", ToJson(Behaviour(log'))>>)

Next == \/ StartLeaf \/ StartNestedBegin \/ StartNestedEnd \/ StartDone
        \/ RollbackStopLeaf \/ RollbackStopNestedBegin \/ RollbackStopNestedEnd \/ RollbackDone
        \/ StopLeaf \/ StopNestedBegin \/ StopNestedEnd \/ StopDone
        \/ EvalLeaf \/ EvalNestedBegin \/ EvalNestedEnd \/ EvalDone
        \/ RunBegin \/ StartReturned \/ BeginCycle \/ CycleReturned \/ BeginStop \/ StopReturned
        \/ Unwind \/ UnwindStopReturned \/ ReturnFromRun \/ ReleaseBegin \/ ReleaseStopReturned \/ ReleaseExecutor
Spec == Init /\ [][Next]_vars

----------------------------------------------------------------------------
(* Level A: the sentences of C14 *)
Returned == pc \in {"returned", "relstop", "release", "released"}
SameGraph(a, b) == a[1] = b[1]

\* every node whose start completed is stopped exactly once, no later than the return of the run (or, when clean-up on error
\* is switched off, the release of the executor)
StoppedExactlyOnce ==
    /\ \A k \in Keys : stops[k] <= 1
    /\ ((Returned /\ cleanup) \/ pc = "released") => \A k \in Keys : stat[k] \notin {"starting", "started", "stopping"}

\* nodes start in evaluation order and stop in the reverse order
ReverseStopOrder ==
    [][/\ \A k \in Keys : (stat[k] = "none" /\ stat'[k] # "none") => \A x \in Keys : (SameGraph(x, k) /\ x[2] < k[2]) => stat[x] # "none"
       /\ \A k \in Keys : stops'[k] > stops[k] => \A x \in Keys : (SameGraph(x, k) /\ x[2] > k[2]) => stat[x] # "started"]_vars

\* no node is evaluated before its start or after its stop
NoEvalOutsideStartStop == [][\A k \in Keys : evals'[k] > evals[k] => stat[k] = "started"]_vars

\* a failed start stops exactly the nodes already started: none of them is left, nothing else is touched
FailedStartStopsExactlyStarted ==
    /\ \A g \in DOMAIN gfailed : gfailed[g] => \A k \in Keys : k[1] = g => stat[k] \in {"none", "stopped", "startfailed"}
    /\ \A k \in Keys : stat[k] \in {"none", "starting", "startfailed"} => stops[k] = 0

\* a failing stop does not prevent the remaining nodes from stopping: when a graph's stop returns, whichever way, none is left
FailingStopDoesNotPreventOthers ==
    \A g \in DOMAIN gstopret : gstopret[g] => \A k \in Keys : k[1] = g => stat[k] # "started"

\* the original error reaches the caller naming the failing node (RetEv derives the root node from the exception)
OriginalErrorReachesCaller == Returned => (ret.set /\ ret.exc = first)

\* the model's own hygiene
FlagsAgree == \A k \in Keys : nst[k] <=> stat[k] \in {"started", "stopping"}
=============================================================================
