------------------------------ MODULE AbortScan ------------------------------
(***************************************************************************)
(* Level B of ONE nested child graph's evaluation scan when a cycle can be *)
(* cut short: src/hgraph/runtime/graph.cpp evaluate_impl (cursor,          *)
(* evaluation_failed, resuming, the tail loop after a throw),              *)
(* schedule_node_impl / nested_schedule_node_impl (slot rule, push to the  *)
(* parent), node.cpp (the scheduler step after an evaluation - also when   *)
(* the evaluation throws) and the parent that catches the exception        *)
(* (try_except_node.cpp, the per-key capture of map_): it records one      *)
(* error tick and PULLS the child's next scheduled time.                   *)
(*                                                                         *)
(* Four genuine defects of the tree lived exactly here (fix commits        *)
(* 0255904, 34435de, 29da875, d8ff4e2) and several independent seeded      *)
(* changes hit the same lines; each is a named Fault that TLC must reject. *)
(*                                                                         *)
(* The child has N nodes ranked 1..N; node 1 reads the boundary input,     *)
(* Cons[i] are the later-ranked nodes reading node i's output.  A node     *)
(* that is activated may request own wake-ups (want[i], the truth: the     *)
(* pending events of its NodeScheduler), may throw (nodes in Throwers), or *)
(* may pause (nodes in Pausers: mesh_ dependency not ready; the enclosing  *)
(* node resumes the SAME cycle later).  An activation that returns         *)
(* normally ticks the node's output, which schedules its consumers for the *)
(* same cycle.                                                             *)
(*                                                                         *)
(*   slot[i]   the child's schedule table entry of node i (0 = never)      *)
(*   cache     the child's cached next scheduled time (Inf = none)         *)
(*   cursor    evaluation_cursor (0 = fresh)        failed  evaluation_failed *)
(*   pslot     the parent node's entry in ITS graph's table: when the      *)
(*             parent will next evaluate the child (Inf = never)           *)
(*   now       the child's evaluation time; pnow the parent's              *)
(*   visited   ghost: nodes activated in the current child cycle           *)
(*   lostdue   ghost: wake-ups that were due IN an aborted cycle at nodes  *)
(*             the scan never reached (the documented loss, DESIGN 12.4)   *)
(*                                                                         *)
(* Level A (between cycles): every pending wake-up of every node is        *)
(* covered by the node's slot, the child's work by the parent's slot       *)
(* (NodeArmed, ParentCovers => no wake-up inside the wrapped sub-graph is  *)
(* lost, C02 / C09 / C15); no node is activated twice in a cycle and never *)
(* before a producer it reads (C01); a cycle after a captured exception is *)
(* a fresh cycle: every due node gets its turn (C15 "evaluated normally    *)
(* again").                                                                *)
(***************************************************************************)
EXTENDS Naturals, Sequences, FiniteSets, TLC, Json

CONSTANTS N,          \* nodes of the child, ranked 1..N
          Cons,       \* [1..N -> SUBSET 1..N]: consumers of node i's output (all ranked later)
          Throwers,   \* nodes whose evaluation may throw
          Pausers,    \* nodes whose evaluation may ask for a pause (once per cycle)
          MaxT,       \* horizon
          Dts,        \* own wake-up offsets a node may ask for
          Fault,
          Emit        \* TRUE: print every finished behaviour (simulation configs)

Inf == MaxT + 10
Nodes == 1..N
MinOf(S) == CHOOSE x \in S : \A y \in S : x <= y
NextOf(w) == IF w = {} THEN Inf ELSE MinOf(w)

VARIABLES now, pnow, phase, want, slot, cache, cursor, failed, pslot, visited, lostdue, paused, ticked, twice, badenter, hist
vars == <<now, pnow, phase, want, slot, cache, cursor, failed, pslot, visited, lostdue, paused, ticked, twice, badenter, hist>>
\* the history multiplies states without adding behaviour: hidden in exhaustive configurations
View == <<now, pnow, phase, want, slot, cache, cursor, failed, pslot, visited, lostdue, paused, ticked, twice, badenter>>

\* ------------------------------------------------------------------ schedule_node_impl on the child's table
\* returns <<slot', cache'>> for schedule_node(i, when) at child time `cur` (when >= cur)
SchedSlot(sl, ca, cur, i, when) ==
    IF sl[i] <= cur \/ when < sl[i]
    THEN << [sl EXCEPT ![i] = when], IF when > cur /\ when < ca THEN when ELSE ca >>
    ELSE << sl, ca >>

\* node.cpp after an evaluation of node i at time t: drop the fired / overdue events, re-arm the slot from the earliest
\* pending one.  (Fault "nosettle": skipped when the evaluation threw.)
Settle(w, sl, ca, t, i) ==
    LET w2 == [w EXCEPT ![i] = {x \in w[i] : x > t}]
        nx == NextOf(w2[i])
        sc == IF nx < Inf THEN SchedSlot(sl, ca, t, i, nx) ELSE <<sl, ca>>
    IN <<w2, sc[1], sc[2]>>

\* a stale head: the scheduler still believes its earliest event is one that already fired, so a re-arm from it is a
\* request for the past and is ignored - the later events are never armed (what the two scheduler defects looked like)
ReArmFromHead(w, sl, ca, t, i) ==
    LET nx == NextOf(w[i])
    IN IF nx < Inf /\ nx > t THEN SchedSlot(sl, ca, t, i, nx) ELSE <<sl, ca>>

Init == /\ now = 0 /\ pnow = 0 /\ phase = "idle"
        /\ want = [i \in Nodes |-> {}]
        /\ slot = [i \in Nodes |-> IF i = 1 THEN 1 ELSE 0]    \* sampled initialisation: the boundary consumer runs in the start cycle
        /\ cache = 1 /\ cursor = 0 /\ failed = FALSE /\ pslot = 1
        /\ visited = {} /\ lostdue = {} /\ paused = {} /\ ticked = FALSE /\ twice = FALSE /\ badenter = FALSE
        /\ hist = <<>>

\* ------------------------------------------------------------------ the parent's cycle reaches the wrapped node
\* The parent graph runs a cycle at T (T = pslot, or an outer input ticks at T).  An outer tick notifies node 1 of the
\* idle child: nested_schedule_node_impl (slot rule with the clamp to the parent's time, cache, push to the parent).
ParentCycle(T, tick) ==
    /\ phase = "idle" /\ T > pnow /\ T <= MaxT
    /\ (tick \/ pslot = T)
    /\ pslot >= T                                        \* the engine never skips the parent's own entry
    /\ pnow' = T
    /\ ticked' = tick
    /\ LET sc == IF tick THEN SchedSlot(slot, cache, now, 1, T) ELSE <<slot, cache>>
       IN /\ slot' = sc[1]
          /\ cache' = IF tick /\ T < sc[2] THEN T ELSE sc[2]
    /\ phase' = "enter"
    /\ hist' = IF Emit THEN Append(hist, [t |-> T, tick |-> tick, acts |-> <<>>]) ELSE hist
    /\ UNCHANGED <<now, want, cursor, failed, pslot, visited, lostdue, paused, twice, badenter>>

\* evaluate_impl entry: fresh cycle or resumption of a paused one
Enter ==
    /\ phase = "enter"
    /\ LET resuming == IF Fault = "resumeafterfail" THEN cursor # 0
                       ELSE ~failed /\ cursor # 0
       IN /\ now' = pnow
          /\ failed' = FALSE
          /\ IF resuming
             THEN /\ cursor' = IF Fault = "restartonresume" THEN 1 ELSE cursor
                  /\ UNCHANGED <<cache, visited>>
             ELSE /\ cursor' = 1
                  /\ cache' = Inf
                  /\ visited' = {}
    /\ badenter' = (badenter \/ (failed /\ cursor' # 1) \/ (~failed /\ cursor # 0 /\ cursor' # cursor))
    /\ phase' = "scan"
    /\ UNCHANGED <<pnow, want, slot, pslot, lostdue, paused, ticked, twice, hist>>

Log(i, req, outcome) == IF ~Emit THEN hist ELSE [hist EXCEPT ![Len(hist)].acts = Append(@, [n |-> i, req |-> req, out |-> outcome])]

\* the scan passes a node that is not due: fold its future entry into the cache
Pass ==
    /\ phase = "scan" /\ cursor <= N /\ slot[cursor] # now
    /\ cache' = IF slot[cursor] > now /\ slot[cursor] < cache THEN slot[cursor] ELSE cache
    /\ cursor' = cursor + 1
    /\ UNCHANGED <<now, pnow, phase, want, slot, failed, pslot, visited, lostdue, paused, ticked, twice, badenter, hist>>

\* a due node is evaluated and returns normally: own requests, scheduler step, output tick -> consumers this cycle
EvalOk(req) ==
    /\ phase = "scan" /\ cursor <= N /\ slot[cursor] = now
    /\ LET i  == cursor
           w1 == [want EXCEPT ![i] = @ \cup {now + d : d \in req}]
           st == Settle(w1, slot, cache, now, i)
           \* the output tick notifies the consumers: schedule_node(j, now) (the child is evaluating: no push to the parent)
           sl == [j \in Nodes |-> IF j \in Cons[i] THEN now ELSE st[2][j]]
       IN /\ want' = st[1] /\ slot' = sl /\ cache' = st[3]
          /\ visited' = visited \cup {i}
          /\ twice' = (twice \/ i \in visited)
          /\ cursor' = i + 1
          /\ hist' = Log(i, req, "ok")
    /\ \A d \in req : now + d <= MaxT + 2
    /\ UNCHANGED <<now, pnow, phase, failed, pslot, lostdue, paused, ticked, badenter>>

\* a due node asks for a pause (mesh_): the cursor stays on it, the parent will call evaluate again for the same time
EvalPause ==
    /\ phase = "scan" /\ cursor <= N /\ slot[cursor] = now
    /\ cursor \in Pausers /\ cursor \notin paused
    /\ paused' = paused \cup {cursor}
    /\ phase' = "enter"                                 \* resumed by the enclosing node within the same parent cycle
    /\ hist' = Log(cursor, {}, "pause")
    /\ UNCHANGED <<now, pnow, want, slot, cache, cursor, failed, pslot, visited, lostdue, ticked, twice, badenter>>

\* a due node throws: its scheduler is settled all the same, the cursor stays on it, the rest of the table is folded into
\* the cache, nodes that were due now and never got their turn have their fired event consumed; the parent catches the
\* exception, records one error tick and pulls the child's next time
EvalThrow(req) ==
    /\ phase = "scan" /\ cursor <= N /\ slot[cursor] = now /\ cursor \in Throwers
    /\ \A d \in req : now + d <= MaxT + 2
    /\ LET i   == cursor
           w1  == [want EXCEPT ![i] = @ \cup {now + d : d \in req}]
           st  == IF Fault = "nosettle" THEN LET r == ReArmFromHead(w1, slot, cache, now, i) IN <<w1, r[1], r[2]>>
                  ELSE Settle(w1, slot, cache, now, i)
           \* tail loop over the nodes the scan did not reach
           tail == {j \in Nodes : j > i}
           due  == {j \in tail : st[2][j] = now}
           w2  == IF Fault \in {"notail", "noskipadvance"} THEN st[1]
                  ELSE [j \in Nodes |-> IF j \in due THEN {x \in st[1][j] : x > now} ELSE st[1][j]]
           sl2 == IF Fault \in {"notail", "noskipadvance"} THEN st[2]
                  ELSE [j \in Nodes |-> IF j \in due /\ NextOf(w2[j]) < Inf THEN NextOf(w2[j]) ELSE st[2][j]]
           fut == {sl2[j] : j \in tail} \cap {x \in 1..Inf : x > now}
           ca2 == IF Fault = "notail" THEN st[3]
                  ELSE IF fut # {} /\ MinOf(fut) < st[3] THEN MinOf(fut) ELSE st[3]
       IN /\ want' = w2 /\ slot' = sl2 /\ cache' = ca2
          /\ lostdue' = lostdue \cup {<<j, now>> : j \in {k \in due : now \in want[k]}}
          /\ visited' = visited \cup {i}
          /\ twice' = (twice \/ i \in visited)
          /\ failed' = TRUE
          /\ pslot' = IF Fault = "nopull" THEN Inf ELSE ca2          \* the parent's entry for this cycle is consumed; pull
          /\ phase' = "idle"
          /\ paused' = {}
          /\ hist' = Log(i, req, "throw")
    /\ UNCHANGED <<now, pnow, cursor, ticked, badenter>>

\* the scan reached the end: completed cycle, the cursor is reset, the child's next time goes up to the parent
EndCycle ==
    /\ phase = "scan" /\ cursor = N + 1
    /\ cursor' = 0
    /\ pslot' = cache
    /\ phase' = "idle"
    /\ paused' = {}
    /\ UNCHANGED <<now, pnow, want, slot, cache, failed, visited, lostdue, ticked, twice, badenter, hist>>

Finish == /\ phase = "idle" /\ pnow = MaxT
          /\ (Emit => PrintT(<<"ABORT", ToJson(hist)>>))
          /\ UNCHANGED vars

Next == \/ \E T \in 1..MaxT, tick \in BOOLEAN : ParentCycle(T, tick)
        \/ Enter \/ Pass \/ EvalPause \/ EndCycle
        \/ \E req \in SUBSET Dts : EvalOk(req) \/ EvalThrow(req)
        \/ Finish
Spec == Init /\ [][Next]_vars

\* ------------------------------------------------------------------ level A
Idle == phase = "idle"
\* every pending own wake-up of a node is what its table entry waits for (or earlier): nothing is stranded behind a fired event
NodeArmed == Idle => \A i \in Nodes : want[i] # {} => (slot[i] > now /\ slot[i] <= MinOf(want[i]))
\* no wake-up is overdue: whatever was due at or before the child's clock has been delivered or is a documented loss
NoOverdue == Idle => \A i \in Nodes : \A x \in want[i] : x > now
\* the parent will come back no later than the earliest pending work of the child
ParentCovers == Idle => \A i \in Nodes : want[i] # {} => pslot <= MinOf(want[i])
\* the parent is never asked to come back in its own past
NeverPast == Idle => pslot > pnow
\* C01 inside the child: at most once per cycle, consumers after producers (ranks), also across pause / resume and abort
OncePerCycle == ~twice
\* C15: the cycle after a captured exception is a fresh one (it starts at the first node); a resumption continues where
\* the pause left the cursor (ghost set by Enter)
EnterIsRight == ~badenter
\* a completed cycle gave every node that was due its turn (C03 / C15 "evaluated normally again": nothing before the
\* failing node of the previous cycle is skipped)
DueNodesRan == (Idle /\ ~failed /\ now > 0) => \A i \in Nodes : slot[i] = now => i \in visited
\* the documented loss is confined to nodes ranked after the thrower that were due in the aborted cycle
LossIsConfined == \A l \in lostdue : l[1] > 1

TypeOK == /\ cursor \in 0..(N + 1) /\ now \in 0..MaxT /\ pslot \in 0..Inf /\ cache \in 0..Inf
=============================================================================
