----------------------------- MODULE PushTrace -----------------------------
(***************************************************************************)
(* Level A trace specification of the push queue (C16), checker style.     *)
(*                                                                         *)
(* A trace is the sequence-number order of                                 *)
(*   h     - a linearization point reported by the library under the       *)
(*           protecting mutex (p = point name, src = push source, th =     *)
(*           thread, v = the value the thread is sending, a/b = scalars)   *)
(*   call / ret - a producer's try_send / send_blocking call and its       *)
(*           boolean result (ordered only within the thread and relative   *)
(*           to the h events they bracket; used in the lenient direction   *)
(*           only)                                                         *)
(*   dlv   - the collecting sink saw vals at evaluation time t             *)
(*   cycle - a root evaluation cycle begins                                *)
(*   stopcall - some thread is about to call request_stop                  *)
(*   runret / end - run() returned / trace complete                        *)
(*                                                                         *)
(* Abstract state per source: the accepted values in admission order, how  *)
(* many of them were taken and delivered, whether the source has stopped.  *)
(* "accepted" = the send returned true; its place in the order is the      *)
(* admission point inside the call.  "stopped" for the purpose of          *)
(* justifying a refusal = a stop request has been issued, the source is    *)
(* closing, or it has stopped; for the purpose of forbidding admission =   *)
(* the source has cleared its accepting flag (the later of the two).       *)
(*                                                                         *)
(* Policy "confd" is the conflating policy over a dictionary output: a     *)
(* send either sets key KeyOf(v) to v (an effective delta, call.fx = 1) or  *)
(* erases a key that is never set (call.fx = 0).  The second kind is        *)
(* accepted like any other send but carries nothing to deliver: it is not  *)
(* part of the accepted sequence and obliges nobody to wake the loop.  A    *)
(* delivery shows the modified values; they must be the merged latest      *)
(* state - the last value per key - of the next accepted deltas up to some *)
(* point of the admission order.                                           *)
(***************************************************************************)
EXTENDS Integers, Sequences, FiniteSets, TLC, Json, IOUtils

Traces == JsonDeserialize(IOEnv.TRACE_FILE)

VARIABLES tid, l, S, verdict, done
vars == <<tid, l, S, verdict, done>>

Ok(s)   == [S |-> s, why |-> ""]
Fail(c) == [S |-> S, why |-> c]
RECURSIVE FirstFail(_, _)
FirstFail(cs, k) == IF k > Len(cs) THEN ""
                    ELSE IF ~cs[k][2] THEN cs[k][1] ELSE FirstFail(cs, k + 1)

Get(f, k, d) == IF k \in DOMAIN f THEN f[k] ELSE d
Put(f, k, v) == [x \in DOMAIN f \cup {k} |-> IF x = k THEN v ELSE f[x]]

Prog    == Traces[tid].prog
NSrc    == Len(Prog.srcs)
Srcs    == 0..(NSrc - 1)
Policy(s) == Prog.srcs[s + 1].policy
Cap(s)    == Prog.srcs[s + 1].cap

Conflating(s) == Policy(s) \in {"conf", "confd"}
KeyOf(v) == v % 3          \* confd: the dictionary key written by send v (rt.cpp kDictKeys)
Effective(e) == IF "fx" \in DOMAIN e THEN e.fx = 1 ELSE TRUE
SetMax(A) == CHOOSE a \in A : \A b \in A : b <= a

NoCall == [open |-> FALSE, kind |-> "", src |-> 0, v |-> 0, acc |-> FALSE, ref |-> FALSE, fx |-> TRUE]

InitS == [ acc     |-> [s \in Srcs |-> <<>>],   \* accepted values, admission order
           npop    |-> [s \in Srcs |-> 0],      \* taken out of the queue by the graph
           ndel    |-> [s \in Srcs |-> 0],      \* delivered to the sink (index into acc)
           drop    |-> [s \in Srcs |-> 0],      \* discarded by stop
           lastT   |-> [s \in Srcs |-> -2000000001],
           popc    |-> [s \in Srcs |-> 0],      \* values taken in the current cycle
           stopped |-> [s \in Srcs |-> FALSE],
           closing |-> [s \in Srcs |-> FALSE],
           stopish |-> FALSE,                   \* a stop request has been issued / the run is over
           calls   |-> <<>>,                    \* thread -> open call
           armed   |-> FALSE,                   \* the loop went to sleep with values pending and nobody obliged to wake it
           ended   |-> FALSE ]

QLen(s, x)   == Len(s.acc[x]) - s.npop[x] - s.drop[x]
Undeliv(s, x) == Len(s.acc[x]) - s.drop[x] - s.ndel[x]
StopKnown(s, x) == s.stopish \/ s.closing[x] \/ s.stopped[x]
Call(s, th) == Get(s.calls, th, NoCall)
\* a send that admitted something to deliver and has not returned yet: it may still be about to wake the loop
InFlightAccept(s) == \E th \in DOMAIN s.calls : s.calls[th].open /\ s.calls[th].acc /\ s.calls[th].fx

RefusalClause(c) == IF c.kind = "block" THEN "C16.blocking_send_failed_without_stop"
                    ELSE "C16.send_refused_while_not_full_and_not_stopped"

IndexOf(q, v, from) == LET c == {i \in from..Len(q) : q[i] = v} IN IF c = {} THEN 0 ELSE CHOOSE i \in c : \A j \in c : i <= j

OnCall(e) == IF Call(S, e.th).open THEN Fail("trace.nested_send_call")
             ELSE Ok([S EXCEPT !.calls = Put(@, e.th, [open |-> TRUE, kind |-> e.kind, src |-> e.src, v |-> e.v, acc |-> FALSE, ref |-> FALSE, fx |-> Effective(e)])])

OnRet(e) ==
    LET c == Call(S, e.th)
        why == FirstFail(<<
          <<"trace.return_without_call", c.open>>,
          <<"C16.send_raised_an_exception", e.exc = 0>>,
          <<"C16.send_returned_true_but_nothing_was_admitted", e.r = 1 => c.acc>>,
          <<"C16.send_returned_false_but_the_value_was_admitted", e.r = 0 => ~c.acc>>,
          <<RefusalClause(c), e.r = 0 => c.ref>> >>, 1)
    IN IF why # "" THEN Fail(why) ELSE Ok([S EXCEPT !.calls = Put(@, e.th, NoCall)])

OnAccept(e) ==
    LET c == Call(S, e.th)
        x == e.src
        why == FirstFail(<<
          <<"trace.admission_outside_a_send_call", c.open /\ c.src = x /\ c.v = e.v>>,
          <<"C16.value_admitted_twice_by_one_send", ~c.acc>>,
          <<"C16.accepted_after_stop", ~S.stopped[x]>>,
          <<"C16.capacity_exceeded", (~Conflating(x) /\ Cap(x) > 0) => QLen(S, x) + 1 <= Cap(x)>> >>, 1)
    IN IF why # "" THEN Fail(why)
       \* a delta with no effect is accepted (the send must report true) but adds nothing to the values to deliver
       ELSE Ok([S EXCEPT !.acc[x] = IF c.fx THEN Append(@, e.v) ELSE @, !.calls = Put(@, e.th, [c EXCEPT !.acc = TRUE])])

\* a refusal is justified by the abstract state at the point where it was decided
OnRefusedFull(e) ==
    LET c == Call(S, e.th)
        x == e.src
    IN IF ~c.open THEN Fail("trace.refusal_outside_a_send_call")
       ELSE IF ~((Cap(x) > 0 /\ QLen(S, x) >= Cap(x)) \/ StopKnown(S, x)) THEN Fail(RefusalClause(c))
       ELSE IF c.kind = "block" /\ ~StopKnown(S, x) THEN Fail("C16.blocking_send_failed_without_stop")
       ELSE Ok([S EXCEPT !.calls = Put(@, e.th, [c EXCEPT !.ref = TRUE])])

OnRefusedStopped(e) ==
    LET c == Call(S, e.th)
        x == IF e.src >= 0 THEN e.src ELSE c.src
    IN IF ~c.open THEN Fail("trace.refusal_outside_a_send_call")
       ELSE IF ~StopKnown(S, x) THEN Fail(RefusalClause(c))
       ELSE Ok([S EXCEPT !.calls = Put(@, e.th, [c EXCEPT !.ref = TRUE])])

OnPop(e) ==
    LET x == e.src IN
    IF Policy(x) = "queue" /\ S.popc[x] >= 1 THEN Fail("C16.two_values_in_one_cycle")
    ELSE Ok([S EXCEPT !.npop[x] = @ + 1, !.popc[x] = @ + 1])

OnTakeAll(e) == LET x == e.src IN Ok([S EXCEPT !.npop[x] = Len(S.acc[x]) - S.drop[x], !.popc[x] = @ + 1])

OnStopDone(e) == LET x == e.src IN Ok([S EXCEPT !.drop[x] = Len(S.acc[x]) - S.npop[x], !.stopped[x] = TRUE])

OnDlv(e) ==
    LET x == e.src
        q == S.acc[x]
        n == S.ndel[x]
        k == Len(e.vals)
        timeWhy == FirstFail(<<
          <<"C16.two_values_in_one_cycle", e.t # S.lastT[x]>>,
          <<"C16.delivery_times_not_increasing", e.t > S.lastT[x]>> >>, 1)
    IN IF k = 0 THEN Fail("trace.empty_delivery")
       ELSE IF Policy(x) = "confd" THEN
            LET idx  == {IndexOf(q, e.vals[i], n + 1) : i \in 1..k}
                old  == \E i \in 1..k : IndexOf(q, e.vals[i], 1) # 0 /\ IndexOf(q, e.vals[i], 1) <= n
                j    == SetMax(idx)
                want == {q[i] : i \in {i \in (n + 1)..j : \A i2 \in (i + 1)..j : KeyOf(q[i2]) # KeyOf(q[i])}}
                got  == {e.vals[i] : i \in 1..k}
            IN IF 0 \in idx /\ old THEN Fail("C16.value_delivered_twice")
               ELSE IF 0 \in idx THEN Fail("C16.delivered_not_prefix_of_accepted")
               ELSE IF got # want \/ Cardinality(got) # k THEN Fail("C16.delivered_not_the_merged_latest_state_of_the_accepted_deltas")
               ELSE IF \E i \in 1..k : e.keys[i] # KeyOf(e.vals[i]) THEN Fail("C16.delivered_value_under_another_key")
               ELSE IF timeWhy # "" THEN Fail(timeWhy)
               ELSE Ok([S EXCEPT !.ndel[x] = j, !.lastT[x] = e.t])
       ELSE IF Policy(x) = "conf" THEN
            LET v == e.vals[1]
                j == IndexOf(q, v, n + 1)
            IN IF IndexOf(q, v, 1) # 0 /\ IndexOf(q, v, 1) <= n /\ j = 0 THEN Fail("C16.value_delivered_twice")
               ELSE IF j = 0 THEN Fail("C16.delivered_not_prefix_of_accepted")
               ELSE IF timeWhy # "" THEN Fail(timeWhy)
               ELSE Ok([S EXCEPT !.ndel[x] = j, !.lastT[x] = e.t])
       ELSE LET dup == \E i \in 1..k : IndexOf(q, e.vals[i], 1) # 0 /\ IndexOf(q, e.vals[i], 1) <= n
                pre == n + k <= Len(q) /\ \A i \in 1..k : q[n + i] = e.vals[i]
            IN IF Policy(x) = "queue" /\ k > 1 THEN Fail("C16.two_values_in_one_cycle")
               ELSE IF ~pre /\ dup THEN Fail("C16.value_delivered_twice")
               ELSE IF ~pre THEN Fail("C16.delivered_not_prefix_of_accepted")
               ELSE IF timeWhy # "" THEN Fail(timeWhy)
               ELSE Ok([S EXCEPT !.ndel[x] = n + k, !.lastT[x] = e.t])

\* liveness on a finite trace: the loop goes to sleep while accepted values are waiting, no send that admitted a value
\* is still in flight (it would be obliged to wake the loop) and no stop has been requested; if that sleep then ends by
\* its timeout the run has continued without delivering them, and nothing will ever wake it for them
OnWaitBegin(e) == Ok([S EXCEPT !.armed = ~S.stopish /\ ~InFlightAccept(S) /\ \E x \in Srcs : ~S.stopped[x] /\ Undeliv(S, x) > 0])
OnWaitEnd(e) ==
    IF S.armed /\ e.a < 4 /\ ~S.stopish /\ (\E x \in Srcs : ~S.stopped[x] /\ Undeliv(S, x) > 0)
    THEN Fail("C16.accepted_value_never_delivered_although_run_continued")
    ELSE Ok([S EXCEPT !.armed = FALSE])

OnHook(e) ==
    CASE e.p \in {"pq_accepted", "cf_accepted"}          -> OnAccept(e)
      [] e.p = "pq_refused_full"                         -> OnRefusedFull(e)
      [] e.p \in {"pq_refused_stopped", "cf_refused_stopped", "sc_enter_refused", "sc_stop_seen"} -> OnRefusedStopped(e)
      [] e.p = "pq_pop"                                  -> OnPop(e)
      [] e.p \in {"pq_take_all", "cf_take"}              -> OnTakeAll(e)
      [] e.p \in {"pq_stop_done", "cf_stop"}             -> OnStopDone(e)
      [] e.p = "sc_begin_close"                          -> IF e.src >= 0 THEN Ok([S EXCEPT !.closing[e.src] = TRUE])
                                                            ELSE Ok([S EXCEPT !.closing = [x \in Srcs |-> TRUE]])
      [] e.p = "rt_wait_begin"                           -> OnWaitBegin(e)
      [] e.p = "rt_wait_end"                             -> OnWaitEnd(e)
      [] OTHER                                           -> Ok(S)

Step(e) == CASE e.e = "h"        -> OnHook(e)
             [] e.e = "call"     -> OnCall(e)
             [] e.e = "ret"      -> OnRet(e)
             [] e.e = "dlv"      -> OnDlv(e)
             [] e.e = "cycle"    -> Ok([S EXCEPT !.popc = [x \in Srcs |-> 0]])
             [] e.e = "stopcall" -> Ok([S EXCEPT !.stopish = TRUE])
             [] e.e = "runret"   -> IF e.ok = 1 THEN Ok([S EXCEPT !.stopish = TRUE]) ELSE Fail("C16.run_raised_an_exception")
             [] e.e = "end"      -> Ok([S EXCEPT !.ended = TRUE])
             [] OTHER            -> Ok(S)

Init == /\ tid \in 1..Len(Traces) /\ l = 1 /\ S = InitS /\ verdict = "" /\ done = FALSE

Consume == /\ ~done /\ verdict = "" /\ l <= Len(Traces[tid].ev)
           /\ LET r == Step(Traces[tid].ev[l]) IN S' = r.S /\ verdict' = r.why
           /\ l' = l + 1
           /\ UNCHANGED <<tid, done>>

Finish == /\ ~done /\ (verdict # "" \/ l > Len(Traces[tid].ev))
          /\ done' = TRUE
          /\ PrintT(<<"VERDICT", Traces[tid].id, l - 1, IF verdict = "" /\ ~S.ended THEN "trace.incomplete" ELSE verdict>>)
          /\ UNCHANGED <<tid, l, S, verdict>>

Next == Consume \/ Finish
Spec == Init /\ [][Next]_vars
=============================================================================
