----------------------------- MODULE SlotRules -----------------------------
(***************************************************************************)
(* The schedule-table rule shared by the model (NestedSched.tla, where it  *)
(* is an invariant of the delegation protocol) and the trace specification *)
(* (SlotTrace.tla, where it is evaluated on the tables dumped from the     *)
(* real engine at the end of every root cycle).                            *)
(*                                                                         *)
(* gs : set of records [g, pg, pn, next, s]  - graph instance, parent      *)
(*      graph instance (-1: root), parent node index (0-based), cached     *)
(*      next scheduled time, s = sequence of per-node schedule entries     *)
(* T  : time of the root cycle that has just finished                      *)
(* An entry > T is pending (entries <= T are stale: lazy clean-up).        *)
(***************************************************************************)
EXTENDS Integers, Sequences

\* the pending entries of a nested graph that no pending entry of its parent node covers
UncoveredNested(T, gs) ==
    UNION {{<<x.g, i - 1>> : i \in {j \in 1..Len(x.s) :
                x.s[j] > T /\ ~(\E p \in gs : p.g = x.pg /\ x.pn + 1 <= Len(p.s) /\ p.s[x.pn + 1] > T /\ p.s[x.pn + 1] <= x.s[j])}}
           : x \in {y \in gs : y.pg >= 0}}

\* the pending entries of the root graph that lie before its cached next scheduled time
UncoveredRoot(T, gs) ==
    UNION {{<<x.g, i - 1>> : i \in {j \in 1..Len(x.s) : x.s[j] > T /\ x.next > x.s[j]}} : x \in {y \in gs : y.pg < 0}}

CoveredIn(T, gs) == UncoveredNested(T, gs) = {} /\ UncoveredRoot(T, gs) = {}
=============================================================================
