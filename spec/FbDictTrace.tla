---------------------------- MODULE FbDictTrace ----------------------------
(***************************************************************************)
(* Level A trace specification of a feedback edge carrying a dictionary    *)
(* time-series (C08): the reader observes exactly the sequence of per-tick *)
(* deltas written to the feedback, each one smallest time step after the   *)
(* cycle in which it was written - no loss, no duplication, no reordering, *)
(* never in the cycle that produced it - and the reader's value is the     *)
(* writer's value of the previous step.                                    *)
(* Events: drec with id = prog.writer (what was written) and id =          *)
(* prog.reader (what the reader of the feedback saw); ret.                 *)
(***************************************************************************)
EXTENDS Integers, Sequences, FiniteSets, TLC, Json, IOUtils

Traces == JsonDeserialize(IOEnv.TRACE_FILE)
VARIABLES tid, l, S, verdict, done
vars == <<tid, l, S, verdict, done>>
Ok(s)   == [S |-> s, why |-> ""]
Fail(c) == [S |-> S, why |-> c]
RECURSIVE FirstFail(_, _)
FirstFail(cs, k) == IF k > Len(cs) THEN "" ELSE IF ~cs[k][2] THEN cs[k][1] ELSE FirstFail(cs, k + 1)

InitS == [ q |-> <<>>, ended |-> FALSE ]      \* q: deltas written and not yet seen by the reader
P == Traces[tid].prog

OnDrec(e) ==
    IF e.id = P.writer THEN Ok([S EXCEPT !.q = Append(@, e)])
    ELSE IF e.id = P.reader THEN
        LET why == FirstFail(<<
              <<"C08.reader_ticked_without_a_written_value", S.q # <<>>>>,
              <<"C08.value_observed_in_the_cycle_that_produced_it", S.q = <<>> \/ e.t # S.q[1].t>>,
              <<"C08.value_not_delivered_exactly_one_step_later", S.q = <<>> \/ e.t = S.q[1].t + 1>>,
              <<"C08.delivered_delta_differs_from_the_written_delta",
                    S.q = <<>> \/ (e.mod = S.q[1].mod /\ e.add = S.q[1].add /\ e.rem = S.q[1].rem)>>,
              <<"C08.reader_value_differs_from_the_writer_value_one_step_earlier", S.q = <<>> \/ e.val = S.q[1].val>> >>, 1)
        IN IF why # "" THEN Fail(why) ELSE Ok([S EXCEPT !.q = Tail(@)])
    ELSE Ok(S)

OnRet(e) ==
    \* whatever was written at a time whose successor is still inside the run window must have been delivered
    IF e.ok # 1 THEN Fail("run_raised_an_exception")
    ELSE IF \E k \in 1..Len(S.q) : S.q[k].t + 1 < P.end THEN Fail("C08.written_value_never_delivered")
    ELSE Ok([S EXCEPT !.ended = TRUE])

Step(e) == CASE e.e = "drec" -> OnDrec(e) [] e.e = "ret" -> OnRet(e) [] OTHER -> Ok(S)

Init == /\ tid \in 1..Len(Traces) /\ l = 1 /\ S = InitS /\ verdict = "" /\ done = FALSE
Consume == /\ ~done /\ verdict = "" /\ l <= Len(Traces[tid].ev)
           /\ LET r == Step(Traces[tid].ev[l]) IN S' = r.S /\ verdict' = r.why
           /\ l' = l + 1 /\ UNCHANGED <<tid, done>>
Finish == /\ ~done /\ (verdict # "" \/ l > Len(Traces[tid].ev))
          /\ done' = TRUE
          /\ PrintT(<<"VERDICT", Traces[tid].id, l - 1, IF verdict = "" /\ ~S.ended THEN "trace.incomplete" ELSE verdict>>)
          /\ UNCHANGED <<tid, l, S, verdict>>
Next == Consume \/ Finish
Spec == Init /\ [][Next]_vars
=============================================================================
