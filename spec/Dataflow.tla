------------------------------ MODULE Dataflow ------------------------------
(***************************************************************************)
(* Level A, denotational: what a graph over the vocabulary must compute.    *)
(*                                                                         *)
(* One TLA+ step is one engine cycle.  The state is exactly what the       *)
(* properties talk about: for every node the last value written, the time  *)
(* of that write (0 = never: not valid), the node's private state and the  *)
(* wake-ups it has asked for.  Nothing about slots, cursors or scan order  *)
(* is modelled here - any implementation that satisfies                    *)
(*   C02 (a cycle at exactly every requested time, in order),              *)
(*   C03 (user code runs exactly when an active input ticked / own wake-up *)
(*        is due and the required inputs are valid; reads latest values;   *)
(*        output is the function of those values),                         *)
(*   C08 (feedback delivers one smallest step later, initial value at      *)
(*        start),                                                          *)
(*   C15 (a captured error ticks the error output and nothing else)        *)
(* produces exactly the write history this module computes.  Sub-graph     *)
(* structure does not appear: by C09 a sub-graph behaves the same inlined  *)
(* or nested, so programs are flat here and the glue decides how the same  *)
(* program is presented to the real code (inlined, nested, doubly nested,  *)
(* permuted statement order - C06).                                        *)
(*                                                                         *)
(* The program is part of the state, chosen in Init from `Programs`, so a  *)
(* single TLC run ranges over all programs of the configured family and    *)
(* their tick histories (the scripts of the sources).  When a behaviour    *)
(* ends, the predicted observables are printed as one JSON line; the glue  *)
(* replays the program into the native driver and compares.                *)
(***************************************************************************)
EXTENDS Integers, Sequences, FiniteSets, TLC, Json, Vocab

CONSTANTS Programs,   \* set of [id, start, end, nodes : Seq(node record)]
          Emit        \* TRUE: print the prediction of every finished behaviour

VARIABLES prog,       \* the program under execution
          now,        \* time of the last executed cycle (0 before the first)
          val, lmt,   \* per node: last written value / time of last write (0 = never)
          st,         \* per node: private state (acc sum, count, delay latch, timer index)
          pend,       \* per node: own pending wake-up time (delay: tagged echo, timer: next tick), 0 = none
          fbq,        \* per fb node: sequence of <<time, value>> deliveries not yet made
          writes,     \* history: sequence of <<t, id, v>> in evaluation order
          errs,       \* history: sequence of <<t, id, input value>> captured error ticks
          cycles,     \* history: sequence of cycle times
          done

vars == <<prog, now, val, lmt, st, pend, fbq, writes, errs, cycles, done>>

N(p)    == Len(p.nodes)
Node(i) == prog.nodes[i]

Min(S) == CHOOSE x \in S : \A y \in S : x <= y

(***************************************************************************)
(* Requests pending after the cycle at `now`: every time > now at which    *)
(* some node has asked to be woken.                                        *)
(***************************************************************************)
ScriptTimes(i, after) == {Node(i).script[j][1] : j \in 1..Len(Node(i).script)} \cap {x \in 1..1000 : x > after}

Requested(after, pnd, fq) ==
    UNION {
        (IF Node(i).kind = "src" THEN ScriptTimes(i, after) ELSE {})
        \cup (IF pnd[i] > after THEN {pnd[i]} ELSE {})
        \cup {fq[i][j][1] : j \in 1..Len(fq[i])}
      : i \in 1..N(prog) }

(***************************************************************************)
(* One cycle at time t: nodes in id order (ids are a topological order of  *)
(* the non-feedback edges).  S carries the components being updated.       *)
(***************************************************************************)
Ticked(S, j, t) == S.lmt[j] = t
Valid(S, j)     == S.lmt[j] # 0

NoVal == -999999   \* "no scripted value at this time" (script values are small integers)
Inv   == -888888   \* scripted "the input loses its value at this time"
ScriptVal(i, t) == LET js == {j \in 1..Len(Node(i).script) : Node(i).script[j][1] = t}
                   IN  IF js = {} THEN NoVal ELSE Node(i).script[CHOOSE j \in js : TRUE][2]

\* feedback readers: every fb node bound to producer i gets a delivery one step later
Deliver(S, i, t, v) ==
    [S EXCEPT !.fbq = [f \in DOMAIN S.fbq |->
        IF Node(f).kind = "fb" /\ Node(f).bind = i THEN Append(S.fbq[f], <<t + 1, v>>) ELSE S.fbq[f]]]

Write(S, i, t, v) ==
    Deliver([S EXCEPT !.val[i] = v, !.lmt[i] = t, !.writes = Append(S.writes, <<t, i, v>>)], i, t, v)

EvalNode(S, i, t) ==
    LET n   == Node(i)
        iv  == [k \in 1..Len(n.ins) |-> S.val[n.ins[k]]]
        iok == [k \in 1..Len(n.ins) |-> Valid(S, n.ins[k])]
        anyTick == \E k \in ActiveInsS(n, S.st[i]) : k <= Len(n.ins) /\ Ticked(S, n.ins[k], t)
        allOk   == \A k \in ValidIns(n) : k <= Len(n.ins) => iok[k]
    IN
    CASE n.kind = "src" ->
            \* a scripted Inv entry models an input whose source goes away (an element removed from one of several
            \* multiplexed dictionaries): from then on it holds no value; this is not a tick
            IF ScriptVal(i, t) = Inv THEN [S EXCEPT !.lmt[i] = 0, !.val[i] = 0]
            ELSE IF ScriptVal(i, t) # NoVal THEN Write(S, i, t, ScriptVal(i, t)) ELSE S
      [] n.kind = "timer" ->
            IF S.pend[i] = t
            THEN LET S1 == Write(S, i, t, S.st[i])
                 IN  [S1 EXCEPT !.st[i] = S.st[i] + 1,
                                !.pend[i] = IF S.st[i] + 1 < n.cnt THEN t + n.k ELSE 0]
            ELSE S
      [] n.kind = "fb" ->
            IF S.fbq[i] # <<>> /\ S.fbq[i][1][1] = t
            THEN LET v  == S.fbq[i][1][2]
                     S1 == [S EXCEPT !.fbq[i] = Tail(S.fbq[i])]
                 IN  Write(S1, i, t, v)
            ELSE S
      [] n.kind \in {"delay", "tdelay"} ->
            \* a due echo runs user code only if the required input (still) holds a value (C03); the wake-up is
            \* consumed either way.  tdelay: emitting a negative value throws instead (a captured error, C15) - the node's
            \* timer and state go on as if it had not
            LET due == S.pend[i] = t
                S1  == IF due THEN (IF allOk
                                    THEN (IF n.kind = "tdelay" /\ S.st[i] < 0
                                          THEN [S EXCEPT !.errs = Append(S.errs, <<t, i, S.st[i]>>), !.pend[i] = 0]
                                          ELSE [Write(S, i, t, S.st[i]) EXCEPT !.pend[i] = 0])
                                    ELSE [S EXCEPT !.pend[i] = 0])
                       ELSE S
            IN  IF anyTick
                THEN [S1 EXCEPT !.st[i] = iv[1], !.pend[i] = t + n.k]
                ELSE S1
      [] n.kind \in {"echo", "techo"} ->
            \* every input is echoed k steps later; echoes accumulate (fbq[i] is the node's queue of <<time, value>>).
            \* techo: echoing a negative value throws instead (a captured error, C15); queue and timers go on
            LET due == S.fbq[i] # <<>> /\ S.fbq[i][1][1] = t
                S1  == IF due THEN (IF allOk
                                    THEN (IF n.kind = "techo" /\ S.fbq[i][1][2] < 0
                                          THEN [S EXCEPT !.fbq[i] = Tail(@), !.errs = Append(S.errs, <<t, i, S.fbq[i][1][2]>>)]
                                          ELSE Write([S EXCEPT !.fbq[i] = Tail(@)], i, t, S.fbq[i][1][2]))
                                    ELSE [S EXCEPT !.fbq[i] = Tail(@)])
                       ELSE S
            IN  IF anyTick THEN [S1 EXCEPT !.fbq[i] = Append(@, <<t + n.k, iv[1]>>)] ELSE S1
      [] n.kind = "ite" ->
            \* C13: the output is a reference to the selected input; readers observe the referenced target itself.
            \* st[i] = the concrete node currently referenced (0 = nothing published yet).  A reference to another
            \* reference is flattened to that reference's current target, and follows it when it retargets.
            \* The selection is re-published when the condition ticks or the selected reference itself changed,
            \* provided the selected input has a reference to offer and it differs from the published one
            \* (republishing the same reference is not a tick).  Readers see: a tick with the target's current value
            \* when the reference is retargeted to a valid target, every tick of the referenced target, nothing from
            \* any other target; the reference is valid exactly when its target is.
            LET c    == n.ins[1]
                x    == IF Valid(S, c) THEN n.ins[(IF S.val[c] # 0 THEN 1 ELSE 2) + 1] ELSE 0
                cand == IF x = 0 THEN 0 ELSE IF Node(x).kind = "ite" THEN S.st[x] ELSE x
                trig == x # 0 /\ (Ticked(S, c, t) \/ x \in S.rt)
                chg  == trig /\ cand # 0 /\ cand # S.st[i]
                tgt  == IF chg THEN cand ELSE S.st[i]
                S1   == IF chg THEN [S EXCEPT !.st[i] = cand, !.rt = @ \cup {i}] ELSE S
            IN  IF tgt = 0 THEN S1
                ELSE IF ~Valid(S, tgt) THEN [S1 EXCEPT !.lmt[i] = 0, !.val[i] = 0]
                ELSE IF chg \/ Ticked(S, tgt, t) \/ ~Valid(S, i) THEN Write(S1, i, t, S.val[tgt])
                ELSE S1
      [] n.kind = "throwneg" ->
            IF anyTick /\ allOk
            THEN IF iv[1] < 0
                 THEN [S EXCEPT !.errs = Append(S.errs, <<t, i, iv[1]>>)]
                 ELSE Write(S, i, t, iv[1] * 2)
            ELSE S
      \* fdiv: the library's lifted integer floor division (a node with a specialised evaluator); a zero divisor throws
      [] n.kind = "fdiv" ->
            IF anyTick /\ allOk
            THEN IF iv[2] = 0
                 THEN [S EXCEPT !.errs = Append(S.errs, <<t, i, 0>>)]
                 ELSE Write(S, i, t, iv[1] \div iv[2])
            ELSE S
      [] OTHER ->
            IF anyTick /\ allOk
            THEN LET r  == F(n, iv, iok, S.st[i])
                     S1 == [S EXCEPT !.st[i] = r.s]
                 IN  IF r.w THEN Write(S1, i, t, r.v)
                     ELSE IF n.kind = "rec" THEN [S1 EXCEPT !.writes = Append(S1.writes, <<t, i, iv[1]>>)]
                     ELSE S1
            ELSE S

RECURSIVE RunFrom(_, _, _)
RunFrom(S, i, t) == IF i > N(prog) THEN S ELSE RunFrom(EvalNode(S, i, t), i + 1, t)

Pack == [val |-> val, lmt |-> lmt, st |-> st, pend |-> pend, fbq |-> fbq, writes |-> writes, errs |-> errs,
         rt |-> {}]   \* rt: references retargeted in the cycle being computed

(***************************************************************************)
(* Initial state: the engine at the start of the run window.               *)
(***************************************************************************)
InitFor(p) ==
    /\ prog = p
    /\ now = 0
    /\ val = [i \in 1..N(p) |-> 0]
    /\ lmt = [i \in 1..N(p) |-> 0]
    /\ st  = [i \in 1..N(p) |-> 0]
    /\ pend = [i \in 1..N(p) |-> IF p.nodes[i].kind = "timer" THEN p.start ELSE 0]
    /\ fbq = [i \in 1..N(p) |-> IF p.nodes[i].kind = "fb" /\ p.nodes[i].init # -1
                                 THEN << <<p.start, p.nodes[i].init>> >> ELSE <<>>]
    /\ writes = <<>>
    /\ errs = <<>>
    /\ cycles = <<>>
    /\ done = FALSE

Init == \E p \in Programs : InitFor(p)

\* the next cycle time: the earliest requested time inside the window
NextTime ==
    LET after == IF now = 0 THEN prog.start - 1 ELSE now
        req   == {x \in Requested(after, pend, fbq) : x >= prog.start /\ x < prog.end}
    IN  IF req = {} THEN 0 ELSE Min(req)

Cycle ==
    /\ ~done
    /\ NextTime # 0
    /\ LET t == NextTime
           S == RunFrom(Pack, 1, t)
       IN  /\ now' = t
           /\ val' = S.val /\ lmt' = S.lmt /\ st' = S.st /\ pend' = S.pend /\ fbq' = S.fbq
           /\ writes' = S.writes /\ errs' = S.errs
           /\ cycles' = Append(cycles, t)
    /\ UNCHANGED <<prog, done>>

Prediction == IF prog.id = 0   \* enumerated family: the program itself is the key
              THEN [prog |-> prog, writes |-> writes, errs |-> errs, cycles |-> cycles]
              ELSE [id |-> prog.id, writes |-> writes, errs |-> errs, cycles |-> cycles]

Finish ==
    /\ ~done
    /\ NextTime = 0
    /\ done' = TRUE
    /\ (Emit => PrintT(<<"PRED", ToJson(Prediction)>>))
    /\ UNCHANGED <<prog, now, val, lmt, st, pend, fbq, writes, errs, cycles>>

Next == Cycle \/ Finish

Spec == Init /\ [][Next]_vars /\ WF_vars(Next)

(***************************************************************************)
(* Properties of the model itself (checked by TLC on every program).       *)
(***************************************************************************)
\* C02: evaluation time strictly increases, stays inside [start, end)
TimeMonotone == \A j \in 1..Len(cycles) :
                   /\ cycles[j] >= prog.start /\ cycles[j] < prog.end
                   /\ (j > 1 => cycles[j - 1] < cycles[j])

\* C03/C04: a node's last-modified time is the time of its latest write and never in the future
LmtIsLastWrite == \A i \in {j \in 1..N(prog) : Node(j).kind # "ite" /\ \A e \in 1..Len(Node(j).script) : Node(j).script[e][2] # Inv} :   \* a reference follows its target's validity
                     LET ws == {j \in 1..Len(writes) : writes[j][2] = i /\ Node(i).kind # "rec"}
                     IN  IF ws = {} THEN lmt[i] = 0
                         ELSE /\ lmt[i] = writes[CHOOSE j \in ws : \A k \in ws : k <= j][1]
                              /\ lmt[i] <= now

\* C01: at most one write per node per cycle (a node is evaluated at most once)
AtMostOneWritePerCycle == \A a, b \in 1..Len(writes) :
                             (a # b /\ writes[a][2] = writes[b][2]) => writes[a][1] # writes[b][1]

\* C08: every value written to a producer bound to a feedback re-appears on the feedback
\* exactly one step later (when that step is inside the window), in order, once.
FbDelivered == \A f \in 1..N(prog) :
    (Node(f).kind = "fb" /\ Node(f).bind # 0) =>
        LET src  == SelectSeq(writes, LAMBDA w : w[2] = Node(f).bind)
            got  == SelectSeq(writes, LAMBDA w : w[2] = f)
            init == IF Node(f).init # -1 THEN << <<prog.start, f, Node(f).init>> >> ELSE <<>>
            want == init \o [j \in 1..Len(src) |-> <<src[j][1] + 1, f, src[j][3]>>]
            due  == SelectSeq(want, LAMBDA w : w[1] <= now)
        IN  /\ Len(got) >= Len(due)
            /\ \A j \in 1..Len(got) : j <= Len(want) /\ got[j] = want[j]

\* liveness: every behaviour finishes (C08 quiescence for the loops of the family)
Terminates == <>done

=============================================================================
