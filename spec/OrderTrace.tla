----------------------------- MODULE OrderTrace -----------------------------
(***************************************************************************)
(* Level A trace specification of the structural half of C01 / C09 for     *)
(* dynamically created child graphs (map_, mesh_, switch_, reduce): in     *)
(* every graph instance a node has its turn at most once per cycle of that *)
(* instance - also when the instance is paused in the middle of its cycle  *)
(* and resumed (mesh_) -, a child instance is only evaluated inside the    *)
(* turn of the node that owns it, never at a time earlier than its owner's *)
(* current time, and never after it was stopped.                           *)
(* Events: gstart, gstop(ped), nstart (for node names), cycle, eval.       *)
(* The node on which a mesh instance pauses (`mesh_subscribe`) is re-run   *)
(* on resume by design: its repeated turn is the documented pause/resume   *)
(* protocol and is exempt; every other node is not.                        *)
(***************************************************************************)
EXTENDS Integers, Sequences, FiniteSets, TLC, Json, IOUtils

Traces == JsonDeserialize(IOEnv.TRACE_FILE)
VARIABLES tid, l, S, verdict, done
vars == <<tid, l, S, verdict, done>>

Ok(s)   == [S |-> s, why |-> ""]
Fail(c) == [S |-> S, why |-> c]
RECURSIVE FirstFail(_, _)
FirstFail(cs, k) == IF k > Len(cs) THEN "" ELSE IF ~cs[k][2] THEN cs[k][1] ELSE FirstFail(cs, k + 1)
Get(f, k, d) == IF k \in DOMAIN f THEN f[k] ELSE d
Put(f, k, v) == [x \in DOMAIN f \cup {k} |-> IF x = k THEN v ELSE f[x]]

PauseNodes == {"mesh_subscribe"}

InitS == [ now   |-> <<>>,   \* graph instance -> time of its current / latest cycle
           turn  |-> <<>>,   \* graph instance -> set of node indexes that had their turn in that cycle
           par   |-> <<>>,   \* graph instance -> <<owner graph instance, owner node index>>
           live  |-> {},     \* started, not stopped graph instances
           pause |-> {},     \* <<g, n>> of nodes on which an instance may pause
           ended |-> FALSE ]

OnGstart(e)  == Ok([S EXCEPT !.par = Put(@, e.g, <<e.pg, e.pn>>), !.live = @ \cup {e.g}, !.now = Put(@, e.g, 0),
                             !.turn = Put(@, e.g, {}), !.pause = {x \in @ : x[1] # e.g}])
OnGstopped(e) == Ok([S EXCEPT !.live = @ \ {e.g}])
OnNstart(e)  == IF e.name \in PauseNodes THEN Ok([S EXCEPT !.pause = @ \cup {<<e.g, e.n>>}]) ELSE Ok(S)

OnCycle(e) ==
    LET pg == Get(S.par, e.g, <<-1, -1>>)[1]
        pn == Get(S.par, e.g, <<-1, -1>>)[2]
        why == FirstFail(<<
          <<"C01.child_graph_evaluated_after_it_was_stopped", e.g \in S.live>>,
          <<"C02.child_time_not_strictly_increasing", e.t > Get(S.now, e.g, 0)>>,
          <<"C09.child_time_earlier_than_parent_time", pg < 0 \/ e.t >= Get(S.now, pg, 0)>>,
          <<"C09.child_cycle_outside_its_owner_turn", pg < 0 \/ pn \in Get(S.turn, pg, {})>> >>, 1)
    IN IF why # "" THEN Fail(why) ELSE Ok([S EXCEPT !.now = Put(@, e.g, e.t), !.turn = Put(@, e.g, {})])

OnEval(e) ==
    LET why == FirstFail(<<
          <<"C01.node_evaluated_in_a_stopped_graph", e.g \in S.live>>,
          <<"C01.node_evaluated_outside_a_cycle_of_its_graph", Get(S.now, e.g, 0) = e.t>>,
          <<"C01.node_evaluated_twice_in_one_cycle", e.n \notin Get(S.turn, e.g, {}) \/ <<e.g, e.n>> \in S.pause>> >>, 1)
    IN IF why # "" THEN Fail(why) ELSE Ok([S EXCEPT !.turn = Put(@, e.g, Get(@, e.g, {}) \cup {e.n})])

Step(e) == CASE e.e = "gstart"   -> OnGstart(e)
             [] e.e = "gstopped" -> OnGstopped(e)
             [] e.e = "nstart"   -> OnNstart(e)
             [] e.e = "cycle"    -> OnCycle(e)
             [] e.e = "eval"     -> OnEval(e)
             [] e.e = "ret"      -> Ok([S EXCEPT !.ended = TRUE])
             [] OTHER            -> Ok(S)

Init == /\ tid \in 1..Len(Traces) /\ l = 1 /\ S = InitS /\ verdict = "" /\ done = FALSE
Consume == /\ ~done /\ verdict = "" /\ l <= Len(Traces[tid].ev)
           /\ LET r == Step(Traces[tid].ev[l]) IN S' = r.S /\ verdict' = r.why
           /\ l' = l + 1 /\ UNCHANGED <<tid, done>>
Finish == /\ ~done /\ (verdict # "" \/ l > Len(Traces[tid].ev))
          /\ done' = TRUE
          /\ PrintT(<<"VERDICT", Traces[tid].id, l - 1, IF verdict = "" /\ ~S.ended THEN "trace.incomplete" ELSE verdict>>)
          /\ UNCHANGED <<tid, l, S, verdict>>
Next == Consume \/ Finish
Spec == Init /\ [][Next]_vars
=============================================================================
