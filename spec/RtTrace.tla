------------------------------ MODULE RtTrace ------------------------------
(***************************************************************************)
(* Level A trace specification of the real-time loop (C17), checker style. *)
(*                                                                         *)
(* Times are microseconds relative to the run's start time (start = 0,     *)
(* end = prog.end).  Wall readings w are the driver's own reads of the     *)
(* clock the executor uses (system clock + injected offset), taken on the  *)
(* evaluation thread *after* the executor took its decision; only lower    *)
(* bounds w >= T are ever asserted, so no verdict depends on machine speed.*)
(* Events (sequence-number order):                                         *)
(*   cycle t w      - a root evaluation cycle begins at evaluation time t   *)
(*   tev id k t w   - timer node id is evaluated (its k-th evaluation)      *)
(*   req id k kind now want eff w0 w1 - the node asked its scheduler for   *)
(*                    `want` (rel/abs: logical, wall: wall-clock alarm);    *)
(*                    eff = the time the scheduler registered (-1 = none);  *)
(*                    w0/w1 = wall before/after the call                    *)
(*   h p ...        - executor linearization points (under its mutex)      *)
(*   stopcall/stopret - a thread calls request_stop / the call returned    *)
(*   runret ok w    - run() returned                                       *)
(*   call / ret     - a producer thread's send to a push source            *)
(*   h pq_accepted / cf_accepted - the send was admitted (queue mutex)     *)
(*   h pq_pop / pq_take_all / cf_take - the graph took one / all values    *)
(*                                                                         *)
(* "A value pushed while the loop is waiting is never missed", on a finite *)
(* trace: the loop does not sit out a wait (leave it by time-out, not by a *)
(* notification) while a pushed value has been waiting in a source since    *)
(* before that wait began, no send that admitted a value is still on its   *)
(* way to wake the loop, and no stop has been requested.  Nothing else     *)
(* would ever wake the loop for that value: it was missed.                 *)
(***************************************************************************)
EXTENDS Integers, Sequences, FiniteSets, TLC, Json, IOUtils

Traces == JsonDeserialize(IOEnv.TRACE_FILE)

VARIABLES tid, l, S, verdict, done
vars == <<tid, l, S, verdict, done>>

Ok(s)   == [S |-> s, why |-> ""]
Fail(c) == [S |-> S, why |-> c]
RECURSIVE FirstFail(_, _)
FirstFail(cs, k) == IF k > Len(cs) THEN ""
                    ELSE IF ~cs[k][2] THEN cs[k][1] ELSE FirstFail(cs, k + 1)

Max(a, b) == IF a >= b THEN a ELSE b
End == Traces[tid].prog.end
Srcs == 0..(Len(Traces[tid].prog.srcs) - 1)
Get(f, k, d) == IF k \in DOMAIN f THEN f[k] ELSE d
Put(f, k, v) == [x \in DOMAIN f \cup {k} |-> IF x = k THEN v ELSE f[x]]
Effective(e) == IF "fx" \in DOMAIN e THEN e.fx = 1 ELSE TRUE     \* a dictionary delta with no effect carries no value
DrainBound == 1024      \* executor.cpp max_immediate_drain_cycles: the only sanctioned cut

InitS == [ prev     |-> 0,        \* evaluation time of the last cycle (the start time before the first)
           first    |-> TRUE,     \* no cycle yet
           inCycle  |-> FALSE,
           pend     |-> {},       \* pending wake-ups <<time, node, kind>>
           consec   |-> 0,        \* consecutive cycles that advanced by exactly the smallest step
           stopCall |-> FALSE,    \* some thread has started a stop request
           stopRet  |-> FALSE,    \* a stop request has returned to its caller
           after    |-> 0,        \* cycles begun after a stop request returned
           noMore   |-> FALSE,    \* the stop flag was set (under the mutex) before the loop computed its next time: no cycle may follow
           allow    |-> 1,        \* cycles that may still begin after it: the current one (none if the request came from inside a cycle)
           fPush    |-> FALSE,    \* push_update_pending as set/cleared under the executor mutex
           fStop    |-> FALSE,    \* stop flag as set under the executor mutex
           wallNext |-> 0,        \* the executor's own wall reading at its last computation of the next time
           nextT    |-> 0,        \* the time it computed for the upcoming cycle
           cut      |-> FALSE,    \* the drain bound was applied
           qn       |-> [x \in Srcs |-> 0],       \* pushed values admitted by a source and not yet taken by the graph
           qstop    |-> [x \in Srcs |-> FALSE],   \* the source has stopped (whatever it held was discarded)
           calls    |-> <<>>,     \* producer thread -> its open send: [fx, acc]
           armed    |-> FALSE,    \* the loop began its wait with a pushed value waiting and nobody obliged to wake it
           ended    |-> FALSE ]

PushWaiting(s) == \E x \in Srcs : ~s.qstop[x] /\ s.qn[x] > 0
InFlightAccept(s) == \E th \in DOMAIN s.calls : s.calls[th].open /\ s.calls[th].acc

OnCycle(e) ==
    LET why == FirstFail(<<
          <<"C17.time_not_strictly_increasing", IF S.first THEN e.t >= S.prev ELSE e.t > S.prev>>,
          <<"C17.cycle_at_or_after_end_time", e.t < End>>,
          <<"C17.evaluated_before_wall_clock_reached_T", e.w >= e.t \/ e.t = S.prev + 1>>,
          <<"C17.scheduled_time_skipped", \A p \in S.pend : p[1] >= e.t>>,
          <<"C17.ran_on_after_stop_request", ~S.noMore /\ (S.stopRet => S.after < S.allow)>> >>, 1)
    IN IF why # "" THEN Fail(why)
       ELSE Ok([S EXCEPT !.prev = e.t, !.first = FALSE, !.inCycle = TRUE,
                         !.consec = IF e.t = S.prev + 1 THEN @ + 1 ELSE 0,
                         !.after = IF S.stopRet THEN @ + 1 ELSE @])

OnTev(e) ==
    LET mine == {p \in S.pend : p[2] = e.id /\ p[1] = e.t}
        why == FirstFail(<<
          <<"C17.node_evaluated_outside_the_cycle_of_its_time", S.inCycle /\ e.t = S.prev>>,
          <<"C17.evaluated_at_a_time_never_scheduled", mine # {}>> >>, 1)
    IN IF why # "" THEN Fail(why) ELSE Ok([S EXCEPT !.pend = @ \ mine])

(* what the scheduler must register for a request (node_scheduler.h schedule):
   logical (rel/abs): ignored when not in the future (at or before now once started, before now in the start hook);
   wall-clock alarm: never ignored - an alarm that is already due is delivered on the next evaluatable cycle,
   max(now + 1, wall) (in the start hook: max(now, wall)), where wall was read between w0 and w1 *)
OnReq(e) ==
    LET starting == e.k = 0
        ignoredOk == IF starting THEN e.want < e.now ELSE e.want <= e.now
        lo  == IF starting THEN Max(e.now, e.w0) ELSE Max(e.now + 1, e.w0)
        hi  == IF starting THEN Max(e.now, e.w1) ELSE Max(e.now + 1, e.w1)
        certainlyDue    == IF starting THEN e.want < Max(e.now, e.w0) ELSE e.want <= Max(e.now, e.w0)
        certainlyNotDue == IF starting THEN e.want >= Max(e.now, e.w1) ELSE e.want > Max(e.now, e.w1)
        dueOk == e.eff >= lo /\ e.eff <= hi
        why == IF e.kind = "wall"
               THEN FirstFail(<<
                      <<"C17.alarm_dropped", e.eff # -1>>,
                      <<"C17.alarm_registered_at_the_wrong_time",
                            IF certainlyNotDue THEN e.eff = e.want
                            ELSE IF certainlyDue THEN dueOk
                            ELSE (e.eff = e.want \/ dueOk)>> >>, 1)
               ELSE FirstFail(<<
                      <<"C17.wakeup_dropped_before_end", ~ignoredOk => e.eff = e.want>>,
                      <<"C17.request_for_the_past_was_registered", ignoredOk => e.eff = -1>> >>, 1)
    IN IF why # "" THEN Fail(why)
       ELSE Ok([S EXCEPT !.pend = IF e.eff = -1 THEN @ ELSE @ \cup {<<e.eff, e.id, e.kind>>}])

NoCall == [open |-> FALSE, fx |-> TRUE, acc |-> FALSE]
OnAccepted(e) ==
    LET c == Get(S.calls, e.th, NoCall) IN
    IF ~c.open \/ ~c.fx \/ e.src \notin Srcs THEN Ok(S)
    ELSE Ok([S EXCEPT !.qn[e.src] = @ + 1, !.calls = Put(@, e.th, [c EXCEPT !.acc = TRUE])])

OnHook(e) ==
    CASE e.p = "rt_mark_push_set" -> Ok([S EXCEPT !.fPush = TRUE])
      [] e.p \in {"pq_accepted", "cf_accepted"} -> OnAccepted(e)
      [] e.p = "pq_pop" /\ e.src \in Srcs -> Ok([S EXCEPT !.qn[e.src] = Max(0, @ - 1)])
      [] e.p \in {"pq_take_all", "cf_take"} /\ e.src \in Srcs -> Ok([S EXCEPT !.qn[e.src] = 0])
      [] e.p \in {"pq_stop_done", "cf_stop"} /\ e.src \in Srcs -> Ok([S EXCEPT !.qn[e.src] = 0, !.qstop[e.src] = TRUE])
      [] e.p = "rt_wait_end"      ->
             \* e.a < 4: the wait was not ended by a notification (slice / target time-out)
             IF S.armed /\ e.a < 4 /\ ~S.stopCall /\ PushWaiting(S) THEN Fail("C17.pushed_value_missed_the_loop_sat_out_a_wait_on_it")
             ELSE Ok([S EXCEPT !.armed = FALSE])
      [] e.p = "rt_reset_push"    -> Ok([S EXCEPT !.fPush = FALSE])
      [] e.p = "rt_stop"          -> Ok([S EXCEPT !.fStop = TRUE])
      [] e.p = "rt_wait_begin"    ->
             \* the loop is about to sleep (mutex held) although a push or a stop has been signalled under that mutex
             IF S.fPush \/ S.fStop THEN Fail("C17.notification_lost_while_waiting")
             ELSE Ok([S EXCEPT !.armed = ~S.stopCall /\ ~InFlightAccept(S) /\ PushWaiting(S)])
      \* the stop flag is set before its point is numbered and the loop tests it after this point: a request numbered
      \* earlier must end the run without another cycle (there is no "current cycle" while the loop waits)
      [] e.p = "rt_compute_next"  -> Ok([S EXCEPT !.wallNext = e.b, !.nextT = e.a, !.inCycle = FALSE, !.noMore = S.fStop])
      [] e.p = "rt_drain_cut"     ->
             \* "only a run that keeps re-scheduling itself every smallest step after the wall clock has passed the end":
             \* a long run of smallest steps behind it AND the upcoming cycle again one smallest step ahead
             IF S.wallNext < End \/ S.consec < DrainBound THEN Fail("C17.run_cut_short_without_the_sanctioned_drain")
             ELSE IF S.nextT > S.prev + 1 THEN Fail("C17.run_cut_short_although_it_stopped_rescheduling_every_smallest_step")
             ELSE Ok([S EXCEPT !.cut = TRUE])
      [] OTHER                    -> Ok(S)

OnRunRet(e) ==
    LET left == {p \in S.pend : p[1] >= 0 /\ p[1] < End}
        why == FirstFail(<<
          <<"C17.run_raised_an_exception", e.ok = 1>>,
          \* the run is over when the wall clock has reached the end - or when the monotonic floor (previous + 1) has
          \* carried the evaluation time there, at most one smallest step earlier
          <<"C17.run_returned_before_end_time_without_stop", S.stopCall \/ e.w >= End \/ S.prev + 1 >= End>>,
          <<"C17.alarm_dropped", S.stopCall \/ S.cut \/ \A p \in left : p[3] # "wall">>,
          <<"C17.wakeup_dropped_before_end", S.stopCall \/ S.cut \/ left = {}>> >>, 1)
    IN IF why # "" THEN Fail(why) ELSE Ok([S EXCEPT !.inCycle = FALSE])

Step(e) == CASE e.e = "h"        -> OnHook(e)
             [] e.e = "cycle"    -> OnCycle(e)
             [] e.e = "tev"      -> OnTev(e)
             [] e.e = "req"      -> OnReq(e)
             [] e.e = "stopcall" -> Ok([S EXCEPT !.stopCall = TRUE])
             [] e.e = "stopret"  -> IF S.stopRet THEN Ok(S) ELSE Ok([S EXCEPT !.stopRet = TRUE, !.allow = IF e.th = 0 /\ S.inCycle THEN 0 ELSE 1])
             [] e.e = "cycled"   -> Ok([S EXCEPT !.inCycle = FALSE])
             [] e.e = "runret"   -> OnRunRet(e)
             [] e.e = "call"     -> Ok([S EXCEPT !.calls = Put(@, e.th, [open |-> TRUE, fx |-> Effective(e), acc |-> FALSE])])
             [] e.e = "ret"      -> Ok([S EXCEPT !.calls = Put(@, e.th, NoCall)])
             [] e.e = "end"      -> Ok([S EXCEPT !.ended = TRUE])
             [] OTHER            -> Ok(S)

Init == /\ tid \in 1..Len(Traces) /\ l = 1 /\ S = InitS /\ verdict = "" /\ done = FALSE

Consume == /\ ~done /\ verdict = "" /\ l <= Len(Traces[tid].ev)
           /\ LET r == Step(Traces[tid].ev[l]) IN S' = r.S /\ verdict' = r.why
           /\ l' = l + 1
           /\ UNCHANGED <<tid, done>>

Finish == /\ ~done /\ (verdict # "" \/ l > Len(Traces[tid].ev))
          /\ done' = TRUE
          /\ PrintT(<<"VERDICT", Traces[tid].id, l - 1, IF verdict = "" /\ ~S.ended THEN "trace.incomplete" ELSE verdict>>)
          /\ UNCHANGED <<tid, l, S, verdict>>

Next == Consume \/ Finish
Spec == Init /\ [][Next]_vars
=============================================================================
