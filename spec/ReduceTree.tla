------------------------------ MODULE ReduceTree ------------------------------
(* Level B of the keyed associative `reduce` (src/hgraph/runtime/reduce_node.cpp) together with the level-A statement of
   C11, as PURE operators (MCReduceTree.tla drives them exhaustively / in simulation, ReduceTreeTrace.tla judges
   observations of the real operator).

   Level A (the property): after every cycle the result is a function of the currently VALID elements only -
       invalid                       nothing valid, no zero
       zero                          nothing valid, zero given
       combine(x, zero)              exactly one valid element x, zero given
       x                             exactly one, no zero
       fold of combine over them     two or more (the zero is not involved)
   The fold is over a commutative associative combiner, i.e. over the SET of valid elements: no history, no shape.

   Level B (the code).  Only elements that have a value are members: they occupy the dense prefix 0..live-1 of the leaf
   array (d2k: leaf -> key, k2l: key -> leaf + 1, 0 = not a member).  The tree has cap (a power of two, never shrinking)
   leaf positions and cap - 1 heap-indexed combine points (root 0, children of i at 2i+1 / 2i+2, leaf i at logical
   position cap - 1 + i).  A combine point owns a combiner only when both its sub-trees hold a live leaf (or: the root,
   when a zero has to be combined with a single element); what a sub-tree contributes is Resolve: nothing, its single
   leaf, or the combiner that carries it (a partially filled sub-tree is carried by a LEFT descendant).
   Every combiner CACHES its partial result (cv); a cycle re-evaluates only the combiners on the paths that a structural
   change or a value tick touches, deepest first.  A stale cv is THE bug class; CacheTruthful states its absence.

   One cycle (NodeCycle), in the order of reduce_evaluate:
     reconcile      removed keys (swap the last leaf into the hole; both leaf indexes are recorded as structural),
                    then keys that acquired a value (appended), all in the order of the collection's delta
     rebuild        (only after a structural change) capacity = max(cap, bit_ceil(live)); growth builds a whole new tree
                    in the other bank (every cached result is gone, every position is structural); otherwise the
                    structural positions are the ancestors of the recorded leaves; create / retire combiners there,
                    re-bind their inputs (generic combiners hold bindings, a lifted scalar kernel reads Resolve afresh),
                    re-point the published root
     candidates     structural positions + ancestors of every leaf whose value ticked (ALSO after a rebuild),
                    evaluated in DESCENDING heap index = children before parents
     evaluate       lifted: combine the two resolved inputs when both have a value; generic: the combiner's child graph
                    runs when it is scheduled (a bound input ticked, was re-pointed, or the combiner is new); a write
                    schedules the combiners bound to that output
   Fault names a slip an engineer could make (and several did); TLC must reject each (MCReduceTree cfgs):
     noold       erase does not record the moved leaf's OLD position: its old path keeps combiners / bindings
     nomapfix    erase moves the last leaf but leaves key -> leaf of the moved key pointing at the old index
     noticks     value ticks are not turned into candidates in a cycle that also rebuilds
     ascending   candidates evaluated in ascending heap index (the word-ascending bitmap walk): parents first
     growpartial growth swaps the bank but keeps the incremental path set: other ancestors are never rebuilt
     norebind    only new combiners get their inputs bound; surviving ones keep the old sources
     nozero1     the single-element-with-zero root combiner is not considered needed
     nomincap    the zero form does not reserve the capacity-two tree its singleton root combiner lives in
     nopub       the published root is re-pointed only by a full rebuild, not by an incremental one
     addpending  a key is made a member when it is added, although it has no value yet (membership must follow validity)
     firstunset  (fixed-list fast path, ListScan) the scan stops at the first element without a value *)
EXTENDS Integers, Sequences, FiniteSets, TLC

CONSTANTS Fault,      \* "none" or one of the names above
          MaxCap      \* largest capacity the instance can reach (domain of the per-position functions)

NoVal == -1           \* "no value" (model values are small naturals)
Pos == 0..(MaxCap - 2)
Min2(a, b) == IF a < b THEN a ELSE b
Max2(a, b) == IF a > b THEN a ELSE b

\* P: [comb, hasZero, zero, lifted]
F(P, x, y) == CASE P.comb = "add" -> x + y
                [] P.comb = "max" -> Max2(x, y)
                [] P.comb = "min" -> Min2(x, y)

\* ---------------------------------------------------------------------------------------------- level A
RECURSIVE FoldKeys(_, _, _)
FoldKeys(P, f, ks) == LET k == CHOOSE x \in ks : TRUE
                      IN IF Cardinality(ks) = 1 THEN f[k] ELSE F(P, f[k], FoldKeys(P, f, ks \ {k}))

\* which clause of the property applies to a collection with the valid keys ks
CaseOf(P, ks) == IF ks = {} THEN (IF P.hasZero THEN "empty_zero" ELSE "empty_nozero")
                 ELSE IF Cardinality(ks) = 1 THEN (IF P.hasZero THEN "single_zero" ELSE "single_nozero")
                 ELSE "many"
\* <<valid?, value>>
ResultA(P, f, ks) ==
    CASE CaseOf(P, ks) = "empty_nozero"  -> <<0, 0>>
      [] CaseOf(P, ks) = "empty_zero"    -> <<1, P.zero>>
      [] CaseOf(P, ks) = "single_zero"   -> <<1, F(P, f[CHOOSE k \in ks : TRUE], P.zero)>>
      [] CaseOf(P, ks) = "single_nozero" -> <<1, f[CHOOSE k \in ks : TRUE]>>
      [] OTHER                           -> <<1, FoldKeys(P, f, ks)>>

\* ---------------------------------------------------------------------------------------------- tree arithmetic (the code)
Internals(c) == IF c > 1 THEN c - 1 ELSE 0
RECURSIVE BitFloor(_), BitCeilFrom(_, _), DescendLeft(_, _, _), Anc(_)
BitFloor(x) == IF x <= 1 THEN x ELSE 2 * BitFloor(x \div 2)
BitCeilFrom(p, n) == IF p >= n THEN p ELSE BitCeilFrom(2 * p, n)
BitCeil(n) == BitCeilFrom(1, n)
DescendLeft(pos, span, lin) == IF lin <= span \div 2 THEN DescendLeft(2 * pos + 1, span \div 2, lin) ELSE pos
Anc(pos) == IF pos = 0 THEN {} ELSE LET p == (pos - 1) \div 2 IN {p} \cup Anc(p)

\* resolve_aggregate: <<"E", 0>> nothing, <<"L", leaf>>, <<"N", combiner position>>
Resolve(c, live, pos) ==
    LET n == Internals(c) IN
    IF pos >= n THEN (IF pos - n < live THEN <<"L", pos - n>> ELSE <<"E", 0>>)
    ELSE LET ls    == BitFloor(pos + 1)
             span  == c \div ls
             first == (pos + 1 - ls) * span
         IN IF first >= live THEN <<"E", 0>>
            ELSE LET lin == Min2(span, live - first)
                 IN IF lin = 1 THEN <<"L", first>> ELSE <<"N", DescendLeft(pos, span, lin)>>

Needed(P, c, live, pos) ==
    \/ (pos = 0 /\ P.hasZero /\ live = 1 /\ Fault # "nozero1")
    \/ (Resolve(c, live, 2 * pos + 1)[1] # "E" /\ Resolve(c, live, 2 * pos + 2)[1] # "E")

\* append_structural_leaf_path / append_leaf_path: the combine points above a leaf
Path(c, leaf) == {p \in Anc(Internals(c) + leaf) : p < Internals(c)}

\* what an aggregate is as a binding target: the element's own output, a combiner's output, the zero, nothing
RefOf(P, d2k, agg) == CASE agg[1] = "L" -> <<"K", d2k[agg[2] + 1]>>
                        [] agg[1] = "N" -> <<"N", agg[2]>>
                        [] OTHER        -> IF P.hasZero THEN <<"Z", 0>> ELSE <<"U", 0>>
Unbound == <<"U", 0>>

\* E: [st: key -> "absent" | "pending" | "valid", val: key -> value, rems, news: sequences of keys, mods: set of keys]
Deref(P, E, ex, cv, ref) == CASE ref[1] = "K" -> IF E.st[ref[2]] = "valid" THEN E.val[ref[2]] ELSE NoVal
                              [] ref[1] = "N" -> IF ref[2] \in ex THEN cv[ref[2]] ELSE NoVal
                              [] ref[1] = "Z" -> P.zero
                              [] OTHER        -> NoVal

\* ---------------------------------------------------------------------------------------------- the node
NodeInit(P, keys) ==
    LET n0 == [d2k |-> <<>>, k2l |-> [k \in keys |-> 0], cap |-> 0, ex |-> {},
               bl |-> [p \in Pos |-> Unbound], br |-> [p \in Pos |-> Unbound], cv |-> [p \in Pos |-> NoVal],
               sch |-> {}, pub |-> Unbound, primed |-> FALSE, published |-> FALSE]
    \* with a zero the node is evaluated at start (the constant ticks): an empty tree of capacity two publishing the zero
    IN IF P.hasZero THEN [n0 EXCEPT !.cap = IF Fault = "nomincap" THEN 0 ELSE 2, !.pub = <<"Z", 0>>, !.published = TRUE] ELSE n0

\* remove_leaf_at + record_removed_leaf_paths, in the order the collection reports the removed keys
RECURSIVE DoRems(_, _, _)
DoRems(a, rems, i) ==
    IF i > Len(rems) THEN a
    ELSE LET k == rems[i] IN
         IF a.k2l[k] = 0 THEN DoRems(a, rems, i + 1)            \* never had a value: not a member
         ELSE LET leaf  == a.k2l[k] - 1
                  last  == Len(a.d2k) - 1
                  moved == a.d2k[last + 1]
                  sl2   == a.sl \cup {leaf} \cup (IF leaf # last /\ Fault # "noold" THEN {last} ELSE {})
                  d2    == IF leaf # last THEN [a.d2k EXCEPT ![leaf + 1] = moved] ELSE a.d2k
                  m2    == [a.k2l EXCEPT ![k] = 0]
                  m3    == IF leaf # last /\ Fault # "nomapfix" THEN [m2 EXCEPT ![moved] = leaf + 1] ELSE m2
              IN DoRems([d2k |-> SubSeq(d2, 1, last), k2l |-> m3, sl |-> sl2], rems, i + 1)

\* keys that acquired a value (added with one, or present and now valid): appended
RECURSIVE DoAdds(_, _, _)
DoAdds(a, news, i) ==
    IF i > Len(news) THEN a
    ELSE LET k == news[i] IN
         IF a.k2l[k] # 0 THEN DoAdds(a, news, i + 1)
         ELSE DoAdds([d2k |-> Append(a.d2k, k), k2l |-> [a.k2l EXCEPT ![k] = Len(a.d2k) + 1],
                      sl |-> a.sl \cup {Len(a.d2k)}], news, i + 1)

RECURSIVE SortedSeq(_, _)
SortedSeq(S, desc) == IF S = {} THEN <<>>
                      ELSE LET x == CHOOSE y \in S : \A z \in S : (IF desc THEN y >= z ELSE y <= z)
                           IN <<x>> \o SortedSeq(S \ {x}, desc)

\* the evaluation loop; T = [ex, bl, br, cap, d2k]; acc = [cv, sch, wrote]
EvalOne(P, T, p, acc, l, r) ==
    LET writes == (P.lifted \/ p \in acc.sch) /\ l # NoVal /\ r # NoVal
    IN [cv |-> IF writes THEN [acc.cv EXCEPT ![p] = F(P, l, r)] ELSE acc.cv,
        sch |-> (acc.sch \ {p}) \cup (IF writes /\ ~P.lifted THEN {q \in T.ex : T.bl[q] = <<"N", p>> \/ T.br[q] = <<"N", p>>} ELSE {}),
        wrote |-> IF writes THEN acc.wrote \cup {p} ELSE acc.wrote]
RECURSIVE EvalLoop(_, _, _, _, _, _)
EvalLoop(P, E, T, order, i, acc) ==
    IF i > Len(order) THEN acc
    ELSE EvalLoop(P, E, T, order, i + 1,
                  EvalOne(P, T, order[i], acc,
                          Deref(P, E, T.ex, acc.cv, IF P.lifted THEN RefOf(P, T.d2k, Resolve(T.cap, Len(T.d2k), 2 * order[i] + 1)) ELSE T.bl[order[i]]),
                          Deref(P, E, T.ex, acc.cv, IF P.lifted THEN RefOf(P, T.d2k, Resolve(T.cap, Len(T.d2k), 2 * order[i] + 2)) ELSE T.br[order[i]])))

\* One evaluation of the reduce node in a cycle in which the collection ticked.  -> [n, res, tick, grew, movedTicked]
\* (staged through operator PARAMETERS: TLC evaluates a parameter once, a LET definition at every use)

\* reduce_reconcile: the leaf state after the delta; sl = structural leaves
Reconcile(n, E) == DoAdds(DoRems([d2k |-> n.d2k, k2l |-> n.k2l, sl |-> {}], E.rems, 1), E.news, 1)

\* rebuild_structure, the capacity decision and the positions it will visit
Geometry(P, n, a) ==
    LET live    == Len(a.d2k)
        rebuilt == a.sl # {} \/ ~n.published \/ ~n.primed      \* the first reconcile is a full one and always counts as structural
        newcap  == Max2(Max2(n.cap, IF P.hasZero /\ Fault # "nomincap" THEN 2 ELSE 0), IF live > 0 THEN BitCeil(live) ELSE 0)
        bank    == rebuilt /\ newcap # n.cap
        cap1    == IF rebuilt THEN newcap ELSE n.cap
        full2   == ~n.published \/ ~n.primed \/ (bank /\ Fault # "growpartial")
    IN [rebuilt |-> rebuilt, bank |-> bank, cap |-> cap1, live |-> live, full |-> full2,
        spos |-> IF ~rebuilt THEN {}
                 ELSE IF full2 THEN 0..(Internals(cap1) - 1)
                 ELSE UNION {Path(cap1, l) : l \in a.sl}]

\* phase 1: create where needed, retire where not (growth starts from an empty bank)
Shape(P, n, g) ==
    LET ex0     == IF g.bank THEN {} ELSE n.ex
        neededS == {p \in g.spos : Needed(P, g.cap, g.live, p)}
    IN [ex |-> (ex0 \ g.spos) \cup neededS, created |-> neededS \ ex0]

\* phase 2 + root publication: inputs of the combiners at structural positions, the published source
Bind(P, n, a, g, s) ==
    LET bpos  == IF P.lifted THEN {} ELSE IF Fault = "norebind" THEN s.created ELSE g.spos \cap s.ex
        oldbl == [p \in Pos |-> IF g.bank \/ p \in s.created THEN Unbound ELSE n.bl[p]]
        oldbr == [p \in Pos |-> IF g.bank \/ p \in s.created THEN Unbound ELSE n.br[p]]
        newl(p) == IF p \notin s.ex THEN Unbound
                   ELSE IF p \in bpos THEN RefOf(P, a.d2k, Resolve(g.cap, g.live, 2 * p + 1)) ELSE oldbl[p]
        newr(p) == IF p \notin s.ex THEN Unbound
                   ELSE IF p \in bpos THEN RefOf(P, a.d2k, Resolve(g.cap, g.live, 2 * p + 2)) ELSE oldbr[p]
        rootAgg == IF g.live = 0 THEN <<"E", 0>>
                   ELSE IF P.hasZero /\ g.live = 1 /\ g.cap >= 2 THEN <<"N", 0>>
                   ELSE Resolve(g.cap, g.live, 0)
    IN [bl |-> [p \in Pos |-> newl(p)], br |-> [p \in Pos |-> newr(p)],
        repoint |-> {p \in bpos : newl(p) # oldbl[p] \/ newr(p) # oldbr[p]},
        pub |-> IF g.rebuilt /\ (g.full \/ Fault # "nopub") THEN RefOf(P, a.d2k, rootAgg) ELSE n.pub]

\* prepare_reduce_evaluation_positions: structural positions + ancestors of every leaf whose value ticked
Candidates(a, g, s, E) ==
    LET modLeaf == {a.k2l[k] - 1 : k \in {x \in E.mods : a.k2l[x] # 0}}
        tickPos == IF Fault = "noticks" /\ g.rebuilt THEN {} ELSE UNION {Path(g.cap, l) \cap s.ex : l \in modLeaf}
    IN SortedSeq((g.spos \cap s.ex) \cup tickPos, Fault # "ascending")

\* a generic combiner's child graph is scheduled by: being new, a re-pointed input (sampled), a bound element ticking
Scheduled(P, n, g, s, b, E) ==
    IF P.lifted THEN {}
    ELSE ((IF g.bank THEN {} ELSE n.sch) \cap s.ex) \cup s.created \cup b.repoint
         \cup {p \in s.ex : \E k \in E.mods : b.bl[p] = <<"K", k>> \/ b.br[p] = <<"K", k>>}

Outcome(P, n, E, a, g, s, b, fin, res) ==
    [n |-> [d2k |-> a.d2k, k2l |-> a.k2l, cap |-> g.cap, ex |-> s.ex, bl |-> b.bl, br |-> b.br, cv |-> fin.cv,
            sch |-> fin.sch, pub |-> b.pub, primed |-> TRUE, published |-> (n.published \/ g.rebuilt)],
     res |-> res,
     \* the forwarding output ticks when it is re-pointed to a source that has a value, when it loses its source (the
     \* invalidation is a tick), or when its source ticks
     tick |-> \/ (b.pub # n.pub /\ (res # NoVal \/ b.pub = Unbound))
              \/ (b.pub[1] = "K" /\ b.pub[2] \in E.mods)
              \/ (b.pub[1] = "N" /\ b.pub[2] \in fin.wrote),
     grew |-> g.bank,
     movedTicked |-> \E i \in 1..Len(E.rems) : n.k2l[E.rems[i]] # 0 /\ n.k2l[E.rems[i]] < Len(n.d2k) /\ n.d2k[Len(n.d2k)] \in E.mods]

Cycle6(P, n, E, a, g, s, b, fin) == Outcome(P, n, E, a, g, s, b, fin, Deref(P, E, s.ex, fin.cv, b.pub))
Cycle5(P, n, E, a, g, s, b) ==
    Cycle6(P, n, E, a, g, s, b,
           EvalLoop(P, E, [ex |-> s.ex, bl |-> b.bl, br |-> b.br, cap |-> g.cap, d2k |-> a.d2k], Candidates(a, g, s, E), 1,
                    [cv |-> [p \in Pos |-> IF p \in s.ex \ s.created THEN n.cv[p] ELSE NoVal],
                     sch |-> Scheduled(P, n, g, s, b, E), wrote |-> {}]))
Cycle4(P, n, E, a, g, s) == Cycle5(P, n, E, a, g, s, Bind(P, n, a, g, s))
Cycle3(P, n, E, a, g) == Cycle4(P, n, E, a, g, Shape(P, n, g))
Cycle2(P, n, E, a) == Cycle3(P, n, E, a, Geometry(P, n, a))
NodeCycle(P, n, E) == Cycle2(P, n, E, Reconcile(n, E))

Result(P, n, E) == Deref(P, E, n.ex, n.cv, n.pub)

\* ---------------------------------------------------------------------------------------------- what must hold between cycles
ValidKeys(st) == {k \in DOMAIN st : st[k] = "valid"}

\* level A
ResultIsFold(P, n, E) ==
    LET a == ResultA(P, E.val, ValidKeys(E.st)) r == Result(P, n, E)
    IN IF a[1] = 0 THEN r = NoVal ELSE r = a[2]

\* level B, stated WITHOUT the code's own arithmetic: by the sets of leaf positions below a heap position
RECURSIVE LeavesUnder(_, _)
LeavesUnder(c, q) == IF q >= Internals(c) THEN {q - Internals(c)} ELSE LeavesUnder(c, 2 * q + 1) \cup LeavesUnder(c, 2 * q + 2)
LiveUnder(n, q) == {l \in LeavesUnder(n.cap, q) : l < Len(n.d2k)}
RECURSIVE Carrier(_, _)
Carrier(n, q) == IF LiveUnder(n, 2 * q + 2) # {} THEN q ELSE Carrier(n, 2 * q + 1)     \* live leaves are a prefix: all in the left
TruthNeeded(P, n, p) == \/ (LiveUnder(n, 2 * p + 1) # {} /\ LiveUnder(n, 2 * p + 2) # {})
                        \/ (p = 0 /\ P.hasZero /\ Len(n.d2k) = 1)
TruthRef(P, n, q) == LET ls == LiveUnder(n, q) IN
                     IF ls = {} THEN (IF P.hasZero THEN <<"Z", 0>> ELSE Unbound)
                     ELSE IF Cardinality(ls) = 1 THEN <<"K", n.d2k[(CHOOSE l \in ls : TRUE) + 1]>>
                     ELSE <<"N", Carrier(n, q)>>
TruthValue(P, n, E, p) ==
    LET ks == {n.d2k[l + 1] : l \in LiveUnder(n, p)}
    IN IF Cardinality(ks) = 1 THEN F(P, E.val[CHOOSE k \in ks : TRUE], P.zero) ELSE FoldKeys(P, E.val, ks)

KeyMapBijection(n) ==
    /\ \A i \in 1..Len(n.d2k) : n.k2l[n.d2k[i]] = i
    /\ \A k \in DOMAIN n.k2l : n.k2l[k] # 0 => (n.k2l[k] <= Len(n.d2k) /\ n.d2k[n.k2l[k]] = k)
LeavesAreTheValid(n, E) ==
    /\ {n.d2k[i] : i \in 1..Len(n.d2k)} = ValidKeys(E.st)
    /\ Len(n.d2k) = Cardinality(ValidKeys(E.st))
CapacityOk(P, n) == /\ n.cap \in {0, 1, 2, 4, 8, 16}
                    /\ Len(n.d2k) <= n.cap
                    /\ (P.hasZero => n.cap >= 2)
ShapeExact(P, n) == n.ex = {p \in 0..(Internals(n.cap) - 1) : TruthNeeded(P, n, p)}
CacheTruthful(P, n, E) == \A p \in n.ex : TruthNeeded(P, n, p) => n.cv[p] = TruthValue(P, n, E, p)
BindingsExact(P, n) == P.lifted \/ \A p \in n.ex : n.bl[p] = TruthRef(P, n, 2 * p + 1) /\ n.br[p] = TruthRef(P, n, 2 * p + 2)
\* every element is consumed exactly once: by one input of one combiner, or - alone - by the published root
Consumers(n, k) == Cardinality({p \in n.ex : n.bl[p] = <<"K", k>>}) + Cardinality({p \in n.ex : n.br[p] = <<"K", k>>})
                   + (IF n.pub = <<"K", k>> THEN 1 ELSE 0)
NoLeafBoundTwice(P, n, E) == P.lifted \/ \A k \in DOMAIN n.k2l : Consumers(n, k) = (IF E.st[k] = "valid" THEN 1 ELSE 0)
NothingLeftScheduled(n) == n.sch = {}
PublishedIsRoot(P, n) == n.pub = (IF Len(n.d2k) = 0 THEN (IF P.hasZero THEN <<"Z", 0>> ELSE Unbound)
                                  ELSE IF P.hasZero /\ Len(n.d2k) = 1 THEN <<"N", 0>> ELSE TruthRef(P, n, 0))

\* ---------------------------------------------------------------------------------------------- fixed-size list fast path
\* (higher_order_impl.h reduce_lifted: no tree, one scan over the slots in index order skipping slots without a value)
RECURSIVE Scan(_, _, _, _, _)
Scan(P, E, i, nmax, acc) ==
    IF i > nmax THEN acc
    ELSE IF E.st[i] # "valid" THEN (IF Fault = "firstunset" THEN acc ELSE Scan(P, E, i + 1, nmax, acc))
    ELSE Scan(P, E, i + 1, nmax, IF acc = NoVal THEN E.val[i] ELSE F(P, acc, E.val[i]))
ListScanIsFold(P, E, nmax) == Scan(P, E, 1, nmax, NoVal) = (IF ValidKeys(E.st) = {} THEN NoVal ELSE FoldKeys(P, E.val, ValidKeys(E.st)))
=============================================================================
