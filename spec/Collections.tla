---------------------------- MODULE Collections ----------------------------
(***************************************************************************)
(* Level B: implementation-shaped model of the collection time-series      *)
(* storage (C04 flags, C05 deltas) for one output and an arbitrary writer. *)
(*                                                                         *)
(* TLC chooses the shape (TSS, TSD of scalars, fixed TSL / TSB of scalars, *)
(* tick window TSW) in Init, and in every cycle whether the writer runs    *)
(* and which mutations it performs (up to MaxOps per cycle), so one run    *)
(* covers every mutation script of the bounded size.                       *)
(*                                                                         *)
(* Modelled after the code (anchors):                                      *)
(*  - KeySlotStore (types/utils/key_slot_store.h): slots free / live /     *)
(*    removed-pending-erase, LIFO free list, growth in blocks, insertion   *)
(*    of a key that is pending erase resurrects its slot;                  *)
(*  - TSSSlotStorage / TSDSlotStorage (metadata/ts_data_slot_ops.cpp):     *)
(*    added_ / removed_ / modified_ / value_published_ bitsets with the    *)
(*    cancellation branches, delta_time_ and the lazy prepare_delta roll   *)
(*    (erase_pending + invalidation of erased children + reset of the      *)
(*    bitsets when a NEWER time arrives), key-set tracking;                *)
(*  - TSDataTracking::record_modified (ts_data/types.cpp): monotone,       *)
(*    coalescing; a child notifies its parent only when its own record     *)
(*    changed (record_child_modified -> modified_ bit, publication);       *)
(*  - fixed structured children (ts_data_fixed_structured_ops.cpp);        *)
(*  - tick window ring (ts_data_window_ops.cpp): head / count, eviction    *)
(*    when full, one push per cycle.                                       *)
(*                                                                         *)
(* Level A is carried along as a shadow (abs = the abstract value, absPre  *)
(* = the value at the start of the cycle, absW = keys / children written   *)
(* in the cycle) and stated as invariants over what a reader observes at   *)
(* the end of every cycle (Obs): the coherence conditions of Delta.tla     *)
(* plus truthfulness of the flags.                                         *)
(*                                                                         *)
(* Named deviation FixF2: the code does NOT set modified_ when a key that  *)
(* was written and erased in this cycle is resurrected and written again   *)
(* (the child's record_modified coalesces).  With FixF2 = FALSE the model  *)
(* follows the code and TLC finds the counterexample to ValueIsPrevPlus-   *)
(* Delta (the design-level form of finding F2); with FixF2 = TRUE the      *)
(* intended design is modelled and all invariants hold.                    *)
(***************************************************************************)
EXTENDS Integers, Sequences, FiniteSets, TLC, Json, SequencesExt

CONSTANTS Shapes,    \* subset of {"TSS", "TSD", "TSL", "TSB", "TSW"}
          Keys,      \* keys / set elements
          Vals,      \* scalar values written
          MaxT,      \* cycles 1..MaxT
          MaxOps,    \* mutations per cycle
          Cap0,      \* initial slot capacity
          GrowBy,    \* slots added when the free list is empty
          WinN, WinMin,
          DynN,      \* a dynamic list is written at indices 0..DynN-1
          FixF2,
          Emit

VARIABLES shape, now, phase, nops, wrote, inval,
          slots, free, pend, added, removed, modified, published, deltaTime, lmt, ksLmt,   \* keyed storage
          kids,                                                                             \* fixed / dynamic list children
          nxt, tail, mwin,                                                                  \* dynamic list: ring of modified children
          ring, head, count,                                                                \* tick window
          abs, absPre, absW, lastW,                                                         \* level A shadow
          script, obs                                                                       \* history
impl == <<slots, free, pend, added, removed, modified, published, deltaTime, lmt, ksLmt, kids, nxt, tail, mwin, ring, head, count>>
vars == <<shape, now, phase, nops, wrote, inval, impl, abs, absPre, absW, lastW, script, obs>>
NoHist == <<shape, now, phase, nops, wrote, inval, impl, abs, absPre, absW, lastW>>

Keyed == shape \in {"TSS", "TSD"}
Fixed == shape \in {"TSL", "TSB"}
Dyn   == shape = "DTSL"
NKids == IF shape = "TSL" THEN 3 ELSE 2
EmptyFn == [x \in {} |-> 0]
Sorted(s) == SetToSortSeq(s, LAMBDA a, b : a < b)
LastN(q, n) == IF Len(q) <= n THEN q ELSE SubSeq(q, Len(q) - n + 1, Len(q))

FreeSlot == [key |-> 0, st |-> "free", cv |-> 0, clmt |-> 0]
SlotIds == DOMAIN slots
Live(s) == slots[s].st = "live"
Occupied(s) == slots[s].st # "free"
SlotOf(k) == IF \E s \in SlotIds : Occupied(s) /\ slots[s].key = k THEN CHOOSE s \in SlotIds : Occupied(s) /\ slots[s].key = k ELSE 0

(***************************************************************************)
(* record_modified: monotone - an older or equal time is a no-op           *)
(***************************************************************************)
Rec(old, t) == IF t <= old THEN old ELSE t
Changed(old, t) == t > old

(***************************************************************************)
(* prepare_delta: only a NEWER time rolls the delta window; the roll       *)
(* invalidates the children of the slots pending erase, erases them        *)
(* (back onto the free list) and resets the bitsets                        *)
(***************************************************************************)
Roll(st, t) ==
    IF t <= st.deltaTime THEN st
    ELSE [st EXCEPT !.slots = [s \in DOMAIN st.slots |-> IF st.slots[s].st = "pend" THEN FreeSlot ELSE st.slots[s]],
                    !.free = st.free \o st.pend,
                    !.pend = <<>>,
                    !.added = {}, !.removed = {}, !.modified = {},
                    !.published = st.published \ {st.pend[i] : i \in DOMAIN st.pend},
                    !.deltaTime = t]

K == [slots |-> slots, free |-> free, pend |-> pend, added |-> added, removed |-> removed, modified |-> modified,
      published |-> published, deltaTime |-> deltaTime, lmt |-> lmt, ksLmt |-> ksLmt]

SetK(st) == /\ slots' = st.slots /\ free' = st.free /\ pend' = st.pend /\ added' = st.added /\ removed' = st.removed
            /\ modified' = st.modified /\ published' = st.published /\ deltaTime' = st.deltaTime /\ lmt' = st.lmt /\ ksLmt' = st.ksLmt

Find(st, k, states) == LET c == {s \in DOMAIN st.slots : st.slots[s].st \in states /\ st.slots[s].key = k}
                       IN  IF c = {} THEN 0 ELSE CHOOSE s \in c : TRUE

(* KeySlotStore::insert: live -> not inserted; same key pending erase -> resurrect; else a free slot (grow when none) *)
Insert(st0, k, t) ==
    LET st == Roll(st0, t)
        s1 == Find(st, k, {"live"})
        s2 == Find(st, k, {"pend"})
    IN  IF s1 # 0 THEN [st |-> st, slot |-> s1, inserted |-> FALSE, fresh |-> FALSE]
        ELSE IF s2 # 0
        THEN [st |-> [st EXCEPT !.slots[s2].st = "live", !.pend = SelectSeq(@, LAMBDA x : x # s2)],
              slot |-> s2, inserted |-> TRUE, fresh |-> FALSE]
        ELSE LET grown == IF st.free # <<>> THEN st
                          ELSE [st EXCEPT !.slots = @ \o [i \in 1..GrowBy |-> FreeSlot],
                                          !.free = [i \in 1..GrowBy |-> Len(st.slots) + GrowBy + 1 - i]]
                 s == grown.free[Len(grown.free)]
             IN  [st |-> [grown EXCEPT !.slots[s] = [key |-> k, st |-> "live", cv |-> 0, clmt |-> 0], !.free = SubSeq(@, 1, Len(@) - 1)],
                  slot |-> s, inserted |-> TRUE, fresh |-> TRUE]

Mark(st, t) == [st EXCEPT !.lmt = Rec(@, t)]

(* ---- TSS ---- *)
TssAdd(k, t) ==
    LET r == Insert(K, k, t)
        s == r.slot
    IN  Mark(IF ~r.inserted THEN r.st
             ELSE IF s \in r.st.removed THEN [r.st EXCEPT !.removed = @ \ {s}] ELSE [r.st EXCEPT !.added = @ \cup {s}], t)

TssRemove(st0, k, t) ==
    LET st == Roll(st0, t)
        s == Find(st, k, {"live"})
    IN  Mark(IF s = 0 THEN st
             ELSE LET st1 == [st EXCEPT !.slots[s].st = "pend", !.pend = Append(@, s)]
                  IN  IF s \in st1.added THEN [st1 EXCEPT !.added = @ \ {s}] ELSE [st1 EXCEPT !.removed = @ \cup {s}], t)

(* ---- TSD (scalar children) ---- *)
\* TSDSlotStorage::remove_key
TsdErase(st0, k, t) ==
    LET st == Roll(st0, t)
        s == Find(st, k, {"live"})
    IN  Mark(IF s = 0 THEN st
             ELSE LET st1 == [st EXCEPT !.slots[s].st = "pend", !.pend = Append(@, s), !.modified = @ \ {s}, !.ksLmt = Rec(@, t)]
                  IN  IF s \notin st1.published THEN st1
                      ELSE IF s \in st1.added THEN [st1 EXCEPT !.added = @ \ {s}, !.published = @ \ {s}]
                      ELSE [st1 EXCEPT !.removed = @ \cup {s}, !.published = @ \ {s}], t)

RECURSIVE RemoveAll(_, _, _, _)
RemoveAll(st, ks, t, dict) ==
    IF ks = {} THEN st
    ELSE LET k == CHOOSE x \in ks : TRUE
         IN  RemoveAll(IF dict THEN TsdErase(st, k, t) ELSE TssRemove(st, k, t), ks \ {k}, t, dict)

\* TSDDataMutationView::at (insert_key) followed by the child's copy_value_from / mark_modified
TsdSet(k, v, t) ==
    LET r  == Insert(K, k, t)
        s  == r.slot
        a0 == r.st
        \* insert_key bookkeeping
        a1 == IF ~r.inserted THEN a0
              ELSE LET b == [a0 EXCEPT !.ksLmt = Rec(@, t)]
                       c == IF s \in b.removed THEN [b EXCEPT !.removed = @ \ {s}, !.published = @ \cup {s}]
                            ELSE IF b.slots[s].clmt # 0 THEN [b EXCEPT !.published = @ \cup {s}, !.added = @ \cup {s}]
                            ELSE b
                       d == IF FixF2 /\ c.slots[s].clmt = t THEN [c EXCEPT !.modified = @ \cup {s}] ELSE c
                   IN  Mark(d, t)
        \* the child: value is written; record_modified coalesces within the cycle and only a changed record notifies the parent
        notify == Changed(a1.slots[s].clmt, t)
        a2 == [a1 EXCEPT !.slots[s].cv = v, !.slots[s].clmt = Rec(@, t)]
        \* record_child_modified + the parent's own record_modified
        a3 == IF ~notify THEN a2
              ELSE LET p == Roll(a2, t)
                       q == IF s \in p.published THEN p
                            ELSE IF s \in p.removed THEN [p EXCEPT !.published = @ \cup {s}, !.removed = @ \ {s}]
                            ELSE [p EXCEPT !.published = @ \cup {s}, !.added = @ \cup {s}]
                   IN  Mark([q EXCEPT !.modified = @ \cup {s}], t)
    IN  a3

(***************************************************************************)
(* the writer's operations                                                 *)
(***************************************************************************)
OpSet ==
    CASE shape = "TSS" -> {[op |-> "add", p |-> <<>>, a |-> <<k>>] : k \in Keys} \cup {[op |-> "rem", p |-> <<>>, a |-> <<k>>] : k \in Keys}
                          \cup {[op |-> "clr", p |-> <<>>, a |-> <<>>]}
      [] shape = "TSD" -> {[op |-> "set", p |-> <<k>>, a |-> <<v>>] : k \in Keys, v \in Vals} \cup {[op |-> "del", p |-> <<>>, a |-> <<k>>] : k \in Keys}
                          \cup {[op |-> "clr", p |-> <<>>, a |-> <<>>]}
      [] Fixed         -> {[op |-> "set", p |-> <<i - 1>>, a |-> <<v>>] : i \in 1..NKids, v \in Vals}
                          \cup {[op |-> "inv", p |-> <<>>, a |-> <<>>]}       \* invalidate the whole bundle / list
      [] shape = "TSW" -> {[op |-> "push", p |-> <<>>, a |-> <<v>>] : v \in Vals}
      [] Dyn           -> {[op |-> "set", p |-> <<i>>, a |-> <<v>>] : i \in 0..(DynN - 1), v \in Vals}

(* DynamicTSLStorage (ts_data_dynamic_list_ops.cpp): the children that ticked in the current window form a circular list
   threaded through next_modified; the header points at the TAIL, the tail points back at the first entry *)
RECURSIVE Walk(_, _, _, _)
Walk(nx, first, p, acc) == IF nx[p] = first \/ Len(acc) > Len(nx) THEN Append(acc, p) ELSE Walk(nx, first, nx[p], Append(acc, p))
ModifiedRing == IF tail = 0 \/ mwin # lmt THEN <<>> ELSE Walk(nxt, nxt[tail], nxt[tail], <<>>)

LiveKeys(st) == {st.slots[s].key : s \in {x \in DOMAIN st.slots : st.slots[x].st = "live"}}

Do(o) ==
    CASE shape = "TSS" ->
            /\ SetK(CASE o.op = "add" -> TssAdd(o.a[1], now)
                      [] o.op = "rem" -> TssRemove(K, o.a[1], now)
                      [] o.op = "clr" -> RemoveAll(Mark(Roll(K, now), now), LiveKeys(K), now, FALSE))
            /\ abs' = CASE o.op = "add" -> abs \cup {o.a[1]} [] o.op = "rem" -> abs \ {o.a[1]} [] o.op = "clr" -> {}
            /\ UNCHANGED <<kids, nxt, tail, mwin, ring, head, count, absW>>
      [] shape = "TSD" ->
            /\ SetK(CASE o.op = "set" -> TsdSet(o.p[1], o.a[1], now)
                      [] o.op = "del" -> TsdErase(K, o.a[1], now)
                      [] o.op = "clr" -> RemoveAll(Mark(Roll(K, now), now), LiveKeys(K), now, TRUE))
            /\ abs' = CASE o.op = "set" -> [x \in DOMAIN abs \cup {o.p[1]} |-> IF x = o.p[1] THEN o.a[1] ELSE abs[x]]
                        [] o.op = "del" -> [x \in DOMAIN abs \ {o.a[1]} |-> abs[x]]
                        [] o.op = "clr" -> EmptyFn
            /\ absW' = CASE o.op = "set" -> absW \cup {o.p[1]} [] o.op = "del" -> absW \ {o.a[1]} [] o.op = "clr" -> {}
            /\ UNCHANGED <<kids, nxt, tail, mwin, ring, head, count>>
      [] Fixed /\ o.op = "inv" ->
            \* TSDataMutationView::invalidate: nothing to do without a current value; otherwise every child with a value is
            \* invalidated first (its stamp cleared), then the parent's own stamp is cleared
            /\ kids' = IF lmt = 0 THEN kids ELSE [i \in DOMAIN kids |-> [v |-> kids[i].v, lmt |-> 0]]
            /\ lmt' = 0
            /\ abs' = IF lmt = 0 THEN abs ELSE [i \in DOMAIN abs |-> [ok |-> FALSE, v |-> 0]]
            /\ absW' = IF lmt = 0 THEN absW ELSE {}
            /\ UNCHANGED <<slots, free, pend, added, removed, modified, published, deltaTime, ksLmt, nxt, tail, mwin, ring, head, count>>
      [] Fixed /\ o.op # "inv" ->
            LET i == o.p[1] + 1 IN
            /\ kids' = [kids EXCEPT ![i] = [v |-> o.a[1], lmt |-> Rec(@.lmt, now)]]
            /\ lmt' = IF Changed(kids[i].lmt, now) THEN Rec(lmt, now) ELSE lmt      \* the parent is notified once per cycle and child
            /\ abs' = [abs EXCEPT ![i] = [ok |-> TRUE, v |-> o.a[1]]]
            /\ absW' = absW \cup {i}
            /\ UNCHANGED <<slots, free, pend, added, removed, modified, published, deltaTime, ksLmt, nxt, tail, mwin, ring, head, count>>
      [] shape = "TSW" ->
            /\ IF count = WinN
               THEN /\ ring' = [ring EXCEPT ![head] = o.a[1]] /\ head' = (head % WinN) + 1 /\ count' = count
               ELSE /\ ring' = [ring EXCEPT ![((head + count - 1) % WinN) + 1] = o.a[1]] /\ head' = head /\ count' = count + 1
            /\ lmt' = Rec(lmt, now)
            /\ abs' = Append(abs, o.a[1])
            /\ UNCHANGED <<slots, free, pend, added, removed, modified, published, deltaTime, ksLmt, kids, nxt, tail, mwin, absW>>
      [] Dyn ->
            LET i    == o.p[1] + 1
                grow == IF Len(kids) >= i THEN kids ELSE kids \o [j \in 1..(i - Len(kids)) |-> [v |-> 0, lmt |-> 0]]      \* at(): ensure_size
                nx0  == IF Len(nxt) >= i THEN nxt ELSE nxt \o [j \in 1..(i - Len(nxt)) |-> 0]
                tick == Changed(grow[i].lmt, now)               \* the child notifies its parent on its first mutation of the cycle
                fresh == mwin # now                              \* record_child_modified: a newer time starts a new ring
                tl   == IF fresh THEN 0 ELSE tail
            IN  /\ kids' = [grow EXCEPT ![i] = [v |-> o.a[1], lmt |-> Rec(@.lmt, now)]]
                /\ IF tick
                   THEN /\ mwin' = now /\ tail' = i
                        /\ nxt' = IF tl = 0 THEN [nx0 EXCEPT ![i] = i]
                                  ELSE [nx0 EXCEPT ![i] = nx0[tl], ![tl] = i]      \* entry.next = tail.next (the first); tail.next = entry
                        /\ lmt' = Rec(lmt, now)
                   ELSE /\ mwin' = mwin /\ tail' = tail /\ nxt' = nx0 /\ lmt' = lmt
                /\ abs' = LET g == IF Len(abs) >= i THEN abs ELSE abs \o [j \in 1..(i - Len(abs)) |-> [ok |-> FALSE, v |-> 0]]
                          IN  [g EXCEPT ![i] = [ok |-> TRUE, v |-> o.a[1]]]
                /\ absW' = absW \cup {i}
                /\ UNCHANGED <<slots, free, pend, added, removed, modified, published, deltaTime, ksLmt, ring, head, count>>

(***************************************************************************)
(* what a reader sees at the end of the current cycle                      *)
(***************************************************************************)
KeyOf(s) == slots[s].key
Obs ==
    LET m == lmt = now IN
    CASE shape = "TSS" ->
            [t |-> now, m |-> IF m THEN 1 ELSE 0, ok |-> IF lmt # 0 THEN 1 ELSE 0, lmt |-> lmt,
             v |-> Sorted({KeyOf(s) : s \in {x \in SlotIds : Live(x)}}),
             a |-> Sorted(IF m THEN {KeyOf(s) : s \in added} ELSE {}),
             r |-> Sorted(IF m THEN {KeyOf(s) : s \in removed} ELSE {})]
      [] shape = "TSD" ->
            LET cur == deltaTime = now
                liveS == {x \in SlotIds : Live(x)}
            IN  [t |-> now, m |-> IF m THEN 1 ELSE 0, ok |-> IF lmt # 0 THEN 1 ELSE 0, lmt |-> lmt,
                 ks |-> Sorted({KeyOf(s) : s \in liveS}),
                 a |-> Sorted(IF cur THEN {KeyOf(s) : s \in {x \in added : Occupied(x)}} ELSE {}),
                 r |-> Sorted(IF cur THEN {KeyOf(s) : s \in {x \in removed : Occupied(x)}} ELSE {}),
                 mk |-> Sorted(IF m /\ cur THEN {KeyOf(s) : s \in modified \cap liveS} ELSE {}),
                 cv |-> LET ks == Sorted({KeyOf(s) : s \in liveS})
                        IN  [i \in DOMAIN ks |-> LET s == CHOOSE x \in liveS : KeyOf(x) = ks[i]
                                                 IN  <<ks[i], slots[s].cv, IF slots[s].clmt = now THEN 1 ELSE 0>>]]
      [] Fixed ->
            [t |-> now, m |-> IF m THEN 1 ELSE 0, ok |-> IF lmt # 0 THEN 1 ELSE 0, lmt |-> lmt, iv |-> IF inval THEN 1 ELSE 0,
             mi |-> Sorted({i - 1 : i \in {j \in 1..NKids : kids[j].lmt = now}}),
             cv |-> [i \in 1..NKids |-> <<IF kids[i].lmt # 0 THEN kids[i].v ELSE 0, IF kids[i].lmt = now THEN 1 ELSE 0, IF kids[i].lmt # 0 THEN 1 ELSE 0>>]]
      [] Dyn ->
            [t |-> now, m |-> IF m THEN 1 ELSE 0, ok |-> IF lmt # 0 THEN 1 ELSE 0, lmt |-> lmt, sz |-> Len(kids),
             mi |-> Sorted(IF m THEN {ModifiedRing[j] - 1 : j \in DOMAIN ModifiedRing} ELSE {}),      \* readers ask modified() first
             cv |-> [i \in 1..Len(kids) |-> <<IF kids[i].lmt # 0 THEN kids[i].v ELSE 0, IF kids[i].lmt = now THEN 1 ELSE 0, IF kids[i].lmt # 0 THEN 1 ELSE 0>>]]
      [] shape = "TSW" ->
            [t |-> now, m |-> IF m THEN 1 ELSE 0, ok |-> IF lmt # 0 THEN 1 ELSE 0, lmt |-> lmt,
             v |-> [i \in 1..count |-> ring[((head + i - 2) % WinN) + 1]]]

(***************************************************************************)
(* behaviour                                                               *)
(***************************************************************************)
Init ==
    /\ shape \in Shapes
    /\ now = 1 /\ phase = "start" /\ nops = 0 /\ wrote = FALSE /\ inval = FALSE
    /\ slots = [i \in 1..Cap0 |-> FreeSlot] /\ free = [i \in 1..Cap0 |-> Cap0 + 1 - i] /\ pend = <<>>
    /\ added = {} /\ removed = {} /\ modified = {} /\ published = {} /\ deltaTime = 0 /\ lmt = 0 /\ ksLmt = 0
    /\ kids = IF shape = "DTSL" THEN <<>> ELSE [i \in 1..3 |-> [v |-> 0, lmt |-> 0]]
    /\ nxt = <<>> /\ tail = 0 /\ mwin = 0
    /\ ring = [i \in 1..WinN |-> 0] /\ head = 1 /\ count = 0
    /\ abs = CASE shape = "TSS" -> {} [] shape = "TSD" -> EmptyFn [] shape = "TSW" -> <<>> [] shape = "DTSL" -> <<>>
               [] OTHER -> [i \in 1..(IF shape = "TSL" THEN 3 ELSE 2) |-> [ok |-> FALSE, v |-> 0]]
    /\ absPre = abs /\ absW = {} /\ lastW = 0
    /\ script = <<>> /\ obs = <<>>

WriterRuns == /\ phase = "start"
              /\ phase' = "writing" /\ nops' = 0 /\ wrote' = FALSE /\ inval' = FALSE
              /\ absPre' = abs /\ absW' = {}
              /\ script' = Append(script, [t |-> now, ops |-> <<>>])
              /\ UNCHANGED <<shape, now, impl, abs, lastW, obs>>

WriterSkips == /\ phase = "start"
               /\ phase' = "observe" /\ wrote' = FALSE /\ nops' = 0 /\ inval' = FALSE
               /\ absPre' = abs /\ absW' = {}
               /\ UNCHANGED <<shape, now, impl, abs, lastW, script, obs>>

Op == /\ phase = "writing"
      /\ nops < (IF shape = "TSW" THEN 1 ELSE MaxOps)
      /\ \E o \in OpSet :
            /\ Do(o)
            /\ script' = [script EXCEPT ![Len(script)].ops = Append(@, o)]
            /\ IF o.op = "inv"
               THEN /\ wrote' = (IF lmt = 0 THEN wrote ELSE FALSE) /\ lastW' = (IF lmt = 0 THEN lastW ELSE 0)
                    /\ inval' = (inval \/ lmt # 0)
               ELSE /\ wrote' = TRUE /\ lastW' = now /\ inval' = inval
      /\ nops' = nops + 1
      /\ UNCHANGED <<shape, now, phase, absPre, obs>>

EndWrite == /\ phase = "writing"
            /\ phase' = "observe"
            /\ UNCHANGED <<shape, now, nops, wrote, inval, impl, abs, absPre, absW, lastW, script, obs>>

Observe == /\ phase = "observe"
           /\ obs' = Append(obs, Obs)
           /\ IF now = MaxT
              THEN /\ phase' = "done" /\ now' = now
                   /\ (Emit => PrintT(<<"COLL", ToJson([shape |-> shape, end |-> MaxT, late |-> 2, script |-> script, obs |-> obs'])>>))
              ELSE /\ phase' = "start" /\ now' = now + 1
           /\ UNCHANGED <<shape, nops, wrote, inval, impl, abs, absPre, absW, lastW, script>>

Next == WriterRuns \/ WriterSkips \/ Op \/ EndWrite \/ Observe
Spec == Init /\ [][Next]_vars

(***************************************************************************)
(* Level A as invariants over the observation at the end of each cycle     *)
(***************************************************************************)
AtObs == phase = "observe"

\* C04: modified exactly in the cycles with a write, lmt the latest such cycle, valid from the first write
FlagsTruthful == AtObs => /\ (Obs.m = 1) = wrote
                          /\ Obs.lmt = lastW
                          /\ (Obs.ok = 1) = (lastW # 0)

\* the store agrees with the abstract value (BitsetsMatchStore, value side)
ValueMatches == AtObs =>
    CASE shape = "TSS" -> ToSet(Obs.v) = abs
      [] shape = "TSD" -> /\ ToSet(Obs.ks) = DOMAIN abs
                          /\ \A i \in DOMAIN Obs.cv : Obs.cv[i][2] = abs[Obs.cv[i][1]]
      [] Fixed         -> \A i \in 1..NKids : (Obs.cv[i][3] = 1) = abs[i].ok /\ (abs[i].ok => Obs.cv[i][1] = abs[i].v)
      [] shape = "TSW" -> Obs.v = LastN(abs, WinN)
      \* the list has grown to the largest index written; an element never written has no value
      [] Dyn           -> /\ Obs.sz = Len(abs) /\ Len(Obs.cv) = Len(abs)
                          /\ \A i \in 1..Len(abs) : (Obs.cv[i][3] = 1) = abs[i].ok /\ (abs[i].ok => Obs.cv[i][1] = abs[i].v)

\* C05: added / removed disjoint, added present, removed absent and previously present, cancelled mutations leave no trace
DeltaCoherent == (AtObs /\ Keyed) =>
    LET a == ToSet(Obs.a)  r == ToSet(Obs.r)
        prev == IF shape = "TSS" THEN absPre ELSE DOMAIN absPre
        cur == IF shape = "TSS" THEN abs ELSE DOMAIN abs
    IN  /\ a \cap r = {} /\ a \subseteq cur /\ r \cap cur = {} /\ r \subseteq prev /\ a \cap prev = {}
        /\ (prev \ r) \cup a = cur

\* C05: the value equals the previous value with the delta applied (dictionary: removed keys dropped, modified keys take the child value)
ValueIsPrevPlusDelta == (AtObs /\ shape = "TSD") =>
    LET r == ToSet(Obs.r)  mk == ToSet(Obs.mk)
        child == [i \in DOMAIN Obs.cv |-> Obs.cv[i]]
        val(k) == (CHOOSE i \in DOMAIN Obs.cv : Obs.cv[i][1] = k)
        applied == [k \in (DOMAIN absPre \ r) \cup mk |-> IF k \in mk THEN Obs.cv[val(k)][2] ELSE absPre[k]]
    IN  /\ mk \subseteq DOMAIN abs
        /\ applied = abs
        /\ mk = absW                       \* every key written in the cycle (and still present) is reported modified

\* C04: a parent is modified whenever a child is, a fixed-shape parent only then; modified items agree with the child flags
ParentRule == AtObs =>
    CASE Fixed -> /\ (Obs.m = 1) = (\E i \in 1..NKids : Obs.cv[i][2] = 1)
                  /\ ToSet(Obs.mi) = {i - 1 : i \in absW}
      [] shape = "TSD" -> (\E i \in DOMAIN Obs.cv : Obs.cv[i][3] = 1) => Obs.m = 1
      \* dynamic list: the modified children are exactly the ones written in the cycle, however many
      [] Dyn -> /\ (Obs.m = 1) = (\E i \in DOMAIN Obs.cv : Obs.cv[i][2] = 1)
                /\ {Obs.mi[j] : j \in DOMAIN Obs.mi} = {i - 1 : i \in absW}
                /\ {i - 1 : i \in {j \in DOMAIN Obs.cv : Obs.cv[j][2] = 1}} = {i - 1 : i \in absW}
      [] OTHER -> TRUE

\* C04: no delta is readable in a cycle without a write
NoStaleDelta == (AtObs /\ ~wrote) =>
    CASE shape = "TSS" -> Obs.a = <<>> /\ Obs.r = <<>>
      [] shape = "TSD" -> Obs.a = <<>> /\ Obs.r = <<>> /\ Obs.mk = <<>>
      [] Fixed -> Obs.mi = <<>>
      [] Dyn -> Obs.mi = <<>>
      [] OTHER -> TRUE

\* level B coherence: bitsets only name constructed slots, a slot is never both added and removed, pending slots are not live
BitsetsMatchStore == Keyed =>
    /\ added \cap removed = {}
    /\ \A s \in added : Live(s)
    /\ \A s \in removed : slots[s].st = "pend"
    /\ ToSet(pend) = {s \in SlotIds : slots[s].st = "pend"}
    /\ ToSet(free) = {s \in SlotIds : slots[s].st = "free"}
    /\ Cardinality({slots[s].key : s \in {x \in SlotIds : Occupied(x)}}) = Cardinality({x \in SlotIds : Occupied(x)})

\* C05 window: exactly the most recent N pushes in order (validity by minimum count is a property of all_valid: count >= WinMin)
WindowIsLastN == (AtObs /\ shape = "TSW") => /\ Obs.v = LastN(abs, WinN) /\ count = (IF Len(abs) > WinN THEN WinN ELSE Len(abs))
=============================================================================
