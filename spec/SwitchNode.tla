----------------------------- MODULE SwitchNode -----------------------------
(***************************************************************************)
(* Level B model of switch_ (src/hgraph/runtime/switch_node.cpp, with the  *)
(* sampled boundary binding of include/hgraph/runtime/nested_bindings.h    *)
(* and the push / pull schedule delegation of graph.cpp) checked against   *)
(* the level A reading of C12:                                             *)
(*                                                                         *)
(*   the output follows only the branch selected by the current key; a     *)
(*   newly selected branch starts fresh, sees the held inputs at once and  *)
(*   then produces what it would produce alone; the previous branch is     *)
(*   stopped, never evaluated again and has no influence; selecting an     *)
(*   earlier key again makes a new instance; an unmatched key without a    *)
(*   default branch is an error.                                           *)
(*                                                                         *)
(* One root cycle is one action: what happens inside the switch node is    *)
(* sequential code.  `Cycle` follows switch_evaluate line by line:         *)
(*                                                                         *)
(*   decide      key valid /\ (key modified \/ no active slot);            *)
(*               same_key by VALUE equality with active_key;               *)
(*               rebuild iff no active slot \/ reload_on_ticked \/         *)
(*               ~same_key; select_branch = keyed branch, else default,    *)
(*               else throw "no branch is registered for key"              *)
(*   activate    next_slot = the other of the two fixed slots; the graph   *)
(*               retired on the PREVIOUS switch is destructed there (a     *)
(*               destructor stops a graph that is still started); the new  *)
(*               graph is constructed in place (fresh state) and its       *)
(*               inputs are bound SAMPLED; then the old branch is stopped  *)
(*               (switch_teardown: stop, previous_slot = active_slot),     *)
(*               then active_slot / active_key / active_spec are set, the  *)
(*               new graph is started and the consumers of valid sampled   *)
(*               inputs are scheduled for now                              *)
(*   evaluate    the active graph, every turn of the switch node (this is  *)
(*               also what re-arms the node: the child pulls its cached    *)
(*               next time into the parent's schedule entry afterwards)    *)
(*   forward     the branch's output is the node's output                  *)
(*                                                                         *)
(* The switch node's entry `pslot` in its graph's schedule table is ONE    *)
(* cell (schedule_node_impl: overwritten when stale or when the new time   *)
(* is earlier).  A notification (key tick, held input tick) overwrites a   *)
(* later pending wake-up of the branch; only the pull after the branch's   *)
(* evaluation restores it.  A wake-up the retired branch had pending       *)
(* therefore simply evaporates: the key tick that retires the branch       *)
(* overwrote the cell and only the new branch's cached next time is pulled *)
(* (confirmed on the real code: no cycle happens at that time).            *)
(*                                                                         *)
(* A branch is a small machine with private state, so that "fresh",        *)
(* "resumed", "still evaluated" and "lost wake-up" are all observable:     *)
(*   acc     running sum of the held input's ticks; emits the sum          *)
(*   dly(d)  remembers the last tick, asks for a wake-up d steps later     *)
(*           (a new tick replaces the pending one) and emits then          *)
(* `ghost` is the level A "run alone" copy: restarted fresh at every       *)
(* selection (key tick with a changed VALUE, or any key tick with reload), *)
(* fed the held input sampled at the selection and live afterwards.        *)
(*                                                                         *)
(* Fault = "none" is the code.  Named faults (each must be rejected):      *)
(*   byidentity    same_key decided by `spec == active_spec`  (C12-A / F)  *)
(*   samedef       activate skipped when the selected definition is the    *)
(*                 active one (also under reload)                          *)
(*   nosample      bind_branch_inputs(...) without `sampled`  (C12-B)      *)
(*   nodefaultslot slot layout from the keyed branches only   (C12-D)      *)
(*   earlyreturn   `if (same_key && !reload) return true;`    (C12-E)      *)
(*   retirefirst   active_slot retired before the stop: active_graph() is  *)
(*                 null, the outgoing branch is never stopped              *)
(*   startfirst    new graph started before the old one is torn down       *)
(*   resume        the graph in the reusable slot is restarted when it has *)
(*                 the wanted definition instead of being rebuilt          *)
(*   evalslots     every constructed slot is evaluated, not the active one *)
(*   ignoreunmatched  `if (spec == nullptr) return true;`                  *)
(*                                                                         *)
(* Not modelled: the forwarding-output variant (output bound before the    *)
(* old branch stops, no output reset), the REF-shaped output, pause /      *)
(* resume of the active child, exceptions thrown by a branch, what happens *)
(* after the unmatched-key error (the run ends: `failed` is terminal).     *)
(* NewBranchStartsFresh includes "in storage of its own": a branch larger  *)
(* than the slot (nodefaultslot) overruns into the neighbouring slot or    *)
(* the node's own header - undefined behaviour, recorded as `overrun`.     *)
(***************************************************************************)
EXTENDS Integers, Sequences, FiniteSets, TLC

CONSTANTS MKeys,             \* key values that have a branch of their own
          UKeys,             \* key values that have none (served by the default branch when there is one)
          Vals,              \* values of the held input
          MaxT,              \* horizon
          DefaultChoices,    \* subset of BOOLEAN: with / without a default branch (chosen in Init)
          ReloadChoices,     \* subset of BOOLEAN: reload_on_ticked
          Fault,
          DefOfKey(_),       \* matched key -> branch definition (> 0)
          DefaultDef,        \* definition of the default branch
          KindOf(_),         \* definition -> "acc" | "dly"
          DelayOf(_),        \* definition -> d (dly)
          SizeOf(_)          \* definition -> size of the compiled branch graph (nested_storage_layout)

Inf    == MaxT + 10
NoSlot == 2
NoOut  == 0 - 1
AllKeys == MKeys \cup UKeys
Slots  == {0, 1}
MaxOf(S) == CHOOSE x \in S : \A y \in S : y <= x

EmptyG   == [id |-> 0, def |-> 0, started |-> FALSE, acc |-> 0, pend |-> 0]
NoGhost  == [def |-> 0, acc |-> 0, pend |-> 0]
EmptyLog == [pre |-> 0, base |-> 0, ev |-> <<>>, sel |-> FALSE, held |-> FALSE, sawmod |-> FALSE, turn |-> FALSE]

VARIABLES now, key, inp,                       \* environment: time, the key output, the held input (0 = not valid yet)
          hasDflt, reload,                     \* the wiring (chosen once)
          graphs, active, prev, akey, adef,    \* SwitchNodeStorage
          pslot,                               \* the switch node's entry in its graph's schedule table (0 = never)
          nextid,                              \* instance ids (the driver's `g`)
          failed, overrun,
          out,                                 \* what the node's output ticked with in the last cycle (NoOut = no tick)
          ghost, gkey, gfailed, gout,          \* level A: the selected branch run alone
          dead,                                \* ids of instances whose stop has completed
          log                                  \* lifecycle events of the last cycle, in program order

vars == <<now, key, inp, hasDflt, reload, graphs, active, prev, akey, adef, pslot, nextid, failed, overrun, out,
          ghost, gkey, gfailed, gout, dead, log>>

----------------------------------------------------------------------------
\* the branch machine: b has def / acc / pend; m = the held input is seen modified; forced = the node is scheduled
\* although nothing it listens to happened (unsampled binding + schedule_sampled_input_consumers)
Step(b, T, m, v, forced) ==
    LET due == b.pend = T
    IN IF ~(m \/ due \/ forced) THEN [b |-> b, out |-> NoOut, ran |-> FALSE]
       ELSE IF KindOf(b.def) = "acc"
            THEN [b |-> [b EXCEPT !.acc = IF m THEN @ + v ELSE @], out |-> IF m THEN b.acc + v ELSE NoOut, ran |-> TRUE]
            ELSE [b |-> [b EXCEPT !.acc = IF m THEN v ELSE @,
                                  !.pend = IF m THEN T + DelayOf(b.def) ELSE IF due THEN 0 ELSE @],
                  out |-> IF due THEN b.acc ELSE NoOut, ran |-> TRUE]

Select(k) == IF k \in MKeys THEN DefOfKey(k) ELSE IF hasDflt THEN DefaultDef ELSE 0

\* switch_graph_slot_layout: the two slots are as large as the largest branch
Cap == MaxOf({SizeOf(DefOfKey(k)) : k \in MKeys}
             \cup (IF hasDflt /\ Fault # "nodefaultslot" THEN {SizeOf(DefaultDef)} ELSE {}))

\* schedule_node_impl on the parent's table while the parent's clock is T
SchedP(ps, T, when) == IF ps <= T \/ when < ps THEN when ELSE ps

Ev(e, g) == [e |-> e, i |-> g.id, a |-> g.acc, p |-> g.pend]

Init == /\ now = 0 /\ key = 0 /\ inp = 0
        /\ hasDflt \in DefaultChoices /\ reload \in ReloadChoices
        /\ graphs = [s \in Slots |-> EmptyG] /\ active = NoSlot /\ prev = NoSlot /\ akey = 0 /\ adef = 0
        /\ pslot = 0 /\ nextid = 1 /\ failed = FALSE /\ overrun = FALSE /\ out = NoOut
        /\ ghost = NoGhost /\ gkey = 0 /\ gfailed = FALSE /\ gout = NoOut
        /\ dead = {} /\ log = EmptyLog

(***************************************************************************)
(* One root cycle at time T: kt = the key's tick (0 = none), it = the held *)
(* input's tick (0 = none).                                                *)
(***************************************************************************)
Cycle(T, kt, it) ==
    LET key1  == IF kt # 0 THEN kt ELSE key
        inp1  == IF it # 0 THEN it ELSE inp
        kmod  == kt # 0
        imod  == it # 0
        \* notifications schedule the node for T before its turn: the node's own inputs (the key and the held inputs are
        \* all active on the outer node - it has a turn on a held tick even before any branch exists) and, pushed up by
        \* nested_schedule_node_impl, the inputs of the started branch
        ps0   == IF kmod \/ imod THEN T ELSE pslot
        turn  == ps0 = T
        \* ---- decide
        consider == turn /\ key1 # 0 /\ (kmod \/ active = NoSlot)
        def   == Select(key1)
        same  == IF Fault = "byidentity" THEN active # NoSlot /\ akey # 0 /\ def = adef
                 ELSE active # NoSlot /\ akey # 0 /\ key1 = akey
        early == Fault = "earlyreturn" /\ consider /\ same /\ ~reload
        want  == consider /\ ~early /\ (active = NoSlot \/ reload \/ ~same)
        err   == want /\ def = 0 /\ Fault # "ignoreunmatched"
        skip  == Fault = "samedef" /\ want /\ def # 0 /\ active # NoSlot /\ def = adef
        act   == want /\ def # 0 /\ ~skip
        \* ---- activate_branch
        ns     == IF active # NoSlot THEN 1 - active ELSE 0
        victim == graphs[ns]
        resume == Fault = "resume" /\ victim.id # 0 /\ victim.def = def
        evDestroy == IF ~resume /\ victim.id # 0 /\ victim.started THEN <<Ev("stop", victim)>> ELSE <<>>
        newg   == IF resume THEN [victim EXCEPT !.started = TRUE]
                  ELSE [id |-> nextid, def |-> def, started |-> TRUE, acc |-> 0, pend |-> 0]
        over   == SizeOf(def) > Cap
        stopOld == active # NoSlot /\ Fault # "retirefirst"
        evStop  == IF stopOld THEN <<Ev("stop", graphs[active])>> ELSE <<>>
        evStart == <<Ev("start", newg)>>
        evAct   == evDestroy \o (IF Fault = "startfirst" THEN evStart \o evStop ELSE evStop \o evStart)
        graphs1 == IF act THEN [s \in Slots |-> IF s = ns THEN newg
                                               ELSE IF stopOld THEN [graphs[s] EXCEPT !.started = FALSE] ELSE graphs[s]]
                   ELSE graphs
        active1 == IF act THEN ns ELSE active
        prev1   == IF act THEN active ELSE prev
        akey1   == IF act \/ skip THEN key1 ELSE akey
        adef1   == IF act THEN def ELSE adef
        \* ---- evaluate the active graph (rebinding each cycle is a no-op)
        evalIt  == turn /\ ~err /\ ~early /\ active1 # NoSlot
        g       == graphs1[active1]
        m       == imod \/ (act /\ Fault # "nosample" /\ inp1 # 0)
        r       == Step(g, T, m, inp1, act /\ inp1 # 0)
        \* fault evalslots: the other constructed graph gets a turn as well, after the active one
        oslot   == 1 - active1
        evalO   == evalIt /\ Fault = "evalslots" /\ graphs1[oslot].id # 0
        ro      == Step(graphs1[oslot], T, imod /\ graphs1[oslot].started, inp1, FALSE)
        graphs2 == [s \in Slots |-> IF evalIt /\ s = active1 THEN r.b
                                    ELSE IF evalO /\ s = oslot THEN ro.b ELSE graphs1[s]]
        evEval  == (IF evalIt /\ r.ran THEN <<Ev("eval", g)>> ELSE <<>>)
                   \o (IF evalO /\ ro.ran THEN <<Ev("eval", graphs1[oslot])>> ELSE <<>>)
        \* ---- the pull: the evaluated child propagates its cached next time to the parent's entry
        cnext   == IF evalIt /\ r.b.pend > T THEN r.b.pend ELSE Inf
        ps1     == IF cnext < Inf THEN SchedP(ps0, T, cnext) ELSE ps0
        \* ---- forward
        out1    == IF evalO /\ ro.out # NoOut THEN ro.out ELSE IF evalIt THEN r.out ELSE NoOut
        \* ---- level A: the selection and the selected branch alone
        gsel    == kmod /\ (gkey = 0 \/ reload \/ key1 # gkey)
        gerr    == gsel /\ Select(key1) = 0
        ghost1  == IF gsel /\ ~gerr THEN [def |-> Select(key1), acc |-> 0, pend |-> 0] ELSE ghost
        gr      == IF ghost1.def # 0 /\ ~gerr
                   THEN Step(ghost1, T, imod \/ (gsel /\ inp1 # 0), inp1, FALSE)
                   ELSE [b |-> ghost1, out |-> NoOut, ran |-> FALSE]
        evAll   == (IF act THEN evAct ELSE <<>>) \o evEval
        stopped == {evAll[j].i : j \in {x \in DOMAIN evAll : evAll[x].e = "stop"}}
    IN /\ now' = T /\ key' = key1 /\ inp' = inp1
       /\ UNCHANGED <<hasDflt, reload>>
       /\ graphs' = graphs2 /\ active' = active1 /\ prev' = prev1 /\ akey' = akey1 /\ adef' = adef1
       /\ pslot' = ps1
       /\ nextid' = IF act /\ ~resume THEN nextid + 1 ELSE nextid
       /\ failed' = err
       /\ overrun' = (overrun \/ (act /\ over))
       /\ out' = out1
       /\ ghost' = gr.b /\ gkey' = (IF gsel THEN key1 ELSE gkey) /\ gfailed' = gerr /\ gout' = gr.out
       /\ dead' = dead \cup stopped
       /\ log' = [pre |-> IF active # NoSlot THEN graphs[active].id ELSE 0, base |-> nextid, ev |-> evAll,
                  sel |-> gsel /\ ~gerr, held |-> inp1 # 0, sawmod |-> evalIt /\ r.ran /\ m, turn |-> turn]

\* every time step is visited (a step in which nothing ticks and nothing is due leaves the node alone), so the engine
\* never skips a due entry of the table
Next == /\ ~failed /\ ~gfailed /\ now < MaxT
        /\ \E kt \in {0} \cup AllKeys, it \in {0} \cup Vals : Cycle(now + 1, kt, it)

Spec == Init /\ [][Next]_vars

----------------------------------------------------------------------------
(* Level A *)
Idx(e) == {j \in DOMAIN log.ev : log.ev[j].e = e}

\* the output ticks exactly as the selected branch alone would (value and cycle)
OutputFollowsSelectedBranchAlone == (~failed /\ ~gfailed) => out = gout

\* an instance that starts has the state its construction gave it, in storage of its own
NewBranchStartsFresh == /\ \A j \in Idx("start") : log.ev[j].a = 0 /\ log.ev[j].p = 0
                        /\ ~overrun

\* in the cycle of a selection the branch's user code sees the (valid) held input as modified
SamplesHeldInputsAtSelection == (log.sel /\ log.held /\ ~failed) => log.sawmod

\* no evaluation of an instance whose stop completed earlier, or earlier in this cycle
RetiredBranchNeverEvaluated ==
    \A j \in Idx("eval") : /\ log.ev[j].i \notin (dead \ {log.ev[x].i : x \in Idx("stop")})
                           /\ ~\E x \in Idx("stop") : x < j /\ log.ev[x].i = log.ev[j].i

\* replaying the cycle's events: when an instance starts, no other instance is live
RECURSIVE LiveAfter(_, _)
LiveAfter(k, live) == IF k = 0 THEN live
                      ELSE LET l0 == LiveAfter(k - 1, live) e == log.ev[k]
                           IN IF e.e = "start" THEN l0 \cup {e.i} ELSE IF e.e = "stop" THEN l0 \ {e.i} ELSE l0
RetiredBranchStoppedBeforeNewStarts ==
    \A j \in Idx("start") : LiveAfter(j - 1, IF log.pre = 0 THEN {} ELSE {log.pre}) = {}

ExactlyOneLiveBranch ==
    ~failed => /\ {s \in Slots : graphs[s].started} = (IF active = NoSlot THEN {} ELSE {active})
               /\ (prev # NoSlot => prev # active)

\* every selection makes an instance with an id never used before; nothing else makes one
ReselectCreatesNewInstance ==
    /\ \A j \in Idx("start") : log.ev[j].i >= log.base
    /\ ~failed => (log.sel <=> Idx("start") # {})

UnmatchedWithoutDefaultIsError == failed <=> gfailed

\* a live branch's pending wake-up is in the future and the node's schedule entry is due no later
NoLostBranchWakeup ==
    (~failed /\ active # NoSlot /\ graphs[active].pend # 0) =>
        /\ graphs[active].pend > now
        /\ now < pslot /\ pslot <= graphs[active].pend

\* level B bookkeeping that the code asserts ("previous graph does not occupy the reusable slot")
SlotDiscipline == /\ active # NoSlot => graphs[active].id # 0 /\ graphs[active].def = adef
                  /\ prev # NoSlot => graphs[prev].id # 0 /\ ~graphs[prev].started
=============================================================================
