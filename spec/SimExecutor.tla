---------------------------- MODULE SimExecutor ----------------------------
(***************************************************************************)
(* Level B (implementation-shaped) model of hgraph's SIMULATION run loop   *)
(* together with the ROOT graph's schedule table, checked against the      *)
(* sentences of C02 (level A, stated below as invariants over the truth    *)
(* variables ev / direct / wd / now / start / end only).                   *)
(*                                                                         *)
(* Code modelled (one operator / action per critical section):             *)
(*   executor.cpp  run_storage (loop head, the two end-time tests,         *)
(*                 stop_requested, "nothing scheduled => the run is over"),*)
(*                 advance_simulation                      -> Loop         *)
(*   graph.cpp     schedule_node_impl                      -> SchedLocal   *)
(*   graph.cpp     start_impl (node start hooks in index order, then the   *)
(*                 cache is seeded from the slots >= start) -> StartNode,  *)
(*                                                            Seed         *)
(*   graph.cpp     evaluate_impl (resuming test, per-cycle reset of the    *)
(*                 cache, forward scan with the evaluation cursor, a node  *)
(*                 runs iff its slot equals the cycle time, slots > now    *)
(*                 are folded into the cache as the cursor passes them,    *)
(*                 cursor reset at the end) -> BeginCycle, SkipNode,       *)
(*                                             EvalNode, EndCycle          *)
(*   node.cpp      evaluate_impl tail (scheduled_now sampled BEFORE user   *)
(*                 code; consume the fired event and re-arm, or just       *)
(*                 re-arm) and schedule_node_from_storage (an input tick   *)
(*                 schedules the owner at max(tick time, graph time))      *)
(*   node_scheduler.h schedule (only a new earliest time reaches the       *)
(*                 graph) / advance -> NSched, the tail of EvalNode        *)
(*   feedback_node.cpp evaluate_feedback_sink (source scheduled at now+1,  *)
(*                 directly in the table) and the start-time schedule of a *)
(*                 source with an initial value; node.cpp schedule_on_start*)
(*                                                                         *)
(* NodeSched.tla is the detailed model of the per-node scheduler and       *)
(* NestedSched.tla of the child <-> parent delegation; here nodes are      *)
(* abstract requesters:                                                    *)
(*   ev[n]      times pending in n's own NodeScheduler            (truth)  *)
(*   direct[n]  times requested for n directly in the table: a feedback    *)
(*              delivery, schedule_on_start                       (truth)  *)
(*   wd[n]      times n asked for and withdrew (DESIGN.md 6.1)             *)
(*   slot[n]    n's entry in the schedule table (0 = never; entries <= now *)
(*              are stale: lazy clean-up)                                  *)
(*   nxt        the cached next_scheduled_time                             *)
(* A node, when evaluated, may request more future times, withdraw its     *)
(* earliest pending one, and tick its output: a tick schedules LATER-      *)
(* ranked consumers for now and, through a feedback-like edge, a           *)
(* source-like node (any rank) for now+1.                                  *)
(*                                                                         *)
(* Kinds = {"free"}: every node may do all of this in every evaluation     *)
(* (the exhaustive configurations).  The other kinds are the behaviours of *)
(* the engine driver's vocabulary - a subset of what "free" nodes do - so  *)
(* that each finished behaviour can be replayed on the real engine         *)
(* (glue/sim_model.py): srcall / srcchain (scripted source, all requests   *)
(* at start / one at a time), timer, fbsrc (feedback source), sched        *)
(* (scripted scheduler user), echo, delay (tagged, replaces its pending    *)
(* time), pass.                                                            *)
(*                                                                         *)
(* Fault = "none" is the code as it is.  Every other value is one          *)
(* realistic slip; TLC must reject each (cfg/SimExecutor.<fault>*.cfg):    *)
(*   nolower      schedule_node keeps a later slot: `when < scheduled` gone *)
(*   overwrite    schedule_node overwrites the cache: `when < next` gone   *)
(*   cachege      schedule_node updates the cache with `when >= current`   *)
(*   skipplus1    the cursor's fold skips a slot exactly one step ahead    *)
(*   seedgt       the cache is seeded after start from slots `> start`     *)
(*   nocachereset the per-cycle reset of the cache is dropped              *)
(*   noreset      the cursor is not reset when a cycle completes           *)
(*   norearm      advance() consumes the fired event but does not re-arm   *)
(*   norearm2     no re-arm after an evaluation caused by an input tick    *)
(*   fbnow        the feedback sink schedules its source for now           *)
(*   maxadvance   advance_simulation takes max(next, end)                  *)
(*   endinclusive both end-time tests use `>`: a cycle AT the end time     *)
(*   pushinvert   advance_simulation's push test inverted: now+1 always    *)
(***************************************************************************)
EXTENDS Integers, Sequences, FiniteSets, TLC, Json

CONSTANTS N,         \* nodes 1..N, index = rank
          MaxT,      \* horizon: freely chosen requests go up to MaxT + 1
          Starts, Ends,
          Deltas,    \* offsets of requests made while evaluating
          MaxPend,   \* a freely choosing node keeps at most this many times pending at once
          PerEval,   \* ... and asks for at most this many (1 or 2) in one evaluation
          Budget,    \* requests that all free nodes together may make in one run
          Kinds,     \* kinds a node may take
          Withdraw,  \* free nodes may withdraw (un_schedule()) their earliest pending time
          Stops,     \* a node may call request_stop
          Fault,
          Emit       \* print finished behaviours

Nodes == 1..N
Inf == MaxT + 20
TMax == MaxT + 1
Min(S) == CHOOSE x \in S : \A y \in S : x <= y
Max(S) == CHOOSE x \in S : \A y \in S : x >= y
MinOr(S, d) == IF S = {} THEN d ELSE Min(S)
UpTo(S, c) == {{}} \cup {{x} : x \in S} \cup (IF c >= 2 THEN {{x, y} : x \in S, y \in S} ELSE {})
Sorted(S) == LET RECURSIVE F(_)
                 F(R) == IF R = {} THEN <<>> ELSE <<Min(R)>> \o F(R \ {Min(R)})
             IN F(S)

VARIABLES start, end, prog,            \* the scenario: chosen once
          phase,                       \* "config" | "param" | "bind" | "start" | "idle" | "cycle" | "tail" (of a cycle) | "done"
          sn,                          \* node being configured / started
          now,                         \* evaluation_time (of the executor and of the root graph)
          first,                       \* no cycle has run yet
          slot, nxt, cursor, err,      \* the schedule table, the cache, the evaluation cursor, "schedule in the past" thrown
          ev, direct, wd,              \* truth
          must,                        \* nodes notified by a producer in the current cycle that the cursor has not reached yet
          fbq,                         \* feedback sources whose sink is due in the current cycle
          ran,                         \* nodes evaluated at the current engine time
          mono, asked, twice, lostn,   \* verdict flags: see the invariants
          stopReq,
          budget, tcount,              \* requests the free nodes may still make; remaining ticks of a timer
          script, cycles               \* history (not part of the VIEW)

vars == <<start, end, prog, phase, sn, now, first, slot, nxt, cursor, err, ev, direct, wd, must, fbq, ran, mono, asked, twice,
          lostn, stopReq, budget, tcount, script, cycles>>
\* Schedule entries that are not in the future are stale (lazy clean-up): nothing ever reads more of them than "not in the
\* future" - schedule_node_impl tests `scheduled <= current`, the scan `scheduled == now` for the nodes it has not passed yet
\* and `scheduled > now` for the fold.  The exhaustive configurations identify states that differ only in stale entries.
NormSlot == [n \in Nodes |->
               IF phase \in {"cycle", "tail"} THEN (IF slot[n] > now \/ (slot[n] = now /\ n >= cursor) THEN slot[n] ELSE 0)
               ELSE IF phase \in {"idle", "done"} /\ ~first THEN (IF slot[n] > now THEN slot[n] ELSE 0)
               ELSE slot[n]]
\* (ran is read only by a later cycle at the SAME engine time; TimeStrictlyIncreases excludes one in the code as it is)
NoHist == <<start, end, prog, phase, sn, now, first, NormSlot, nxt, cursor, err, ev, direct, wd, must, fbq,
            IF Fault = "none" THEN {} ELSE ran, mono, asked,
            twice, lostn, stopReq, budget, tcount>>

----------------------------------------------------------------------------
\* the node vocabulary
Sources == {"srcall", "srcchain", "timer", "fbsrc"}
HasOutput(k) == k # "sched"
Rec(k, i, d, c) == [kind |-> k, inp |-> i, fbof |-> 0, d |-> d, cnt |-> c]
FreeProg == Rec("free", 0, 0, 0)
Typed == "free" \notin Kinds

\* rank in which Wiring::finish (Kahn, FIFO) pops the producer of consumer x: sources in insertion order, then the
\* placeholder source of an input-less `sched` (written last among the sources), then consumers
NSrc(pr, upto) == Cardinality({m \in 1..upto : pr[m].kind \in Sources})
ProdRank(pr, x, nsrc) == IF pr[x].inp = 0 THEN 2 * nsrc + 1 ELSE 2 * pr[x].inp

\* the parameters of node n if it is of kind k: the producer (consumers come out of Kahn's queue in the order in which
\* their producers do), the delay / period, the number of ticks of a timer, whether a feedback starts with a value
ParamsOf(n, k) ==
    LET outs == {m \in 1..(n - 1) : HasOutput(prog[m].kind)}
        cons == {m \in 1..(n - 1) : prog[m].kind \notin Sources}
        nsrc == NSrc(prog, n - 1)
        okrank(r) == cons = {} \/ ProdRank(prog, Max(cons), nsrc) <= (IF r.inp = 0 THEN 2 * nsrc + 1 ELSE 2 * r.inp)
    IN  CASE k = "timer" -> {Rec(k, 0, d, c) : d \in Deltas, c \in 1..3}
          [] k = "fbsrc" -> {Rec(k, 0, 0, c) : c \in {0, 1}}
          [] k = "sched" -> {r \in {Rec(k, i, 0, 0) : i \in outs \cup {0}} : okrank(r)}
          [] k = "pass"  -> {r \in {Rec(k, i, 0, 0) : i \in outs} : okrank(r)}
          [] k \in {"echo", "delay"} -> {r \in {Rec(k, i, d, 0) : i \in outs, d \in Deltas} : okrank(r)}
          [] OTHER -> {Rec(k, 0, 0, 0)}
ParamChoices(n) == ParamsOf(n, prog[n].kind)

\* the kinds node n may take, given the nodes before it: sources first (that is how Wiring::finish ranks them), at most one
\* feedback, a consumer needs a producer with an output (a `sched` that is not the first node may do without)
KindChoices(n) ==
    LET outs == {m \in 1..(n - 1) : HasOutput(prog[m].kind)}
        allsrc == \A m \in 1..(n - 1) : prog[m].kind \in Sources
        nofb == \A m \in 1..(n - 1) : prog[m].kind # "fbsrc"
    IN  {k \in Kinds : \/ k \in {"srcall", "srcchain", "timer"} /\ allsrc
                       \/ k = "fbsrc" /\ allsrc /\ nofb
                       \/ k = "sched" /\ n > 1
                       \/ k \in {"pass", "echo", "delay"} /\ ParamsOf(n, k) # {}}
----------------------------------------------------------------------------
\* graph.cpp schedule_node_impl; st = [slot, nxt, err]
SchedLocal(st, n, when) ==
    IF when < now THEN [st EXCEPT !.err = TRUE]
    ELSE LET s == st.slot[n]
             takes == IF Fault = "nolower" THEN s <= now ELSE (s <= now \/ when < s)
             cache == CASE Fault = "overwrite" -> IF when > now THEN when ELSE st.nxt
                        [] Fault = "cachege"   -> IF when >= now /\ when < st.nxt THEN when ELSE st.nxt
                        [] OTHER               -> IF when > now /\ when < st.nxt THEN when ELSE st.nxt
         IN IF takes THEN [slot |-> [st.slot EXCEPT ![n] = when], nxt |-> cache, err |-> st.err] ELSE st

RECURSIVE SchedAll(_, _, _)
SchedAll(st, targets, when) ==
    IF targets = {} THEN st
    ELSE LET m == Min(targets) IN SchedAll(SchedLocal(st, m, when), targets \ {m}, when)

\* NodeScheduler::schedule; x = [ev (of node n), st]
NSched(x, n, when, started) ==
    IF (started /\ when <= now) \/ (~started /\ when < now) THEN x
    ELSE LET prev == MinOr(x.ev, Inf)
             ev2  == x.ev \cup {when}
         IN [ev |-> ev2, st |-> IF Min(ev2) < prev THEN SchedLocal(x.st, n, Min(ev2)) ELSE x.st]
\* several requests of one activation are issued latest first (each one is a new earliest time)
RECURSIVE NSchedAll(_, _, _, _)
NSchedAll(x, n, S, started) ==
    IF S = {} THEN x ELSE NSchedAll(NSched(x, n, Max(S), started), n, S \ {Max(S)}, started)

Tables == [slot |-> slot, nxt |-> nxt, err |-> err]
Commit(st) == slot' = st.slot /\ nxt' = st.nxt /\ err' = st.err

----------------------------------------------------------------------------
Init == /\ start \in Starts /\ end \in Ends /\ end > start
        /\ prog = [n \in Nodes |-> FreeProg]
        /\ phase = (IF Typed THEN "config" ELSE "start") /\ sn = 1
        /\ now = start /\ first = TRUE
        /\ slot = [n \in Nodes |-> 0] /\ nxt = Inf /\ cursor = 0 /\ err = FALSE
        /\ ev = [n \in Nodes |-> {}] /\ direct = [n \in Nodes |-> {}] /\ wd = [n \in Nodes |-> {}]
        /\ must = {} /\ fbq = {} /\ ran = {}
        /\ mono = TRUE /\ asked = TRUE /\ twice = FALSE /\ lostn = FALSE /\ stopReq = FALSE
        /\ budget = Budget /\ tcount = [n \in Nodes |-> 0]
        /\ script = [n \in Nodes |-> <<>>] /\ cycles = <<>>

\* the scenario is chosen node by node: first the kind, then its parameters (two steps, so that the simulator's uniform choice
\* among successors is a uniform choice among kinds)
Configure ==
    /\ phase = "config"
    /\ \E k \in KindChoices(sn) : prog' = [prog EXCEPT ![sn] = Rec(k, 0, 0, 0)]
    /\ phase' = "param"
    /\ UNCHANGED <<start, end, sn, now, first, slot, nxt, cursor, err, ev, direct, wd, must, fbq, ran, mono, asked, twice, lostn,
                   stopReq, budget, tcount, script, cycles>>
Parametrize ==
    /\ phase = "param"
    /\ ParamChoices(sn) # {}
    /\ \E r \in ParamChoices(sn) : /\ prog' = [prog EXCEPT ![sn] = r]
                                    /\ tcount' = [tcount EXCEPT ![sn] = IF r.kind = "timer" THEN r.cnt ELSE 0]
    /\ IF sn = N THEN phase' = "bind" /\ sn' = 1 ELSE phase' = "config" /\ sn' = sn + 1
    /\ UNCHANGED <<start, end, now, first, slot, nxt, cursor, err, ev, direct, wd, must, fbq, ran, mono, asked, twice, lostn,
                   stopReq, budget, script, cycles>>

\* a feedback is bound to some node with an output (possibly its own source)
Bind ==
    /\ phase = "bind"
    /\ LET fbs == {n \in Nodes : prog[n].kind = "fbsrc"}
           outs == {m \in Nodes : HasOutput(prog[m].kind)}
       IN IF fbs = {} THEN UNCHANGED prog
          ELSE \E m \in outs : prog' = [prog EXCEPT ![Min(fbs)].fbof = m]
    /\ phase' = "start" /\ sn' = 1
    /\ UNCHANGED <<start, end, now, first, slot, nxt, cursor, err, ev, direct, wd, must, fbq, ran, mono, asked, twice, lostn,
                   stopReq, budget, tcount, script, cycles>>

\* what a node may ask for in its start hook: [req (through its scheduler, the start time included), dir (directly)]
StartChoices(n) ==
    LET k == prog[n].kind
        T0 == {start} \cup {start + d : d \in Deltas}
        upto(S, c) == {R \in SUBSET S : Cardinality(R) <= c}
    IN  CASE k = "free"     -> {[req |-> R, dir |-> D] : R \in upto(T0, MaxPend), D \in {{}, {start}}}
          [] k = "srcall"   -> {[req |-> R, dir |-> {}] : R \in upto(T0, 3) \ {{}}}
          [] k = "srcchain" -> {[req |-> {t}, dir |-> {}] : t \in T0}
          [] k = "timer"    -> {[req |-> {}, dir |-> {start}]}
          [] k = "fbsrc"    -> {[req |-> {}, dir |-> IF prog[n].cnt = 1 THEN {start} ELSE {}]}
          [] k = "sched"    -> {[req |-> R, dir |-> {}] : R \in upto(T0, 2)}
          [] OTHER          -> {[req |-> {}, dir |-> {}]}

\* graph.cpp start_impl, the node loop: each start hook in index order (the graph's time is the start time); the user's
\* hook first, then the declarative schedule_on_start
StartNode ==
    /\ phase = "start" /\ sn <= N
    /\ \E c \in StartChoices(sn) :
         /\ LET cost == IF prog[sn].kind = "free" THEN Cardinality(c.req) ELSE 0
            IN cost <= budget /\ budget' = budget - cost
         /\ LET x  == NSchedAll([ev |-> {}, st |-> Tables], sn, c.req, FALSE)
                s2 == SchedAll(x.st, IF c.dir = {} THEN {} ELSE {sn}, start)
            IN /\ ev' = [ev EXCEPT ![sn] = x.ev]
               /\ direct' = [direct EXCEPT ![sn] = c.dir]
               /\ Commit(s2)
         /\ script' = [script EXCEPT ![sn] = <<[t |-> start, at |-> Sorted(c.req)]>>]
    /\ sn' = sn + 1
    /\ UNCHANGED <<start, end, prog, phase, now, first, cursor, wd, must, fbq, ran, mono, asked, twice, lostn, stopReq, tcount,
                   cycles>>

\* start_impl, after the hooks: the cache is rebuilt from the slots that are not in the past
Seed ==
    /\ phase = "start" /\ sn = N + 1
    /\ nxt' = MinOr({slot[n] : n \in {m \in Nodes : IF Fault = "seedgt" THEN slot[m] > start ELSE slot[m] >= start}}, Inf)
    /\ phase' = "idle"
    /\ UNCHANGED <<start, end, prog, sn, now, first, slot, cursor, err, ev, direct, wd, must, fbq, ran, mono, asked, twice, lostn,
                   stopReq, budget, tcount, script, cycles>>

----------------------------------------------------------------------------
AllPending == UNION {ev[n] \cup direct[n] : n \in Nodes}
AllWithdrawn == UNION {wd[n] : n \in Nodes}

Done == /\ phase' = "done"
        /\ (Emit => PrintT(<<"SIMB", ToJson([start |-> start, end |-> end, prog |-> prog, script |-> script, cycles |-> cycles,
                                               stopped |-> stopReq])>>))
        /\ UNCHANGED <<start, end, prog, sn, now, first, slot, nxt, cursor, err, ev, direct, wd, must, fbq, ran, mono, asked, twice,
                       lostn, stopReq, budget, tcount, script, cycles>>

\* graph.cpp evaluate_impl, before the node loop
BeginCycle(T) ==
    LET resuming == cursor # 0 IN
    /\ phase' = "cycle" /\ now' = T /\ first' = FALSE
    /\ nxt' = IF resuming \/ Fault = "nocachereset" THEN nxt ELSE Inf
    /\ cursor' = IF resuming THEN cursor ELSE 1
    /\ must' = {} /\ fbq' = {}
    /\ ran' = IF ~first /\ T = now THEN ran ELSE {}
    /\ mono' = (mono /\ (first \/ T > now))
    /\ asked' = (asked /\ T \in AllPending \cup AllWithdrawn)
    /\ cycles' = Append(cycles, [t |-> T, ev |-> <<>>, next |-> 0, slots |-> <<>>])
    /\ UNCHANGED <<start, end, prog, sn, slot, err, ev, direct, wd, twice, lostn, stopReq, budget, tcount, script>>

\* executor.cpp run_storage: one turn of the loop up to graph.evaluate (no push source: push_update_pending is false)
Loop ==
    /\ phase = "idle"
    /\ IF stopReq \/ err THEN Done
       ELSE LET incl == Fault = "endinclusive"
                over(t) == IF incl THEN t > end ELSE t >= end
            IN IF nxt = Inf \/ over(nxt) THEN Done           \* idle_run_continues: nothing can become due any more
               ELSE LET pend == IF Fault = "pushinvert" THEN now + 1 ELSE nxt
                        T == IF Fault = "maxadvance" THEN (IF pend > end THEN pend ELSE end)
                                                     ELSE (IF pend < end THEN pend ELSE end)
                    IN IF over(T) THEN Done ELSE BeginCycle(T)

\* evaluate_impl, node loop: a node that is not due; a future slot is folded into the cache as the cursor passes it
SkipNode ==
    /\ phase = "cycle" /\ cursor \in Nodes /\ slot[cursor] # now
    /\ LET s == slot[cursor]
           far == IF Fault = "skipplus1" THEN s > now + 1 ELSE s > now
       IN nxt' = IF far /\ s < nxt THEN s ELSE nxt
    /\ lostn' = (lostn \/ cursor \in must)
    /\ must' = must \ {cursor}
    /\ cursor' = cursor + 1
    /\ UNCHANGED <<start, end, prog, phase, sn, now, first, slot, err, ev, direct, wd, fbq, ran, mono, asked, twice, stopReq,
                   budget, tcount, script, cycles>>

\* what user code may do in an evaluation at T: [req, wdr (a tag replacement: the old event is erased before the new one
\* is inserted), wda (un_schedule() of the earliest pending time, after the requests), same (ticked consumers),
\* next (feedback sources the ticked output is bound to)]
EvalChoices(n) ==
    LET p == prog[n]  k == p.kind  T == now
        inT == n \in must
        due == T \in ev[n]
        fut == {T + d : d \in Deltas} \cap 1..TMax
        room == MaxPend - Cardinality({t \in ev[n] : t > T})
        cons == {m \in Nodes : prog[m].inp = n}
        fbt == {m \in Nodes : prog[m].fbof = n}
        out(r, w, tk) == [req |-> r, wdr |-> w, wda |-> FALSE, same |-> IF tk THEN cons ELSE {}, next |-> IF tk THEN fbt ELSE {}]
    IN  CASE k = "free" ->
                {[req |-> r, wdr |-> {}, wda |-> w, same |-> s, next |-> x] :
                    r \in {q \in UpTo(fut, PerEval) : Cardinality(q \ ev[n]) <= room},
                    w \in (IF Withdraw THEN BOOLEAN ELSE {FALSE}),
                    s \in UpTo({m \in Nodes : m > n}, 2),
                    x \in {{}}}        \* (the feedback deliveries of free nodes are chosen in FeedbackSinks)
          [] k \in {"srcall", "pass", "fbsrc"} -> {out({}, {}, TRUE)}
          [] k = "srcchain" -> {out(r, {}, TRUE) : r \in UpTo(fut, 1)}
          [] k = "timer" -> {out(IF tcount[n] > 1 THEN {T + p.d} ELSE {}, {}, TRUE)}
          [] k = "sched" -> {out(r, {}, FALSE) : r \in {q \in UpTo(fut, 2) : Cardinality(q \ ev[n]) <= room}}
          [] k = "echo"  -> {out(IF inT THEN {T + p.d} ELSE {}, {}, due)}
          [] k = "delay" -> {out(IF inT THEN {T + p.d} ELSE {}, IF inT THEN ev[n] ELSE {}, due)}

\* node loop: the node at the cursor is due.  node.cpp evaluate_impl: user code, then the scheduler step
EvalNode ==
    /\ phase = "cycle" /\ cursor \in Nodes /\ slot[cursor] = now
    /\ LET n == cursor  T == now IN
       \E c \in EvalChoices(n) :
         /\ LET cost == IF prog[n].kind = "free" THEN Cardinality(c.req) ELSE 0
            IN cost <= budget /\ budget' = budget - cost
         /\ LET schedNow == ev[n] # {} /\ Min(ev[n]) = T                     \* sampled before user code runs
                \* user code: a tag replacement erases the old event first; neither it nor un_schedule() rewrites the slot
                x0 == NSchedAll([ev |-> ev[n] \ c.wdr, st |-> Tables], n, c.req, TRUE)
                \* un_schedule() erases the earliest event - the one that is firing, if one is
                gone == IF c.wda /\ x0.ev # {} THEN {Min(x0.ev)} ELSE {}
                x1 == [ev |-> x0.ev \ gone, st |-> x0.st]
                \* out.set(...) notifies the consumers: scheduled for max(T, graph time) = T
                s2 == SchedAll(x1.st, c.same, T)
                \* scheduler step
                e3 == IF schedNow THEN {t \in x1.ev : t > T} ELSE x1.ev
                s3 == IF schedNow
                      THEN (IF e3 # {} /\ Fault # "norearm" THEN SchedLocal(s2, n, Min(e3)) ELSE s2)
                      ELSE (IF e3 # {} /\ Fault # "norearm2" THEN SchedLocal(s2, n, Min(e3)) ELSE s2)
            IN /\ ev' = [ev EXCEPT ![n] = e3]
               /\ Commit(s3)
               /\ direct' = [direct EXCEPT ![n] = @ \ {T}]
               /\ wd' = [wd EXCEPT ![n] = (@ \cup {t \in c.wdr : t > T} \cup gone) \ {T}]
         /\ must' = (must \ {n}) \cup c.same
         /\ fbq' = fbq \cup c.next
         /\ tcount' = [tcount EXCEPT ![n] = IF @ > 0 THEN @ - 1 ELSE 0]
         /\ script' = [script EXCEPT ![n] = Append(@, [t |-> T, at |-> Sorted(c.req)])]
         /\ cycles' = [cycles EXCEPT ![Len(cycles)].ev = Append(@, n)]
         /\ twice' = (twice \/ n \in ran)
         /\ ran' = ran \cup {n}
    /\ cursor' = cursor + 1
    /\ UNCHANGED <<start, end, prog, phase, sn, now, first, mono, asked, lostn, stopReq>>

\* A feedback's sink is a consumer ranked after the bound producer AND after the feedback's own source: when it runs, both
\* have had their turn.  It schedules the source one step ahead, directly in the table (feedback_node.cpp).  Nothing else
\* touches a source's slot in between, so all sinks of a cycle are folded into one step at the end of the scan.  (Free
\* nodes: any one node may be the source of a feedback to which some output that ticked in this cycle is bound.)
FeedbackSinks ==
    /\ phase = "cycle" /\ cursor = N + 1
    /\ \E q \in (IF Typed THEN {fbq} ELSE {{}} \cup {{m} : m \in Nodes}) :
         /\ Commit(SchedAll(Tables, q, IF Fault = "fbnow" THEN now ELSE now + 1))
         /\ direct' = [m \in Nodes |-> IF m \in q THEN direct[m] \cup {now + 1} ELSE direct[m]]
    /\ fbq' = {} /\ phase' = "tail"
    /\ UNCHANGED <<start, end, prog, sn, now, first, cursor, ev, wd, must, ran, mono, asked, twice, lostn, stopReq, budget,
                   tcount, script, cycles>>

\* evaluate_impl, after the node loop: the cursor is reset ("completed").  Some node of the cycle may have called
\* request_stop: the engine finishes the cycle and the loop head sees the flag.
EndCycle ==
    /\ phase = "tail"
    /\ cursor' = IF Fault = "noreset" THEN cursor ELSE 0
    /\ phase' = "idle"
    /\ wd' = [n \in Nodes |-> {t \in wd[n] : t > now}]
    /\ \E stp \in (IF Stops THEN BOOLEAN ELSE {FALSE}) : stopReq' = stp
    /\ cycles' = [cycles EXCEPT ![Len(cycles)].next = nxt, ![Len(cycles)].slots = slot]
    /\ UNCHANGED <<start, end, prog, sn, now, first, slot, nxt, err, ev, direct, must, fbq, ran, mono, asked, twice, lostn, budget,
                   tcount, script>>

Next == Configure \/ Parametrize \/ Bind \/ StartNode \/ Seed \/ Loop \/ SkipNode \/ EvalNode \/ FeedbackSinks \/ EndCycle
Spec == Init /\ [][Next]_vars
FairSpec == Spec /\ WF_vars(Next)

----------------------------------------------------------------------------
(* Level A: the sentences of C02 *)
Pending(n) == ev[n] \cup direct[n]

\* evaluation time strictly increases from cycle to cycle
TimeStrictlyIncreases == mono
\* ... is never earlier than the start time and never reaches the end time
WithinWindow == phase \in {"cycle", "tail"} => (start <= now /\ now < end)
\* every wake-up asked for inside the run window is honoured by a cycle at exactly the requested time: a cycle never
\* jumps over a pending time, when a cycle ends nothing that was due in it is left, and the run does not end (unless it
\* was told to stop) while a time before the end is pending.  (A pending time leaves ev / direct only when its node is
\* evaluated at that very time.)
EveryWakeupHonouredExactly ==
    /\ phase \in {"cycle", "tail"} => \A n \in Nodes : \A t \in Pending(n) : t >= now
    /\ (phase = "idle" /\ ~first) => \A n \in Nodes : \A t \in Pending(n) : t > now
    /\ (phase = "done" /\ ~stopReq /\ ~err) => \A n \in Nodes : \A t \in Pending(n) : t >= end
\* no cycle occurs at a time for which nothing was requested (a time a node asked for and withdrew is its own stale request)
NoUnrequestedCycle == asked
\* every run ends
Terminates == <>(phase = "done")

(* Level B *)
FutureSlots == {slot[n] : n \in {m \in Nodes : IF first THEN slot[m] >= start ELSE slot[m] > now}}
CacheIsMinFutureSlot == phase = "idle" => nxt = MinOr(FutureSlots, Inf)
\* no node is evaluated twice at one engine time
AtMostOncePerCycle == ~twice
\* a node scheduled for the current cycle by a producer's tick is evaluated in it
NoLostNotify == ~lostn
NeverPast == ~err
\* the scan of a fresh cycle starts at the first node and only moves forward, one node at a time
CursorStep == /\ (phase = "idle" /\ phase' = "cycle") => cursor' = 1
              /\ (phase = "cycle" /\ phase' = "cycle") => cursor' = cursor + 1
              /\ (phase = "cycle" /\ phase' = "tail") => (cursor = N + 1 /\ cursor' = cursor)
              /\ (phase = "tail" /\ phase' = "idle") => cursor' = 0
CursorMonotone == [][CursorStep]_vars
=============================================================================
