----------------------------- MODULE Isolation -----------------------------
(***************************************************************************)
(* C07: simulation runs are reproducible and isolated.                     *)
(*                                                                         *)
(* A process history is a sequence of                                      *)
(*    Build(p)        wire program p into a new builder (a recipe),        *)
(*    Make(b)         make an executor from builder b, on its own thread,  *)
(*    Step(e)         executor e performs its next phase (start, one       *)
(*                    evaluation cycle, ... , stop),                       *)
(*    Free            all executors run on concurrently to the end.        *)
(* Process-wide state is modelled explicitly so that the isolation claim   *)
(* is a checked invariant, not an assumption:                              *)
(*    reg      the monotone registries (types, node / graph / executor     *)
(*             runtime types, operators): only grow; a lookup of an entry  *)
(*             that exists gives the same answer for ever,                 *)
(*    recipe   what a builder holds (program + seed global state);         *)
(*             never changes after Build,                                  *)
(*    priv     per executor: phase counter, node state, its COPY of the    *)
(*             seed global state with its own writes.                      *)
(* Level A: what executor e has produced after k phases is a function of   *)
(* its program and k alone (ObservableIsFunctionOfProgram), builders are   *)
(* immutable (RecipeImmutable), registries are monotone (RegMonotone), no  *)
(* executor's global state contains another program's keys (NoLeak).       *)
(* TLC explores every history of the bounded size; finished histories are  *)
(* printed as token lists and replayed into the real code by harness/iso   *)
(* (the phase gate is GraphExecutorBuilder::phase_runner).                 *)
(***************************************************************************)
EXTENDS Integers, Sequences, FiniteSets, TLC, Json

CONSTANTS NProg, MaxBuilders, MaxExecs, MaxSteps, Emit

VARIABLES reg, recipe, priv, hist, freed
vars == <<reg, recipe, priv, hist, freed>>

Init == /\ reg = {} /\ recipe = <<>> /\ priv = <<>> /\ hist = <<>> /\ freed = FALSE

Build(p) == /\ ~freed /\ Len(recipe) < MaxBuilders
            /\ recipe' = Append(recipe, [prog |-> p, seed |-> {<<"seed", p>>}])
            /\ reg' = reg \cup {p}                      \* wiring interns types / runtime types
            /\ hist' = Append(hist, <<"B", p>>)
            /\ UNCHANGED <<priv, freed>>

Make(b) == /\ ~freed /\ Len(priv) < MaxExecs /\ b \in 1..Len(recipe)
           /\ priv' = Append(priv, [b |-> b, phase |-> 0, gs |-> recipe[b].seed, obs |-> <<>>])   \* the seed is COPIED
           /\ hist' = Append(hist, <<"X", b - 1>>)
           /\ UNCHANGED <<reg, recipe, freed>>

\* one phase of executor e: reads its own state, its recipe and the registries; writes only its own state
Step(e) == /\ ~freed /\ e \in 1..Len(priv) /\ priv[e].phase < MaxSteps
           /\ LET p == recipe[priv[e].b].prog
                  k == priv[e].phase + 1
              IN  priv' = [priv EXCEPT ![e].phase = k,
                                       ![e].gs = @ \cup {<<"k", p, k>>},
                                       ![e].obs = Append(@, <<p, k, p \in reg>>)]
           /\ hist' = Append(hist, <<"S", e - 1>>)
           /\ UNCHANGED <<reg, recipe, freed>>

Free == /\ ~freed /\ Len(priv) >= 1
        /\ freed' = TRUE
        /\ hist' = Append(hist, <<"F", 0>>)
        /\ (Emit => PrintT(<<"ISO", ToJson(hist')>>))
        /\ UNCHANGED <<reg, recipe, priv>>

Next == \/ \E p \in 0..(NProg - 1) : Build(p)
        \/ \E b \in 1..MaxBuilders : Make(b)
        \/ \E e \in 1..MaxExecs : Step(e)
        \/ Free
Spec == Init /\ [][Next]_vars

----------------------------------------------------------------------------
ObservableIsFunctionOfProgram ==
    \A e1, e2 \in 1..Len(priv) :
        recipe[priv[e1].b].prog = recipe[priv[e2].b].prog =>
            \A k \in 1..Len(priv[e1].obs) : k <= Len(priv[e2].obs) => priv[e1].obs[k] = priv[e2].obs[k]

NoLeak == \A e \in 1..Len(priv) : \A x \in priv[e].gs :
              x[1] = "k" => x[2] = recipe[priv[e].b].prog

RecipeImmutable == [][\A b \in 1..Len(recipe) : recipe'[b] = recipe[b]]_vars
RegMonotone     == [][reg \subseteq reg']_vars
=============================================================================
