----------------------------- MODULE Isolation -----------------------------
(***************************************************************************)
(* C07: simulation runs are reproducible and isolated.                     *)
(*                                                                         *)
(* A process history is a sequence of                                      *)
(*    Build(p)        wire program p into a new builder (a recipe),        *)
(*    Make(b)         make an executor from builder b, on its own thread,  *)
(*    Step(e)         executor e performs its next phase (start, one       *)
(*                    evaluation cycle, ... , stop),                       *)
(*    Free            all executors run on concurrently to the end.        *)
(* Process-wide state is modelled explicitly so that the isolation claim   *)
(* is a checked invariant, not an assumption:                              *)
(*    reg      the monotone registries (types, node / graph / executor     *)
(*             runtime types, operators): only grow; a lookup of an entry  *)
(*             that exists gives the same answer for ever,                 *)
(*    recipe   what a builder holds (program + seed global state);         *)
(*             never changes after Build,                                  *)
(*    priv     per executor: phase counter, node state, its COPY of the    *)
(*             seed global state with its own writes.                      *)
(* Level A: what executor e has produced after k phases is a function of   *)
(* its program and k alone (ObservableIsFunctionOfProgram), builders are   *)
(* immutable (RecipeImmutable), registries are monotone (RegMonotone), no  *)
(* executor's global state contains another program's keys (NoLeak).       *)
(* Extensions (same module, switched by constants):                        *)
(*  - type interning: a program's types are looked up in the process-wide  *)
(*    intern table under a key; programs p and p+1 (p even) are "type      *)
(*    neighbours" - same shape, one parameter apart.  With FullKey the key *)
(*    holds every parameter; FullKey = FALSE is the named fault "key drops *)
(*    a parameter" (TLC must then violate SchemaIsOwn).                    *)
(*  - GlobalContext (Ctx = TRUE): the history opens a context; every build *)
(*    takes the context's state as its seed, a finished run copies its     *)
(*    global state back (what the library's testing harness does), runs    *)
(*    follow one another.  The in-memory recorder erases its key when it   *)
(*    starts (EraseOnStart); FALSE is the named fault "recorder appends to *)
(*    the buffer an earlier run left behind" (violates RecordedIsOwn).     *)
(* TLC explores every history of the bounded size; finished histories are  *)
(* printed as token lists and replayed into the real code by harness/iso   *)
(* (the phase gate is GraphExecutorBuilder::phase_runner).                 *)
(***************************************************************************)
EXTENDS Integers, Sequences, FiniteSets, TLC, Json

CONSTANTS NProg, MaxBuilders, MaxExecs, MaxSteps, Emit,
          Ctx,            \* the history runs inside one GlobalContext
          FullKey,        \* the intern key holds every type parameter
          EraseOnStart    \* the recorder drops what an earlier run left under its key

VARIABLES reg, recipe, priv, hist, freed, ctx
vars == <<reg, recipe, priv, hist, freed, ctx>>

Shape(p) == p \div 2
TypeOf(p) == <<Shape(p), p % 2>>
KeyOf(p) == IF FullKey THEN TypeOf(p) ELSE <<Shape(p), 0>>

Init == /\ reg = <<>> /\ recipe = <<>> /\ priv = <<>> /\ hist = (IF Ctx THEN << <<"G", 0>> >> ELSE <<>>) /\ freed = FALSE
        /\ ctx = {}

Intern(r, p) == IF KeyOf(p) \in DOMAIN r THEN r ELSE [k \in DOMAIN r \cup {KeyOf(p)} |-> IF k = KeyOf(p) THEN TypeOf(p) ELSE r[k]]

AllDone == \A e \in 1..Len(priv) : priv[e].done

Build(p) == /\ ~freed /\ Len(recipe) < MaxBuilders
            /\ (Ctx => AllDone)
            /\ reg' = Intern(reg, p)                    \* wiring interns types / runtime types
            /\ recipe' = Append(recipe, [prog |-> p, schema |-> reg'[KeyOf(p)],
                                         seed |-> (IF Ctx THEN ctx ELSE {}) \cup {<<"seed", p>>}])
            /\ hist' = Append(hist, <<"B", p>>)
            /\ UNCHANGED <<priv, freed, ctx>>

Make(b) == /\ ~freed /\ Len(priv) < MaxExecs /\ b \in 1..Len(recipe)
           /\ (Ctx => AllDone)
           /\ priv' = Append(priv, [b |-> b, phase |-> 0, gs |-> recipe[b].seed, obs |-> <<>>, done |-> FALSE])   \* the seed is COPIED
           /\ hist' = Append(hist, <<"X", b - 1>>)
           /\ UNCHANGED <<reg, recipe, freed, ctx>>

\* what phase k of executor e does to its own copy of the global state: phase 1 is the start (the recorder resets its
\* buffer), later phases write the program's key and append to the recording
Phase(e, g, k) ==
    LET p == recipe[priv[e].b].prog
        g1 == IF k = 1 /\ EraseOnStart THEN {x \in g : x[1] # "rec"} ELSE g
    IN g1 \cup {<<"k", p, k>>} \cup (IF k > 1 THEN {<<"rec", e, k>>} ELSE {})

\* one phase of executor e: reads its own state, its recipe and the registries; writes only its own state
Step(e) == /\ ~freed /\ e \in 1..Len(priv) /\ priv[e].phase < MaxSteps /\ ~priv[e].done
           /\ LET p == recipe[priv[e].b].prog
                  k == priv[e].phase + 1
              IN  priv' = [priv EXCEPT ![e].phase = k,
                                       ![e].gs = Phase(e, @, k),
                                       ![e].obs = Append(@, <<p, k, recipe[priv[e].b].schema>>)]
           /\ hist' = Append(hist, <<"S", e - 1>>)
           /\ UNCHANGED <<reg, recipe, freed, ctx>>

\* inside a context: executor e runs on to the end of its run, then its global state is copied back
RECURSIVE RunOn(_, _, _)
RunOn(e, g, k) == IF k > MaxSteps THEN g ELSE RunOn(e, Phase(e, g, k), k + 1)
Finish(e) == /\ Ctx /\ ~freed /\ e \in 1..Len(priv) /\ ~priv[e].done
             /\ LET g == RunOn(e, priv[e].gs, priv[e].phase + 1)
                IN /\ priv' = [priv EXCEPT ![e].done = TRUE, ![e].gs = g, ![e].phase = MaxSteps]
                   /\ ctx' = g
             /\ hist' = hist \o << <<"F", 0>>, <<"W", e - 1>> >>
             /\ UNCHANGED <<reg, recipe, freed>>

Free == /\ ~freed /\ Len(priv) >= 1 /\ (Ctx => AllDone)
        /\ freed' = TRUE
        /\ hist' = Append(hist, <<"F", 0>>)
        /\ (Emit => PrintT(<<"ISO", ToJson(hist')>>))
        /\ UNCHANGED <<reg, recipe, priv, ctx>>

Next == \/ \E p \in 0..(NProg - 1) : Build(p)
        \/ \E b \in 1..MaxBuilders : Make(b)
        \/ \E e \in 1..MaxExecs : Step(e)
        \/ \E e \in 1..MaxExecs : Finish(e)
        \/ Free
Spec == Init /\ [][Next]_vars

----------------------------------------------------------------------------
ObservableIsFunctionOfProgram ==
    \A e1, e2 \in 1..Len(priv) :
        recipe[priv[e1].b].prog = recipe[priv[e2].b].prog =>
            \A k \in 1..Len(priv[e1].obs) : k <= Len(priv[e2].obs) => priv[e1].obs[k] = priv[e2].obs[k]

\* outside a context no executor's global state contains another program's keys
NoLeak == ~Ctx => \A e \in 1..Len(priv) : \A x \in priv[e].gs :
              x[1] = "k" => x[2] = recipe[priv[e].b].prog

\* a builder's types are its own program's, whatever was interned before
SchemaIsOwn == \A b \in 1..Len(recipe) : recipe[b].schema = TypeOf(recipe[b].prog)

\* once a run has started, its recording holds its own ticks only
RecordedIsOwn == \A e \in 1..Len(priv) : priv[e].phase >= 1 => \A x \in priv[e].gs : x[1] = "rec" => x[2] = e

RecipeImmutable == [][\A b \in 1..Len(recipe) : recipe'[b] = recipe[b]]_vars
RegMonotone     == [][\A k \in DOMAIN reg : k \in DOMAIN reg' /\ reg'[k] = reg[k]]_vars
=============================================================================
