----------------------------- MODULE SchedTrace -----------------------------
(***************************************************************************)
(* Level A trace specification of the node scheduler (C18).                *)
(*                                                                         *)
(* Abstract state per scheduler-using node: the set of pending requests    *)
(* <<time, tag>> (a tag holds at most one), the times the node asked for   *)
(* and withdrew, and whether the node has started.  Trace events are       *)
(* logged by the scripted user node of the driver (kind `sched`):          *)
(*   sact  - an activation (k = 0: the start hook; k >= 1: an evaluation)  *)
(*           with the answers of all scheduler queries on entry            *)
(*   sop   - one operation with its result and the answers afterwards      *)
(*   ret   - the run returned                                              *)
(* Every activation must be justified (input ticked, a pending time is     *)
(* due, or a withdrawn own request), no pending time may have been passed  *)
(* over, and every query answer must agree with the pending set.           *)
(***************************************************************************)
EXTENDS Integers, Sequences, FiniteSets, TLC, Json, IOUtils

Traces == JsonDeserialize(IOEnv.TRACE_FILE)

VARIABLES tid, l, S, verdict, done
vars == <<tid, l, S, verdict, done>>

Ok(s)   == [S |-> s, why |-> ""]
Fail(c) == [S |-> S, why |-> c]
RECURSIVE FirstFail(_, _)
FirstFail(cs, k) == IF k > Len(cs) THEN ""
                    ELSE IF ~cs[k][2] THEN cs[k][1] ELSE FirstFail(cs, k + 1)

NoTag == ""
TagNames == {"a", "b"}
TagRank(g) == CASE g = "" -> 0 [] g = "a" -> 1 [] g = "b" -> 2 [] OTHER -> 9
Min(X) == CHOOSE x \in X : \A y \in X : x <= y
Times(p) == {e[1] : e \in p}
TagTime(p, g) == LET c == {e \in p : e[2] = g} IN IF c = {} THEN 0 ELSE (CHOOSE e \in c : TRUE)[1]
Earliest(p) == LET t == Min(Times(p))
                   c == {e \in p : e[1] = t}
               IN  CHOOSE e \in c : \A f \in c : TagRank(e[2]) <= TagRank(f[2])

Get(f, k, d) == IF k \in DOMAIN f THEN f[k] ELSE d
Put(f, k, v) == [x \in DOMAIN f \cup {k} |-> IF x = k THEN v ELSE f[x]]

InitS == [ pend  |-> <<>>,     \* node id -> set of <<time, tag>>
           wd    |-> <<>>,     \* node id -> set of withdrawn times
           at    |-> <<>>,     \* node id -> time of the activation in progress / last activation
           k     |-> <<>>,     \* node id -> index of the activation in progress (0 = start hook)
           ended |-> FALSE ]

Pend(s, i) == Get(s.pend, i, {})
Wd(s, i)   == Get(s.wd, i, {})

(* the answers a scheduler must give for pending set p at time t *)
QueryFail(p, t, q) ==
    FirstFail(<<
      <<"C18.next_scheduled_time_disagrees_with_pending_requests", q.next = (IF p = {} THEN 0 ELSE Min(Times(p)))>>,
      <<"C18.is_scheduled_disagrees_with_pending_requests", (q.is = 1) = (p # {})>>,
      <<"C18.is_scheduled_now_disagrees_with_pending_requests", (q.isnow = 1) = (p # {} /\ Min(Times(p)) = t)>>,
      <<"C18.has_tag_disagrees_with_pending_requests", (q.ha = 1) = (TagTime(p, "a") # 0) /\ (q.hb = 1) = (TagTime(p, "b") # 0)>>,
      <<"C18.tag_time_disagrees_with_pending_requests", q.ta = TagTime(p, "a") /\ q.tb = TagTime(p, "b")>>,
      <<"C18.tag_is_scheduled_now_disagrees", (q.na = 1) = (TagTime(p, "a") = t /\ t # 0) /\ (q.nb = 1) = (TagTime(p, "b") = t /\ t # 0)>>,
      <<"C18.tag_holds_more_than_one_pending_time", \A e, f \in p : (e[2] # NoTag /\ e[2] = f[2]) => e = f>> >>, 1)

(* Named deviation (nested_bindings.h schedule_sampled_input_consumers, documented design): when a nested child
   graph starts, a node whose validity gate is empty is evaluated once in the cycle of its start so that it can
   sample its boundary inputs.  Accepted only for a node of a nested graph instance, only for its first evaluation
   and only in the cycle in which it started. *)
SampledInitialisation(e, t0, k0) == e.g # 0 /\ k0 = 0 /\ e.t = t0

OnSact(e) ==
    LET i  == e.id
        t0 == Get(S.at, i, 0)
        k0 == Get(S.k, i, 0)
        \* requests whose time had arrived in the previous evaluation were honoured by it; requests made in the
        \* start hook for the start time are still pending when the first evaluation begins
        p1 == IF e.k = 0 THEN Pend(S, i) ELSE {x \in Pend(S, i) : x[1] > t0 \/ (x[1] = t0 /\ k0 = 0)}
        why == IF e.k = 0 THEN ""
               ELSE FirstFail(<<
                 <<"C18.node_woken_in_the_past_or_twice_in_one_cycle", e.t > t0 \/ (e.t = t0 /\ k0 = 0)>>,
                 <<"C18.pending_wakeup_was_passed_over", \A x \in p1 : x[1] >= e.t>>,
                 <<"C18.node_woken_at_a_time_it_never_asked_for",
                       e.xm = 1 \/ e.t \in Times(p1) \/ e.t \in Wd(S, i) \/ SampledInitialisation(e, t0, k0)>> >>, 1)
        why2 == IF why # "" THEN why ELSE QueryFail(p1, e.t, e.q)
    IN IF why2 # "" THEN Fail(why2)
       ELSE Ok([S EXCEPT !.pend = Put(@, i, p1), !.at = Put(@, i, e.t), !.k = Put(@, i, e.k)])

OnSop(e) ==
    LET i == e.id
        p == Pend(S, i)
        t == Get(S.at, i, 0)
        starting == Get(S.k, i, 0) = 0
        when == t + e.dt
        old == {x \in p : x[2] = e.tag /\ e.tag # NoTag}
        r == CASE e.op = "sch" ->
                    IF (IF starting THEN when < t ELSE when <= t)
                    THEN [p |-> p, w |-> {}]          \* ignored: nothing changes
                    ELSE [p |-> (p \ old) \cup {<<when, e.tag>>}, w |-> Times(old) \ {when}]
               [] e.op \in {"uns", "pop"} -> [p |-> p \ old, w |-> Times(old)]
               [] e.op = "unse" -> IF p = {} THEN [p |-> p, w |-> {}] ELSE [p |-> p \ {Earliest(p)}, w |-> {Earliest(p)[1]}]
               [] e.op = "reset" -> [p |-> {}, w |-> Times(p)]
               [] OTHER -> [p |-> p, w |-> {}]
        why == IF e.op = "pop" /\ e.ret # TagTime(p, e.tag) THEN "C18.pop_tag_returned_a_time_that_was_not_pending"
               ELSE QueryFail(r.p, t, e.q)
    IN IF why # "" THEN Fail(why)
       ELSE Ok([S EXCEPT !.pend = Put(@, i, r.p), !.wd = Put(@, i, Wd(S, i) \cup r.w)])

OnRet(e) ==
    LET bad == \E i \in DOMAIN S.pend : \E x \in S.pend[i] :
                   /\ (x[1] > Get(S.at, i, 0) \/ (x[1] = Get(S.at, i, 0) /\ Get(S.k, i, 0) = 0))
                   /\ x[1] < Traces[tid].prog.end /\ x[1] >= Traces[tid].prog.start
    IN IF e.ok # 1 THEN Fail("run_raised_an_exception")
       ELSE IF bad THEN Fail("C18.pending_wakeup_inside_the_run_window_never_delivered")
       ELSE Ok([S EXCEPT !.ended = TRUE])

Step(e) == CASE e.e = "sact" -> OnSact(e)
             [] e.e = "sop"  -> OnSop(e)
             [] e.e = "ret"  -> OnRet(e)
             [] OTHER        -> Ok(S)

Init == /\ tid \in 1..Len(Traces) /\ l = 1 /\ S = InitS /\ verdict = "" /\ done = FALSE

Consume == /\ ~done /\ verdict = "" /\ l <= Len(Traces[tid].ev)
           /\ LET r == Step(Traces[tid].ev[l]) IN S' = r.S /\ verdict' = r.why
           /\ l' = l + 1
           /\ UNCHANGED <<tid, done>>

Finish == /\ ~done /\ (verdict # "" \/ l > Len(Traces[tid].ev))
          /\ done' = TRUE
          /\ PrintT(<<"VERDICT", Traces[tid].id, l - 1, IF verdict = "" /\ ~S.ended THEN "trace.incomplete" ELSE verdict>>)
          /\ UNCHANGED <<tid, l, S, verdict>>

Next == Consume \/ Finish
Spec == Init /\ [][Next]_vars
=============================================================================
