------------------------------- MODULE Vocab -------------------------------
(***************************************************************************)
(* The node vocabulary shared by the specifications and the native driver  *)
(* (harness/engine/engine.cpp).  Each kind is a pure step function:        *)
(* which inputs are active, which must be valid, and what it writes.       *)
(*                                                                         *)
(* A node record (uniform fields, produced by glue/scenario.py):           *)
(*   kind   : STRING                                                       *)
(*   k      : Int      add: the addend; delay: d; timer: period            *)
(*   cnt    : Int      timer: number of ticks                              *)
(*   ins    : Seq(Nat) producer node ids (same graph, already flattened)   *)
(*   script : Seq(<<t, v>>)  src only                                      *)
(*   bind   : Nat      fb: id of the producer bound to the feedback (0=none)*)
(*   init   : Int      fb: initial value, -1 = none                        *)
(*   cap    : 0/1      throwneg: error capture enabled                     *)
(***************************************************************************)
EXTENDS Integers, Sequences

SourceKinds == {"src", "timer", "fb"}

\* indexes (into ins) of the inputs whose tick activates the node
ActiveIns(n) ==
    CASE n.kind \in SourceKinds -> {}
      [] n.kind \in {"sample", "sample2", "sampleu", "elem0"} -> {1}
      [] n.kind \in {"elem1", "psum2a"} -> {2}   \* psum2a: sum2 whose FIRST input is used passively
      [] n.kind \in {"sum3", "lradd", "lrmin", "lrmax"} -> {1, 2, 3}
      [] n.kind = "elem1x"      -> {2}       \* (unused) elem0 / elem1: element 0 / 1 of a list output packed from two inputs    \* sample2 / sampleu: sum2 / sumu with a passive second input
      [] n.kind \in {"sum2", "sumu", "keymix", "lsum", "lsumv", "fdiv"} -> {1, 2}
      [] OTHER                  -> {1}

\* activity can change at run time: the node itself makes inputs passive / active again (make_passive / make_active from
\* inside its evaluation); its state s records what it did last.  tog (two scalar inputs) / ltog (two list inputs of two
\* elements each, read through list paths): the second input is passive while s = 1
ActiveInsS(n, s) ==
    CASE n.kind = "tog"  -> IF s = 1 THEN {1} ELSE {1, 2}
      [] n.kind = "ltog" -> IF s = 1 THEN {1, 2} ELSE {1, 2, 3, 4}
      [] OTHER           -> ActiveIns(n)

\* indexes of the inputs that must hold a value for user code to run
ValidIns(n) ==
    CASE n.kind \in SourceKinds -> {}
      [] n.kind \in {"sumu", "sampleu"} -> {1}
      [] n.kind = "elem0"       -> {1}
      [] n.kind = "elem1"       -> {2}
      [] n.kind \in {"tog", "ltog"} -> {}    \* unchecked inputs
      [] n.kind \in {"lradd", "lrmin", "lrmax"} -> {}   \* reduce_ over a fixed list: folds whatever is valid
      [] n.kind = "lsumv"       -> {}        \* a list input is valid as soon as one element is
      [] n.kind \in {"sum2", "sample", "sample2", "psum2a", "keymix", "lsum", "fdiv"} -> {1, 2}
      [] n.kind = "sum3" -> {1, 2, 3}   \* lsum: all-valid list input
      [] OTHER                  -> {1}

\* does the kind produce an output at all
HasOutput(n) == n.kind \notin {"rec"}

(***************************************************************************)
(* F: the value written by a firing of node n.                             *)
(*   iv  : Seq(Int)  current input values (0 where not valid)              *)
(*   iok : Seq(BOOLEAN) validity                                           *)
(*   s   : Int       node state before the firing                          *)
(* Result [w |-> wrote?, v |-> value, s |-> new state].                    *)
(* src / timer / fb / delay depend on time and are handled by the callers. *)
(***************************************************************************)
F(n, iv, iok, s) ==
    CASE n.kind = "pass"   -> [w |-> TRUE, v |-> iv[1], s |-> s]
      [] n.kind = "add"    -> [w |-> TRUE, v |-> iv[1] + n.k, s |-> s]
      [] n.kind \in {"sum2", "sample2", "psum2a", "lsum"} -> [w |-> TRUE, v |-> iv[1] + iv[2], s |-> s]
      [] n.kind = "sum3" -> [w |-> TRUE, v |-> iv[1] + iv[2] + iv[3], s |-> s]
      [] n.kind = "lsumv" -> [w |-> TRUE, v |-> (IF iok[1] THEN iv[1] ELSE 0) + (IF iok[2] THEN iv[2] ELSE 0), s |-> s]
      [] n.kind \in {"sumu", "sampleu"} -> [w |-> TRUE, v |-> iv[1] + (IF iok[2] THEN iv[2] ELSE 0), s |-> s]
      [] n.kind = "sample" -> [w |-> TRUE, v |-> iv[2], s |-> s]
      [] n.kind = "elem0"  -> [w |-> TRUE, v |-> iv[1], s |-> s]
      [] n.kind = "elem1"  -> [w |-> TRUE, v |-> iv[2], s |-> s]
      [] n.kind = "keymix" -> [w |-> TRUE, v |-> iv[1] * 100 + iv[2], s |-> s]   \* (key, x) inside a mapped child
      \* tog / ltog: sum of the inputs that hold a value; afterwards the second input (pair) is made passive when the
      \* first element is odd, active again when it is even
      [] n.kind = "tog"    -> [w |-> TRUE, v |-> (IF iok[1] THEN iv[1] ELSE 0) + (IF iok[2] THEN iv[2] ELSE 0),
                               s |-> IF iok[1] /\ iv[1] % 2 = 1 THEN 1 ELSE 0]
      [] n.kind = "ltog"   -> [w |-> TRUE, v |-> (IF iok[1] THEN iv[1] ELSE 0) + (IF iok[2] THEN iv[2] ELSE 0)
                                                  + (IF iok[3] THEN iv[3] ELSE 0) + (IF iok[4] THEN iv[4] ELSE 0),
                               s |-> IF iok[1] /\ iv[1] % 2 = 1 THEN 1 ELSE 0]
      \* reduce_ over a fixed-size list of three streams (C11): the fold over exactly the valid elements
      [] n.kind = "lradd"  -> [w |-> TRUE, v |-> (IF iok[1] THEN iv[1] ELSE 0) + (IF iok[2] THEN iv[2] ELSE 0) + (IF iok[3] THEN iv[3] ELSE 0), s |-> s]
      [] n.kind = "lrmin"  -> LET vs == {iv[k] : k \in {j \in 1..3 : iok[j]}}
                              IN [w |-> TRUE, v |-> CHOOSE x \in vs : \A y \in vs : x <= y, s |-> s]
      [] n.kind = "lrmax"  -> LET vs == {iv[k] : k \in {j \in 1..3 : iok[j]}}
                              IN [w |-> TRUE, v |-> CHOOSE x \in vs : \A y \in vs : x >= y, s |-> s]
      [] n.kind = "acc"    -> [w |-> TRUE, v |-> s + iv[1], s |-> s + iv[1]]
      [] n.kind = "count"  -> [w |-> TRUE, v |-> s + 1, s |-> s + 1]
      [] n.kind = "throwneg" -> IF iv[1] < 0 THEN [w |-> FALSE, v |-> 0, s |-> s]
                                ELSE [w |-> TRUE, v |-> iv[1] * 2, s |-> s]
      [] n.kind = "rec"    -> [w |-> FALSE, v |-> 0, s |-> s]
      [] OTHER             -> [w |-> FALSE, v |-> 0, s |-> s]

=============================================================================
