------------------------------ MODULE SimTrace ------------------------------
(***************************************************************************)
(* Level A of C02 as a judge of runs of the REAL engine (file mode, like   *)
(* WiringTrace.tla): the glue hands over, per run, the window, the         *)
(* wake-up requests the nodes made (read from the driver's trace: which    *)
(* node, in which cycle or at start, for which time; and which ones a node *)
(* replaced), and the cycles the engine ran (time, nodes evaluated).  TLC  *)
(* replays the run against the sentences of C02 and prints one verdict per *)
(* run: "" or the name of the first clause that fails.  Nothing here knows *)
(* about slots, caches or cursors: a run that differs from SimExecutor's   *)
(* prediction but passes here is DRIFT, not a violation.                   *)
(*                                                                         *)
(*   it.reqs   [n, made, at, st]  node n asked at engine time `made` (st=1: *)
(*             in its start hook / by a start-time declaration, st=0: in   *)
(*             the cycle at `made`) to be woken at `at`                    *)
(*   it.wds    [n, made, at]      in the cycle at `made` node n withdrew   *)
(*             its request for `at` (DESIGN.md 6.1)                        *)
(*   it.cycles [t, ev]            a root cycle at t evaluated nodes ev     *)
(*   it.stopped 1: the run was told to stop (nothing is owed afterwards)   *)
(***************************************************************************)
EXTENDS Integers, Sequences, FiniteSets, TLC, Json, IOUtils

Items == JsonDeserialize(IOEnv.SIM_FILE)
SetOf(q) == {q[i] : i \in 1..Len(q)}
Times(P) == {p[2] : p \in P}

\* a request is one only if it lies in the future (at start: not in the past); anything else is ignored by design (C18)
Counts(r) == IF r.st = 1 THEN r.at >= r.made ELSE r.at > r.made

RECURSIVE Replay(_, _, _, _, _)
Replay(it, k, pending, withdrawn, prev) ==
    IF k > Len(it.cycles)
    THEN IF it.stopped = 0 /\ \E p \in pending : p[2] < it.end THEN "C02.wakeup_inside_the_window_dropped_at_the_end_of_the_run" ELSE ""
    ELSE LET c == it.cycles[k]
             T == c.t
             E == SetOf(c.ev)
             made == {<<r.n, r.at>> : r \in {x \in SetOf(it.reqs) : x.st = 0 /\ x.made = T /\ Counts(x)}}
             gone == {<<w.n, w.at>> : w \in {x \in SetOf(it.wds) : x.made = T /\ x.at > T}}
         IN  IF prev # 0 /\ T <= prev THEN "C02.evaluation_time_does_not_strictly_increase"
             ELSE IF T < it.start THEN "C02.cycle_before_the_start_time"
             ELSE IF T >= it.end THEN "C02.cycle_at_or_after_the_end_time"
             ELSE IF \E p \in pending : p[2] < T THEN "C02.wakeup_skipped_or_honoured_late"
             ELSE IF T \notin Times(pending) \cup Times(withdrawn) THEN "C02.cycle_at_a_time_nobody_requested"
             ELSE IF \E p \in pending : p[2] = T /\ p[1] \notin E THEN "C02.wakeup_due_but_its_node_was_not_evaluated"
             ELSE LET live == {p \in pending : p[2] # T} \cup made
                  IN Replay(it, k + 1, live \ gone, {p \in withdrawn \cup (gone \cap live) : p[2] > T}, T)

Verdict(it) ==
    LET atStart == {<<r.n, r.at>> : r \in {x \in SetOf(it.reqs) : x.st = 1 /\ Counts(x)}}
    IN  IF it.failed = 1 THEN "C02.run_aborted_with_wakeups_pending"
        ELSE Replay(it, 1, atStart, {}, 0)

VARIABLES k
FileInit == k = 0
FileNext == /\ k < Len(Items)
            /\ k' = k + 1
            /\ LET it == Items[k + 1] IN PrintT(<<"SVERDICT", ToJson([id |-> it.id, why |-> Verdict(it)])>>)
FileSpec == FileInit /\ [][FileNext]_k
=============================================================================
