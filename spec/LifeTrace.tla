----------------------------- MODULE LifeTrace -----------------------------
(***************************************************************************)
(* Level A trace specification of node / graph lifecycle (C14).            *)
(*                                                                         *)
(* Abstract state: for every node instance <<graph instance, index>> its   *)
(* lifecycle status, for every graph instance the next index expected to   *)
(* start, the first exception thrown by user code, and which user-level    *)
(* start / stop hooks have run.  One action per observer / user-code       *)
(* event; the enabling condition of each action is a list of named clauses *)
(* and the first failing clause is the verdict.                            *)
(*                                                                         *)
(*   none -> starting -> started -> stopping -> stopped                    *)
(*              |-> startfailed                                            *)
(*                                                                         *)
(* Properties enforced:                                                    *)
(*  - nodes of a graph start in index order, stop in reverse index order   *)
(*    among the started ones; a node is stopped at most once and only if   *)
(*    its start completed; the failing node of a failed start is not       *)
(*    stopped and exactly the already started nodes are;                   *)
(*  - user code is never evaluated before start completed / after stop;    *)
(*  - user-level start/stop hooks run inside the engine's start/stop of    *)
(*    that node, stop exactly once per completed start;                    *)
(*  - when the run returns (clean-up on error) or at the latest when the   *)
(*    executor is released, no node is left started - in the root graph or *)
(*    in any nested child;                                                 *)
(*  - a failing stop does not prevent the remaining stops (follows from    *)
(*    the previous rule);                                                  *)
(*  - the error reaching the caller is the FIRST exception thrown, carries *)
(*    its message and names the root node it came from (the phase word in  *)
(*    the message is not asserted: for a dynamically created child the     *)
(*    failing start / stop happens inside the parent node's evaluation).   *)
(***************************************************************************)
EXTENDS Integers, Sequences, FiniteSets, TLC, Json, IOUtils

Traces == JsonDeserialize(IOEnv.TRACE_FILE)

VARIABLES tid, l, S, verdict, done
vars == <<tid, l, S, verdict, done>>

Ok(s)   == [S |-> s, why |-> ""]
Fail(c) == [S |-> S, why |-> c]

RECURSIVE FirstFail(_, _)
FirstFail(cs, k) == IF k > Len(cs) THEN ""
                    ELSE IF ~cs[k][2] THEN cs[k][1] ELSE FirstFail(cs, k + 1)

Key(e) == <<e.g, e.n>>
St(s, k) == IF k \in DOMAIN s.st THEN s.st[k] ELSE "none"
SetSt(s, k, v) == [s EXCEPT !.st = [x \in DOMAIN s.st \cup {k} |-> IF x = k THEN v ELSE s.st[x]]]
KeysOf(s, g) == {k \in DOMAIN s.st : k[1] = g}

InitS(t) ==
    [ st       |-> <<>>,          \* node instance -> status (function with growing domain)
      nexts    |-> <<>>,          \* graph instance -> next index expected to start
      gpar     |-> <<>>,          \* graph instance -> <<parent graph instance, parent node index>>
      ustarted |-> {},            \* node instances whose user start hook ran
      ustopped |-> {},            \* node instances whose user stop hook ran
      first    |-> <<>>,          \* the first exception thrown: <<id, phase, g, n>>
      returned |-> FALSE,
      ended    |-> FALSE ]

SetF(f, k, v) == [x \in DOMAIN f \cup {k} |-> IF x = k THEN v ELSE f[x]]

RECURSIVE RootIndex(_, _, _)
RootIndex(s, g, n) == IF g \notin DOMAIN s.gpar \/ s.gpar[g][1] < 0 THEN n
                      ELSE RootIndex(s, s.gpar[g][1], s.gpar[g][2])

----------------------------------------------------------------------------
OnGstart(e) ==
    LET why == FirstFail(<<
          <<"C14.child_graph_started_under_a_node_that_is_not_starting_or_started",
                e.pg < 0 \/ St(S, <<e.pg, e.pn>>) \in {"starting", "started"}>> >>, 1)
    IN IF why # "" THEN Fail(why)
       ELSE Ok([S EXCEPT !.nexts = SetF(@, e.g, 0), !.gpar = SetF(@, e.g, <<e.pg, e.pn>>),
                         \* a re-used instance id is a fresh graph: forget the previous occupant's nodes
                         !.st = [k \in {x \in DOMAIN @ : x[1] # e.g} |-> @[k]],
                         !.ustarted = {k \in @ : k[1] # e.g}, !.ustopped = {k \in @ : k[1] # e.g}])

OnNstart(e) ==
    LET why == FirstFail(<<
          <<"C14.node_start_without_graph_start", e.g \in DOMAIN S.nexts>>,
          <<"C14.nodes_do_not_start_in_evaluation_order", e.n = S.nexts[e.g]>>,
          <<"C14.node_started_twice", St(S, Key(e)) = "none">> >>, 1)
    IN IF why # "" THEN Fail(why)
       ELSE Ok([SetSt(S, Key(e), "starting") EXCEPT !.nexts = SetF(@, e.g, e.n + 1)])

OnUstart(e) ==
    IF St(S, Key(e)) # "starting" THEN Fail("C14.user_start_hook_ran_outside_the_node_start")
    ELSE Ok([S EXCEPT !.ustarted = @ \cup {Key(e)}])

OnNstarted(e) ==
    IF St(S, Key(e)) # "starting" THEN Fail("C14.start_completed_for_a_node_that_was_not_starting")
    ELSE Ok(SetSt(S, Key(e), "started"))

OnNstartfail(e) ==
    IF St(S, Key(e)) # "starting" THEN Fail("C14.start_failed_for_a_node_that_was_not_starting")
    ELSE Ok(SetSt(S, Key(e), "startfailed"))

OnGstartfail(e) ==
    IF \E k \in KeysOf(S, e.g) : S.st[k] = "started"
    THEN Fail("C14.failed_start_left_already_started_nodes_unstopped")
    ELSE Ok(S)

OnEval(e) ==
    IF St(S, Key(e)) # "started" THEN Fail("C14.node_evaluated_before_its_start_or_after_its_stop")
    ELSE Ok(S)

OnNstop(e) ==
    LET k == Key(e)
        why == FirstFail(<<
          <<"C14.node_stopped_twice", St(S, k) \notin {"stopping", "stopped"}>>,
          <<"C14.stop_of_the_node_whose_start_failed", St(S, k) # "startfailed">>,
          <<"C14.stop_of_a_node_that_never_started", St(S, k) = "started">>,
          <<"C14.nodes_do_not_stop_in_reverse_start_order",
                \A x \in KeysOf(S, e.g) : S.st[x] = "started" => x[2] <= e.n>> >>, 1)
    IN IF why # "" THEN Fail(why) ELSE Ok(SetSt(S, k, "stopping"))

OnUstop(e) ==
    LET why == FirstFail(<<
          <<"C14.user_stop_hook_ran_outside_the_node_stop", St(S, Key(e)) = "stopping">>,
          <<"C14.user_stop_hook_ran_twice", Key(e) \notin S.ustopped>> >>, 1)
    IN IF why # "" THEN Fail(why) ELSE Ok([S EXCEPT !.ustopped = @ \cup {Key(e)}])

OnNstopped(e) ==
    IF St(S, Key(e)) \notin {"stopping"} THEN Fail("C14.stop_completed_for_a_node_that_was_not_stopping")
    ELSE Ok(SetSt(S, Key(e), "stopped"))

OnUthrow(e) == IF S.first = <<>> THEN Ok([S EXCEPT !.first = <<e.id, e.phase, e.g, e.n>>]) ELSE Ok(S)

PhaseWord(p) == CASE p = "start" -> "start" [] p = "eval" -> "evaluate" [] p = "stop" -> "stop" [] OTHER -> p

NothingLeftStarted(s) == \A k \in DOMAIN s.st : s.st[k] \notin {"started", "starting"}
EveryStartHasItsStop(s) == \A k \in s.ustarted : (St(s, k) \in {"stopped", "stopping"}) => k \in s.ustopped

\* a run that returned normally carries no error fields (the clause list is built eagerly, so every field access is guarded)
RetTags(e) == IF "tags" \in DOMAIN e THEN e.tags ELSE <<>>
RetNode(e) == IF "node" \in DOMAIN e THEN e.node ELSE -1

OnRet(e) ==
    LET cleanup == Traces[tid].prog.cleanup = 1
        why == FirstFail(<<
          <<"C14.run_failed_although_no_user_code_threw", S.first # <<>> \/ e.ok = 1>>,
          <<"C14.exception_did_not_reach_the_caller", S.first = <<>> \/ e.ok = 0>>,
          <<"C14.error_reaching_the_caller_is_not_the_original_exception",
                S.first = <<>> \/ \E j \in 1..Len(RetTags(e)) : RetTags(e)[j][1] = S.first[1] /\ RetTags(e)[j][2] = S.first[2]>>,
          <<"C14.error_does_not_name_the_failing_node",
                S.first = <<>> \/ RetNode(e) = RootIndex(S, S.first[3], S.first[4])>>,
          <<"C14.started_node_not_stopped_when_the_run_returned", ~cleanup \/ NothingLeftStarted(S)>>,
          <<"C14.user_stop_hook_skipped_for_a_started_node", ~cleanup \/ EveryStartHasItsStop(S)>> >>, 1)
    IN IF why # "" THEN Fail(why) ELSE Ok([S EXCEPT !.returned = TRUE])

OnReleased(e) ==
    LET why == FirstFail(<<
          <<"C14.started_node_not_stopped_when_the_executor_was_released", NothingLeftStarted(S)>>,
          <<"C14.user_stop_hook_skipped_for_a_started_node", EveryStartHasItsStop(S)>>,
          <<"C14.node_with_completed_start_never_stopped",
                \A k \in DOMAIN S.st : S.st[k] \in {"none", "startfailed", "stopped", "stopping"}>> >>, 1)
    IN IF why # "" THEN Fail(why) ELSE Ok([S EXCEPT !.ended = TRUE])

Step(e) ==
    CASE e.e = "gstart"     -> OnGstart(e)
      [] e.e = "nstart"     -> OnNstart(e)
      [] e.e = "ustart"     -> OnUstart(e)
      [] e.e = "nstarted"   -> OnNstarted(e)
      [] e.e = "nstartfail" -> OnNstartfail(e)
      [] e.e = "gstartfail" -> OnGstartfail(e)
      [] e.e = "eval"       -> OnEval(e)
      [] e.e = "ueval"      -> OnEval(e)
      [] e.e = "nstop"      -> OnNstop(e)
      [] e.e = "ustop"      -> OnUstop(e)
      [] e.e = "nstopped"   -> OnNstopped(e)
      [] e.e = "uthrow"     -> OnUthrow(e)
      [] e.e = "ret"        -> OnRet(e)
      [] e.e = "released"   -> OnReleased(e)
      [] OTHER              -> Ok(S)

Init == /\ tid \in 1..Len(Traces)
        /\ l = 1
        /\ S = InitS(tid)
        /\ verdict = ""
        /\ done = FALSE

Consume == /\ ~done /\ verdict = "" /\ l <= Len(Traces[tid].ev)
           /\ LET r == Step(Traces[tid].ev[l])
              IN  S' = r.S /\ verdict' = r.why
           /\ l' = l + 1
           /\ UNCHANGED <<tid, done>>

Finish == /\ ~done /\ (verdict # "" \/ l > Len(Traces[tid].ev))
          /\ done' = TRUE
          /\ PrintT(<<"VERDICT", Traces[tid].id, l - 1, IF verdict = "" /\ ~S.ended THEN "trace.incomplete" ELSE verdict>>)
          /\ UNCHANGED <<tid, l, S, verdict>>

Next == Consume \/ Finish
Spec == Init /\ [][Next]_vars
=============================================================================
