----------------------------- MODULE SwitchTrace -----------------------------
(***************************************************************************)
(* Level A trace specification of the instance discipline of switch_       *)
(* (C12), code -> spec: TLC judges the REAL trace of the engine driver,    *)
(* projected (glue/switch_model.py) to what concerns one switch node:      *)
(*                                                                         *)
(*   cycle t          a cycle of the graph that owns the switch node       *)
(*   key t v          the key source's user code emitted v in this cycle   *)
(*   held t v         a held input ticked (v = 1: the first one, which is  *)
(*                    valid from now on)                                   *)
(*   req g t          a node of branch instance g asked for a wake-up at t *)
(*   sw t / swd       the switch node's turn begins / ends                 *)
(*   gstart g / gstarted g / gstop g / gstopped g                          *)
(*                    lifecycle of the graph instances whose parent is the *)
(*                    switch node (observer events of the real run)        *)
(*   geval g t        the branch graph instance g is evaluated             *)
(*   neval g t        a node of instance g has its turn                    *)
(*   ret v g          the run returned (v = ok, g = 1: "no branch is       *)
(*                    registered for key")                                 *)
(*                                                                         *)
(* prog = [reload, dflt, keys]: what the scenario wired.                   *)
(*                                                                         *)
(* Clauses (first failing one is the verdict):                             *)
(*  - at most one live branch instance at any time; the old instance's     *)
(*    stop has completed before the new one starts;                        *)
(*  - a stopped instance is never evaluated again;                         *)
(*  - every key tick that CHANGES the key value (every key tick under      *)
(*    reload_on_ticked; the first one) creates a new instance - also when  *)
(*    the new key resolves to the same branch definition, e.g. two         *)
(*    unmatched keys under a default - and nothing else creates one;       *)
(*  - an instance is evaluated in the cycle it is created (its nodes have  *)
(*    their turn when the held input is valid: it sees the held values at  *)
(*    once);                                                               *)
(*  - a key without branch and without default makes the run fail with     *)
(*    the documented error, and nothing else does.                         *)
(* `DRIFT.` verdicts are level B observations (accepted by level A).       *)
(***************************************************************************)
EXTENDS Integers, Sequences, FiniteSets, TLC, Json, IOUtils

Traces == JsonDeserialize(IOEnv.TRACE_FILE)
VARIABLES tid, l, S, verdict, done
vars == <<tid, l, S, verdict, done>>

Ok(s)   == [S |-> s, why |-> ""]
Fail(c) == [S |-> S, why |-> c]
RECURSIVE FirstFail(_, _)
FirstFail(cs, k) == IF k > Len(cs) THEN "" ELSE IF ~cs[k][2] THEN cs[k][1] ELSE FirstFail(cs, k + 1)

Prog == Traces[tid].prog
Reload == Prog.reload = 1
Matched(k) == Prog.dflt = 1 \/ \E j \in DOMAIN Prog.keys : Prog.keys[j] = k

InitS == [ now |-> 0, ktick |-> 0, turned |-> FALSE, inturn |-> FALSE,
           sel |-> 0,              \* the key value of the current selection (0 = none yet)
           heldok |-> FALSE, itick |-> FALSE,
           want |-> {},            \* <<g, t>>: wake-ups the nodes of instance g asked for
           seen |-> {}, starting |-> {}, live |-> {}, stopping |-> {}, dead |-> {},
           created |-> {}, gevald |-> {}, nevald |-> {},
           expectfail |-> FALSE, drift |-> "", ended |-> FALSE ]

\* a key tick is a selection when the value changes, always under reload, and the first time
Selects(s) == s.ktick # 0 /\ (s.sel = 0 \/ Reload \/ s.ktick # s.sel)

CycleEnd(s) == FirstFail(<<
      <<"C12.key_tick_not_seen_by_the_switch_node", s.ktick = 0 \/ s.turned>>,
      <<"C12.unmatched_key_without_default_did_not_fail", ~s.expectfail>> >>, 1)

OnCycle(e) ==
    LET why == CycleEnd(S)
    IN IF why # "" THEN Fail(why)
       ELSE Ok([S EXCEPT !.now = e.t, !.ktick = 0, !.itick = FALSE, !.turned = FALSE, !.inturn = FALSE])

OnKey(e)  == Ok([S EXCEPT !.ktick = e.v])
OnHeld(e) == Ok([S EXCEPT !.heldok = @ \/ e.v = 1, !.itick = TRUE])
OnReq(e)  == Ok([S EXCEPT !.want = @ \cup {<<e.g, e.t>>}])
\* level B (SwitchNode.tla): the node has a turn because the key ticked, because a held input ticked, or because the
\* LIVE branch asked for this time; a wake-up the retired branch had pending does not come back
OnSw(e)   == LET reason == S.ktick # 0 \/ S.itick \/ \E g \in S.live : <<g, S.now>> \in S.want
             IN Ok([S EXCEPT !.inturn = TRUE, !.turned = TRUE, !.created = {}, !.gevald = {}, !.nevald = {},
                             !.drift = IF @ = "" /\ ~reason THEN "DRIFT.turn_of_the_switch_node_that_the_model_does_not_explain" ELSE @])

OnGstart(e) ==
    LET why == FirstFail(<<
          <<"C12.branch_instance_started_twice", e.g \notin S.seen>>,
          <<"C12.new_branch_started_while_the_previous_instance_is_still_live", S.live = {} /\ S.starting = {}>>,
          <<"C12.new_branch_started_before_the_stop_of_the_previous_instance_completed", S.stopping = {}>>,
          <<"C12.branch_instance_created_outside_a_turn_of_the_switch_node", S.inturn>>,
          <<"C12.branch_instance_created_without_a_key_tick", S.ktick # 0>>,
          <<"C12.retick_of_the_same_key_value_created_a_new_instance", Selects(S)>>,
          <<"C12.branch_instance_created_for_a_key_without_branch_or_default", Matched(S.ktick)>>,
          <<"C12.two_instances_created_for_one_selection", S.created = {}>> >>, 1)
    IN IF why # "" THEN Fail(why)
       ELSE Ok([S EXCEPT !.seen = @ \cup {e.g}, !.starting = @ \cup {e.g}, !.created = @ \cup {e.g}])

OnGstarted(e) ==
    IF e.g \notin S.starting THEN Fail("C12.start_completed_for_an_instance_that_was_not_starting")
    ELSE Ok([S EXCEPT !.starting = @ \ {e.g}, !.live = @ \cup {e.g}])

OnGstop(e) ==
    IF e.g \notin S.live THEN Fail("C12.stop_of_a_branch_instance_that_is_not_live")
    ELSE Ok([S EXCEPT !.live = @ \ {e.g}, !.stopping = @ \cup {e.g}])

OnGstopped(e) ==
    IF e.g \notin S.stopping THEN Fail("C12.stop_completed_for_an_instance_that_was_not_stopping")
    ELSE Ok([S EXCEPT !.stopping = @ \ {e.g}, !.dead = @ \cup {e.g}])

EvalClauses(e) == FirstFail(<<
      <<"C12.stopped_branch_instance_evaluated_again", e.g \notin S.dead /\ e.g \notin S.stopping>>,
      <<"C12.branch_instance_evaluated_before_its_start_completed", e.g \in S.live>>,
      <<"C12.branch_instance_evaluated_outside_a_turn_of_the_switch_node", S.inturn>>,
      <<"C12.branch_instance_evaluated_at_another_time_than_the_cycle", e.t = S.now>> >>, 1)

OnGeval(e) == LET why == EvalClauses(e) IN IF why # "" THEN Fail(why) ELSE Ok([S EXCEPT !.gevald = @ \cup {e.g}])
OnNeval(e) == LET why == EvalClauses(e) IN IF why # "" THEN Fail(why) ELSE Ok([S EXCEPT !.nevald = @ \cup {e.g}])

\* end of the switch node's turn: what the key tick of this cycle obliges
OnSwd(e) ==
    LET sel  == Selects(S)
        ok   == Matched(S.ktick)
        why  == FirstFail(<<
          <<"C12.key_change_did_not_create_a_new_branch_instance", (sel /\ ok) => S.created # {}>>,
          <<"C12.new_branch_instance_not_evaluated_in_the_cycle_it_was_created",
                (S.created # {} /\ S.heldok) => S.created \subseteq S.nevald>> >>, 1)
        \* level B: the code evaluates the live branch graph in every turn of the node (that is what re-arms the node)
        drift == IF S.drift = "" /\ ~(sel /\ ~ok) /\ ~(S.live \subseteq S.gevald)
                 THEN "DRIFT.turn_of_the_switch_node_without_evaluating_the_live_branch_graph" ELSE S.drift
    IN IF why # "" THEN Fail(why)
       ELSE Ok([S EXCEPT !.inturn = FALSE, !.sel = IF sel /\ ok THEN S.ktick ELSE @,
                         !.expectfail = sel /\ ~ok, !.drift = drift])

OnRet(e) ==
    LET nobranch == e.g = 1
        why == FirstFail(<<
          <<"C12.key_tick_not_seen_by_the_switch_node", S.ktick = 0 \/ S.turned>>,
          <<"C12.unmatched_key_without_default_did_not_fail", S.expectfail => (e.v = 0 /\ nobranch)>>,
          <<"C12.run_failed_with_no_branch_although_every_key_had_one", nobranch => S.expectfail>>,
          <<"C12.run_raised_an_unexpected_error", e.v = 1 \/ nobranch>>,
          <<"C12.branch_instance_still_live_when_the_run_returned", S.live = {} /\ S.starting = {} /\ S.stopping = {}>> >>, 1)
    IN IF why # "" THEN Fail(why) ELSE Ok([S EXCEPT !.ended = TRUE])

Step(e) == CASE e.e = "cycle"    -> OnCycle(e)
             [] e.e = "key"      -> OnKey(e)
             [] e.e = "held"     -> OnHeld(e)
             [] e.e = "req"      -> OnReq(e)
             [] e.e = "sw"       -> OnSw(e)
             [] e.e = "swd"      -> OnSwd(e)
             [] e.e = "gstart"   -> OnGstart(e)
             [] e.e = "gstarted" -> OnGstarted(e)
             [] e.e = "gstop"    -> OnGstop(e)
             [] e.e = "gstopped" -> OnGstopped(e)
             [] e.e = "geval"    -> OnGeval(e)
             [] e.e = "neval"    -> OnNeval(e)
             [] e.e = "ret"      -> OnRet(e)
             [] OTHER            -> Ok(S)

Init == /\ tid \in 1..Len(Traces) /\ l = 1 /\ S = InitS /\ verdict = "" /\ done = FALSE
Consume == /\ ~done /\ verdict = "" /\ l <= Len(Traces[tid].ev)
           /\ LET r == Step(Traces[tid].ev[l]) IN S' = r.S /\ verdict' = r.why
           /\ l' = l + 1 /\ UNCHANGED <<tid, done>>
Finish == /\ ~done /\ (verdict # "" \/ l > Len(Traces[tid].ev))
          /\ done' = TRUE
          /\ PrintT(<<"VERDICT", Traces[tid].id, l - 1,
                      IF verdict # "" THEN verdict ELSE IF ~S.ended THEN "trace.incomplete" ELSE S.drift>>)
          /\ UNCHANGED <<tid, l, S, verdict>>
Next == Consume \/ Finish
Spec == Init /\ [][Next]_vars
=============================================================================
