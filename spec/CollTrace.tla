----------------------------- MODULE CollTrace -----------------------------
(***************************************************************************)
(* Level A trace specification of the time-series data layer:              *)
(*   C04  modified / valid / last-modified-time tell the truth, for the    *)
(*        producer and for every consumer, at every position of a shape;   *)
(*   C05  collection deltas are coherent with collection values.           *)
(*                                                                         *)
(* A trace is what the driver hgv_coll logged for graph 1 of one scenario: *)
(*   ops  - the mutation script of a cycle as the writer executed it       *)
(*   w    - the producer's own view of its output after the mutations      *)
(*   p    - what a probe (passive consumer, woken by its own scheduler in  *)
(*          EVERY cycle) read from its input: per position value, flags,   *)
(*          delta parts; at the root also capture_delta                    *)
(*   ret  - the run returned                                               *)
(* The specification needs nothing but the script: it keeps the abstract   *)
(* state of the shape (Delta.tla values plus the cycle of the last write   *)
(* per position), recomputes from it what every reader must see in every   *)
(* cycle - also in the cycles in which nothing happens - and names every   *)
(* disagreement.  A trace is judged completely: all broken clauses are     *)
(* reported (joined by ";"), not only the first.                           *)
(*                                                                         *)
(* Readings (DESIGN.md 6.2): an operation is a write even if it changes    *)
(* nothing (set-same, add of a present element); in the cycle of an        *)
(* invalidation only valid = FALSE is asserted for the invalidated         *)
(* position, its ancestors may or may not count it as a modification, and  *)
(* last-modified-time is constrained only while valid; invalidating a      *)
(* bundle / fixed list invalidates every position below it, and it becomes *)
(* valid again only through a later write below it; within one cycle       *)
(* erasing a dictionary key and creating it again continues the old child  *)
(* (the property fixes no meaning for that sequence; the delta must still  *)
(* explain the value).                                                     *)
(***************************************************************************)
EXTENDS Delta, Json, IOUtils

Traces == JsonDeserialize(IOEnv.TRACE_FILE)

VARIABLES tid, l, S, fails, firstBad, done
vars == <<tid, l, S, fails, firstBad, done>>

Put(f, k, v) == [x \in DOMAIN f \cup {k} |-> IF x = k THEN v ELSE f[x]]
Drop(f, k)   == [x \in DOMAIN f \ {k} |-> f[x]]
If(c, s)     == IF c THEN s ELSE {}

(***************************************************************************)
(* abstract state of a position: value + cycle of the last write (w) +     *)
(* cycle of the last invalidation (inv, leaves) / of the last invalidation *)
(* below (soft, parents); dictionaries remember the children erased in the *)
(* current cycle (grave)                                                   *)
(***************************************************************************)
IsLeaf(sh) == sh.k \in {"TS", "TSS", "TSW"}
IsDyn(sh)  == sh.k = "TSL" /\ "dyn" \in DOMAIN sh      \* dynamic list: grows to the largest index written (size sz)
Min2(a, b) == IF a < b THEN a ELSE b

RECURSIVE Fresh(_)
Fresh(sh) ==
    CASE sh.k = "TS"  -> [ok |-> FALSE, v |-> 0, w |-> 0, inv |-> 0]
      [] sh.k = "TSS" -> [ok |-> FALSE, v |-> {}, w |-> 0, inv |-> 0]
      [] sh.k = "TSW" -> [ok |-> FALSE, q |-> <<>>, w |-> 0, inv |-> 0]
      [] sh.k = "TSD" -> [ok |-> FALSE, ch |-> EmptyFn, grave |-> EmptyFn, pub |-> {}, gpub |-> {}, w |-> 0, soft |-> 0, kw |-> 0]
      [] OTHER        -> [ok |-> FALSE, ch |-> [i \in 1..NCh(sh) |-> Fresh(ChSh(sh, i))], w |-> 0, soft |-> 0, inv |-> 0,
                          sz |-> IF IsDyn(sh) THEN 0 ELSE NCh(sh)]

RECURSIVE ValOf(_, _)
ValOf(sh, m) ==
    CASE sh.k = "TS"  -> [ok |-> m.ok, v |-> IF m.ok THEN m.v ELSE 0]
      [] sh.k = "TSS" -> [ok |-> m.ok, v |-> m.v]
      [] sh.k = "TSW" -> [ok |-> m.ok, q |-> LastN(m.q, sh.n)]
      [] sh.k = "TSD" -> LET pub == {x \in DOMAIN m.ch : HasValue(sh.el, ValOf(sh.el, m.ch[x]))}
                         IN  [ok |-> m.ok, ch |-> [x \in pub |-> ValOf(sh.el, m.ch[x])]]
      [] OTHER        -> [ch |-> [i \in 1..NCh(sh) |-> ValOf(ChSh(sh, i), m.ch[i])]]

RECURSIVE WOf(_, _, _)
WOf(sh, m, t) ==
    CASE IsLeaf(sh)   -> [w |-> m.w = t]
      [] sh.k = "TSD" -> [w |-> m.w = t, ch |-> [x \in DOMAIN m.ch |-> WOf(sh.el, m.ch[x], t)]]
      [] OTHER        -> [w |-> m.w = t, ch |-> [i \in 1..NCh(sh) |-> WOf(ChSh(sh, i), m.ch[i], t)]]

RECURSIVE NewCycle(_, _)
NewCycle(sh, m) ==
    CASE IsLeaf(sh)   -> m
      [] sh.k = "TSD" -> [m EXCEPT !.grave = EmptyFn, !.gpub = {}, !.ch = [x \in DOMAIN m.ch |-> NewCycle(sh.el, m.ch[x])]]
      [] OTHER        -> [m EXCEPT !.ch = [i \in 1..NCh(sh) |-> NewCycle(ChSh(sh, i), m.ch[i])]]

(* invalidate(): the position and its statically indexed descendants lose their value (a position without a value is
   left alone; dictionaries and sets are leaves of the static structure) *)
RECURSIVE Kill(_, _, _)
Kill(sh, st, t) ==
    IF ~st.ok THEN st
    ELSE IF sh.k = "TSD" THEN st
    ELSE IF IsLeaf(sh) THEN [st EXCEPT !.ok = FALSE, !.inv = t]
    ELSE [st EXCEPT !.ok = FALSE, !.inv = t, !.ch = [i \in 1..NCh(sh) |-> Kill(ChSh(sh, i), st.ch[i], t)]]

(* one operation at the addressed position: result [st, wr (a write happened here/below), sf (an invalidation)] *)
Leaf(sh, st, op, t) ==
    LET a == IF Len(op.a) > 0 THEN op.a[1] ELSE 0
        W(s) == [st |-> s, wr |-> TRUE, sf |-> FALSE]
    IN
    CASE op.op = "set"   -> W([st EXCEPT !.ok = TRUE, !.v = a, !.w = t])
      [] op.op = "inv"   -> IF st.ok THEN [st |-> Kill(sh, st, t), wr |-> FALSE, sf |-> TRUE]
                            ELSE [st |-> st, wr |-> FALSE, sf |-> FALSE]
      [] op.op = "push"  -> W([st EXCEPT !.ok = TRUE, !.q = Append(@, a), !.w = t])
      [] op.op = "add"   -> W([st EXCEPT !.ok = TRUE, !.v = @ \cup {a}, !.w = t])
      [] op.op = "rem"   -> W([st EXCEPT !.ok = TRUE, !.v = @ \ {a}, !.w = t])
      [] op.op = "clr" /\ sh.k = "TSS" -> W([st EXCEPT !.ok = TRUE, !.v = {}, !.w = t])
      [] op.op = "touch" /\ sh.k = "TSD" -> W([st EXCEPT !.ok = TRUE, !.w = t, !.kw = IF @ = 0 THEN t ELSE @])
      [] op.op = "touch" -> W([st EXCEPT !.ok = TRUE, !.w = t])
      [] op.op = "clr" /\ sh.k = "TSD" ->
             W([st EXCEPT !.ok = TRUE, !.w = t, !.ch = EmptyFn, !.pub = {}, !.gpub = @ \cup st.pub,
                          !.kw = IF DOMAIN st.ch # {} THEN t ELSE @,
                          !.grave = [x \in DOMAIN st.grave \cup DOMAIN st.ch |-> IF x \in DOMAIN st.ch THEN st.ch[x] ELSE st.grave[x]]])
      [] op.op = "del"   -> IF a \in DOMAIN st.ch
                            THEN W([st EXCEPT !.ok = TRUE, !.w = t, !.kw = t, !.ch = Drop(@, a), !.grave = Put(@, a, st.ch[a]), !.pub = @ \ {a},
                                                !.gpub = IF a \in st.pub THEN @ \cup {a} ELSE @])
                            ELSE W([st EXCEPT !.ok = TRUE, !.w = t])
      [] op.op = "new"   -> IF a \in DOMAIN st.ch THEN [st |-> st, wr |-> FALSE, sf |-> FALSE]
                            ELSE LET c == IF a \in DOMAIN st.grave THEN st.grave[a] ELSE Fresh(sh.el)
                                 IN  W([st EXCEPT !.ok = TRUE, !.w = t, !.kw = t, !.grave = Drop(@, a), !.ch = Put(@, a, c),
                                                  \* a resurrected key is a member again if it was one when it was erased
                                                  !.pub = IF a \in st.gpub \/ HasValue(sh.el, ValOf(sh.el, c)) THEN @ \cup {a} ELSE @,
                                                  !.gpub = @ \ {a}])

RECURSIVE ApplyAt(_, _, _, _, _)
ApplyAt(sh, st, path, op, t) ==
    IF path = <<>> THEN Leaf(sh, st, op, t)
    ELSE LET p == Head(path) IN
         IF sh.k = "TSD"
         THEN LET live == p \in DOMAIN st.ch
                  c0   == IF live THEN st.ch[p] ELSE IF p \in DOMAIN st.grave THEN st.grave[p] ELSE Fresh(sh.el)
                  r    == ApplyAt(sh.el, c0, Tail(path), op, t)
                  wr   == r.wr \/ ~live
              IN  [st |-> [st EXCEPT !.ch = Put(@, p, r.st), !.grave = Drop(@, p), !.ok = @ \/ wr,
                                     !.pub = IF (~live /\ p \in st.gpub) \/ HasValue(sh.el, ValOf(sh.el, r.st)) THEN @ \cup {p} ELSE @,
                                     !.gpub = @ \ {p},
                                     !.kw = IF live THEN @ ELSE t,
                                     !.w = IF wr THEN t ELSE @, !.soft = IF r.sf THEN t ELSE @],
                   wr |-> wr, sf |-> r.sf]
         ELSE LET r == ApplyAt(ChSh(sh, p + 1), st.ch[p + 1], Tail(path), op, t)
              IN  [st |-> [st EXCEPT !.ch[p + 1] = r.st, !.ok = @ \/ r.wr, !.sz = IF @ < p + 1 THEN p + 1 ELSE @, !.w = IF r.wr THEN t ELSE @, !.soft = IF r.sf THEN t ELSE @],
                   wr |-> r.wr, sf |-> r.sf]

RECURSIVE RunOps(_, _, _, _, _)
RunOps(sh, st, ops, i, t) ==
    IF i > Len(ops) THEN st
    ELSE RunOps(sh, IF ops[i].ret < 0 THEN st ELSE ApplyAt(sh, st, ops[i].p, ops[i], t).st, ops, i + 1, t)

(***************************************************************************)
(* what a reader must see at one position; returns the set of broken       *)
(* clauses, each tagged with reader side, depth and kind                   *)
(***************************************************************************)
(* in the cycle of an invalidation the flags of the invalidated position and of its ancestors are not constrained *)
FreeAt(sh, cur, now) == IF IsLeaf(sh) THEN cur.inv = now
                        ELSE IF sh.k = "TSD" THEN cur.soft = now
                        ELSE cur.inv = now \/ cur.soft = now

Tag(c, side, depth, sh) == c \o "@" \o side \o (IF depth = 0 THEN ".root." ELSE ".child.") \o sh.k

RECURSIVE Cmp(_, _, _, _, _, _, _, _)
Cmp(sh, o, pre, cur, act, now, side, depth) ==
    LET T(c)   == Tag(c, side, depth, sh)
        fixed  == sh.k \in {"TSL", "TSB"}
        Em     == act /\ cur.w = now
        free   == act /\ FreeAt(sh, cur, now)
        Eok    == cur.ok
        okFree == FALSE
        lmts   == {cur.w} \cup (IF ~IsLeaf(sh) /\ cur.soft > cur.w THEN {cur.soft} ELSE {})
        flags  ==
            If(~free /\ o.m = 1 /\ ~Em, {T("C04.modified_true_without_write")})
            \cup If(~free /\ o.m = 0 /\ Em, {T("C04.modified_false_in_a_write_cycle")})
            \cup If(~okFree /\ o.ok = 1 /\ ~Eok, {T(IF cur.w = 0 THEN "C04.valid_before_first_write" ELSE "C04.valid_after_invalidation")})
            \cup If(~okFree /\ o.ok = 0 /\ Eok, {T("C04.invalid_although_written")})
            \cup If(Eok /\ o.ok = 1 /\ o.lmt \notin lmts, {T("C04.last_modified_time_is_not_the_latest_write_cycle")})
            \cup If(~Em /\ ~free /\ o.dv # <<>>, {T("C04.delta_readable_after_its_cycle")})
    IN
    flags \cup
    CASE sh.k = "TS" ->
            If(Eok /\ o.ok = 1 /\ o.v # cur.v, {T("C04.value_is_not_the_last_written")})
            \cup If(Em /\ ~free /\ cur.ok /\ o.dv # <<cur.v>>, {T("C04.delta_not_readable_in_its_cycle")})
      [] sh.k = "TSS" ->
            LET a == ToSet(o.a)  r == ToSet(o.r)  v == ToSet(o.v)
                coh == SetCoherence(pre.v, v, a, r)
            IN  If(coh # "", {T(coh)})
                \cup If(v # cur.v, {T("C05.value_is_not_the_net_effect_of_the_mutations")})
                \cup If(~Em /\ (a # {} \/ r # {}), {T("C04.delta_readable_after_its_cycle")})
                \cup If(Em /\ (o.dv = <<>> \/ (o.dv # <<>> /\ (ToSet(o.dv[1].a) # a \/ ToSet(o.dv[1].r) # r))),
                        {T("C05.delta_value_disagrees_with_added_and_removed")})
      [] sh.k = "TSW" ->
            If(o.v # LastN(cur.q, sh.n), {T("C05.window_is_not_last_n_pushes")})
            \cup If(o.av = 1 /\ Len(cur.q) < sh.min, {T("C05.window_valid_before_min_count")})
            \cup If(o.av = 0 /\ Len(cur.q) >= sh.min, {T("C05.window_not_valid_at_min_count")})
            \cup If(Em /\ o.dv # <<cur.q[Len(cur.q)]>>, {T("C05.window_delta_is_not_the_pushed_value")})
      [] fixed ->
            LET n  == Min2(NCh(sh), Len(o.ch))
                cm == \E i \in 1..n : o.ch[i].m = 1
            IN  UNION {Cmp(ChSh(sh, i), o.ch[i], pre.ch[i], cur.ch[i], act, now, side, depth + 1) : i \in 1..n}
                \cup If(Len(o.ch) # cur.sz \/ o.sz # cur.sz, {T("C05.list_size_is_not_the_net_effect_of_the_mutations")})
                \cup If(cm /\ o.m = 0, {T("C04.parent_not_modified_with_child")})
                \cup If(~cm /\ o.m = 1 /\ ~free, {T("C04.fixed_parent_modified_without_child")})
                \cup If(~free /\ ToSet(o.mi) # {i - 1 : i \in {j \in 1..n : o.ch[j].m = 1 /\ o.ch[j].ok = 1}},
                        {T("C04.modified_items_disagree_with_child_flags")})
      [] sh.k = "TSD" ->
            LET ks  == ToSet(o.ks)  a == ToSet(o.a)  r == ToSet(o.r)  mk == ToSet(o.mk)
                f   == PairsFn(o.ch)
                pubO == {x \in ks : HasValue(sh.el, ObsVal(sh.el, f[x]))}
                \* membership for added / removed: a key belongs to the dictionary from its first value until it is erased
                \* (a child that is invalidated stays a member: it is neither added nor removed)
                coh == IF free THEN "" ELSE SetCoherence(pre.pub, cur.pub, a, r)
                cm  == \E x \in ks : f[x].m = 1
                both == ks \cap DOMAIN cur.ch
            IN  UNION {Cmp(sh.el, f[x], IF x \in DOMAIN pre.ch THEN pre.ch[x] ELSE Fresh(sh.el), cur.ch[x], act, now, side, depth + 1) : x \in both}
                \cup If(coh # "", {T(coh)})
                \cup If(ks # DOMAIN cur.ch, {T("C05.keys_are_not_the_net_effect_of_the_mutations")})
                \cup If(cm /\ o.m = 0, {T("C04.parent_not_modified_with_child")})
                \cup If(~free /\ mk # {x \in pubO : f[x].m = 1}, {T("C04.modified_items_disagree_with_child_flags")})
                \cup If(~Em /\ ~free /\ (a \cup r \cup mk) # {}, {T("C04.delta_readable_after_its_cycle")})

(* delta surfaces of the root (delta_value on both sides, capture_delta on the consumer side) against the algebra *)
RootDelta(sh, o, dj, pre, cur, act, now, what) ==
    LET Em == act /\ cur.w = now
        soft == FreeAt(sh, cur, now)
    IN  IF ~Em \/ soft \/ dj = <<>> THEN {}
        ELSE LET d  == FromJ(sh, dj[1])
                 pv == ValOf(sh, pre)
                 ex == Capture(sh, pv, ValOf(sh, cur), WOf(sh, cur, now))
                 \* a removed key whose child had been invalidated before carries no value change
                 dt == IF sh.k = "TSD" THEN [d EXCEPT !.r = @ \cap DOMAIN pv.ch] ELSE d
             IN  If(~SameV(sh, Apply(sh, pv, d), ObsVal(sh, o)), {"C05.value_is_not_previous_plus_delta@" \o what})
                 \cup If(NormD(sh, dt) # NormD(sh, ex), {"C05.delta_is_not_the_net_effect_of_the_mutations@" \o what})

(* consumer against producer in the same cycle *)
RECURSIVE CmpPW(_, _, _, _, _, _)
CmpPW(sh, p, w, cur, now, depth) ==
    LET T(c) == "C04.consumer_disagrees_with_producer@" \o c \o (IF depth = 0 THEN ".root." ELSE ".child.") \o sh.k
        free == FreeAt(sh, cur, now)
        base == If(~free /\ p.m # w.m, {T("modified")})
                \cup If(p.ok # w.ok, {T("valid")})
                \cup If(~free /\ p.ok = 1 /\ w.ok = 1 /\ p.lmt # w.lmt, {T("last_modified_time")})
                \cup If(~free /\ (p.dv = <<>>) # (w.dv = <<>>), {T("delta")})
    IN  base \cup
        CASE sh.k = "TS"  -> If(p.ok = 1 /\ w.ok = 1 /\ p.v # w.v, {T("value")})
          [] sh.k = "TSS" -> If(p.v # w.v, {T("value")}) \cup If(p.a # w.a \/ p.r # w.r, {T("added_removed")})
          [] sh.k = "TSW" -> If(p.v # w.v, {T("value")})
          [] sh.k = "TSD" -> LET fp == PairsFn(p.ch)  fw == PairsFn(w.ch)
                                 both == DOMAIN fp \cap DOMAIN fw \cap DOMAIN cur.ch
                             IN  If(p.ks # w.ks, {T("keys")}) \cup If(p.a # w.a \/ p.r # w.r \/ p.mk # w.mk, {T("added_removed_modified")})
                                 \cup UNION {CmpPW(sh.el, fp[x], fw[x], cur.ch[x], now, depth + 1) : x \in both}
          [] OTHER -> If(p.mi # w.mi, {T("modified_items")}) \cup If(Len(p.ch) # Len(w.ch), {T("size")})
                      \cup UNION {CmpPW(ChSh(sh, i), p.ch[i], w.ch[i], cur.ch[i], now, depth + 1) : i \in 1..Min2(NCh(sh), Min2(Len(p.ch), Len(w.ch)))}

(***************************************************************************)
(* events                                                                  *)
(***************************************************************************)
Shape == Traces[tid].prog.shape
RootFree(cur, act, now) == act /\ FreeAt(Shape, cur, now)

InitS == [t |-> 0, pre |-> Fresh(Shape), cur |-> Fresh(Shape), w |-> <<>>, wt |-> 0, ended |-> FALSE]

Res(s, f) == [S |-> s, f |-> f]

OnOps(e) ==
    IF e.t <= S.t THEN Res(S, {"trace.cycles_out_of_order"})
    ELSE LET p == NewCycle(Shape, S.cur)
         IN  Res([S EXCEPT !.t = e.t, !.pre = p, !.cur = RunOps(Shape, p, e.ops, 1, e.t)],
                 If(\E i \in DOMAIN e.ops : e.ops[i].ret < 0, {"harness.operation_rejected_by_the_api"}))

View(e) == LET act == S.t = e.t IN [act |-> act, pre |-> IF act THEN S.pre ELSE NewCycle(Shape, S.cur), cur |-> IF act THEN S.cur ELSE NewCycle(Shape, S.cur)]

OnW(e) ==
    LET v == View(e)
    IN  Res([S EXCEPT !.w = e.o, !.wt = e.t],
            Cmp(Shape, e.o, v.pre, v.cur, v.act, e.t, "producer", 0)
            \cup RootDelta(Shape, e.o, e.o.dv, v.pre, v.cur, v.act, e.t, "producer.delta_value"))

OnP(e) ==
    LET v == View(e)
    IN  Res(S,
            Cmp(Shape, e.o, v.pre, v.cur, v.act, e.t, "consumer", 0)
            \cup RootDelta(Shape, e.o, e.o.dv, v.pre, v.cur, v.act, e.t, "consumer.delta_value")
            \cup RootDelta(Shape, e.o, e.cap, v.pre, v.cur, v.act, e.t, "consumer.capture_delta")
            \cup If(~(v.act /\ v.cur.w = e.t) /\ ~RootFree(v.cur, v.act, e.t) /\ e.cap # <<>>,
                    {"C04.delta_readable_after_its_cycle@consumer.capture_delta"})
            \cup (IF S.wt = e.t THEN CmpPW(Shape, e.o, S.w, v.cur, e.t, 0) ELSE {}))

(* the key set of a dictionary (keys_ projection, probe 5): written exactly when a key is inserted or erased (an erase of an
   absent key, a value tick, a clear of an empty dictionary do not write it; the first touch validates it); its added / removed
   follow the dictionary's membership; keys without a value may or may not show in its value *)
OnK(e) ==
    LET v   == View(e)
        cur == v.cur
        o   == e.o
        Em  == v.act /\ cur.kw = e.t
        a   == ToSet(o.a)  r == ToSet(o.r)  val == ToSet(o.v)
        T(c) == c \o "@consumer.keyset"
        coh == IF Em THEN SetCoherence(v.pre.pub, cur.pub, a, r) ELSE ""
    IN  IF Shape.k # "TSD" THEN Res(S, {})
        ELSE Res(S,
             If(o.m = 1 /\ ~Em, {T("C04.modified_true_without_write")})
             \cup If(o.m = 0 /\ Em, {T("C04.modified_false_in_a_write_cycle")})
             \cup If(o.ok = 1 /\ cur.kw = 0, {T("C04.valid_before_first_write")})
             \cup If(o.ok = 0 /\ cur.kw > 0, {T("C04.invalid_although_written")})
             \cup If(o.ok = 1 /\ cur.kw > 0 /\ o.lmt # cur.kw, {T("C04.last_modified_time_is_not_the_latest_write_cycle")})
             \cup If(~Em /\ (a # {} \/ r # {} \/ o.dv # <<>> \/ e.cap # <<>>), {T("C04.delta_readable_after_its_cycle")})
             \cup If(coh # "", {T(coh)})
             \cup If(~(cur.pub \subseteq val /\ val \subseteq DOMAIN cur.ch), {T("C05.keys_are_not_the_net_effect_of_the_mutations")}))

OnRet(e) == Res([S EXCEPT !.ended = TRUE], If(e.ok # 1, {"run_raised_an_exception"}))

Step(e) == CASE e.e = "ops" -> OnOps(e)
             [] e.e = "w"   -> OnW(e)
             [] e.e = "p"   -> OnP(e)
             [] e.e = "k"   -> OnK(e)
             [] e.e = "ret" -> OnRet(e)
             [] OTHER       -> Res(S, {})

RECURSIVE Join(_)
Join(ss) == IF ss = {} THEN ""
            ELSE LET x == CHOOSE y \in ss : TRUE
                 IN  IF ss = {x} THEN x ELSE x \o ";" \o Join(ss \ {x})

Init == /\ tid \in 1..Len(Traces) /\ l = 1 /\ S = InitS /\ fails = {} /\ firstBad = 0 /\ done = FALSE

Consume == /\ ~done /\ l <= Len(Traces[tid].ev)
           /\ LET r == Step(Traces[tid].ev[l])
              IN  /\ S' = r.S
                  /\ fails' = fails \cup r.f
                  /\ firstBad' = IF firstBad = 0 /\ r.f # {} THEN l ELSE firstBad
           /\ l' = l + 1
           /\ UNCHANGED <<tid, done>>

Finish == /\ ~done /\ l > Len(Traces[tid].ev)
          /\ done' = TRUE
          /\ PrintT(<<"VERDICT", Traces[tid].id, IF firstBad = 0 THEN l - 1 ELSE firstBad - 1,
                      IF fails = {} /\ ~S.ended THEN "trace.incomplete" ELSE Join(fails)>>)
          /\ UNCHANGED <<tid, l, S, fails, firstBad>>

Next == Consume \/ Finish
Spec == Init /\ [][Next]_vars
=============================================================================
