---------------------------- MODULE RefDictTrace ----------------------------
(***************************************************************************)
(* Level A trace specification of reading a dictionary time-series through *)
(* a reference (C13, keyed shapes).  A selector publishes a reference to   *)
(* one of two dictionaries; a consumer below the reference records, per    *)
(* tick, the value it sees and the delta (modified items, added keys,      *)
(* removed keys).  Both dictionaries are recorded directly as well, so the *)
(* specification knows the true contents and deltas of every target.       *)
(*                                                                         *)
(*   - whenever the consumer ticks, the value it sees is the current       *)
(*     contents of the currently referenced dictionary;                    *)
(*   - the consumer ticks exactly when the referenced dictionary ticks or  *)
(*     the reference is retargeted to a (valid) dictionary; ticks of the   *)
(*     dictionary that is not selected never reach it; republishing the    *)
(*     same selection is not a tick;                                       *)
(*   - without a retarget the consumer's delta is the target's own delta;  *)
(*   - on a retarget the delta is the difference between what the consumer *)
(*     had seen and the new contents: added = new \ seen, removed =        *)
(*     seen \ new, and every key of the new contents whose value differs   *)
(*     from what was seen is reported modified (the implementation samples *)
(*     all live children as modified: accepted).                           *)
(* Events (prog: sel, tgt1, tgt2, cons = recorder / source ids):           *)
(*   fn of the selector source (value written), drec of tgt1/tgt2/cons.    *)
(* Within one cycle the selector source and the targets are recorded       *)
(* before the consumer (they are its producers).                           *)
(***************************************************************************)
EXTENDS Integers, Sequences, FiniteSets, TLC, Json, IOUtils

Traces == JsonDeserialize(IOEnv.TRACE_FILE)
VARIABLES tid, l, S, verdict, done
vars == <<tid, l, S, verdict, done>>
Ok(s)   == [S |-> s, why |-> ""]
Fail(c) == [S |-> S, why |-> c]
RECURSIVE FirstFail(_, _)
FirstFail(cs, k) == IF k > Len(cs) THEN "" ELSE IF ~cs[k][2] THEN cs[k][1] ELSE FirstFail(cs, k + 1)

P == Traces[tid].prog
Keys(v)  == {v[j][1] : j \in 1..Len(v)}
AsSet(v) == {v[j] : j \in 1..Len(v)}
ToSet(s) == {s[j] : j \in 1..Len(s)}

InitS == [ sel   |-> 0,        \* published selection: 0 none, 1 / 2
           selT  |-> 0,        \* time the selection last changed
           val   |-> << <<>>, <<>> >>,   \* last recorded contents of the two dictionaries
           tick  |-> <<0, 0>>,           \* time of the last tick of each dictionary
           last  |-> << [mod |-> <<>>, add |-> <<>>, rem |-> <<>>], [mod |-> <<>>, add |-> <<>>, rem |-> <<>>] >>,
           seen  |-> <<>>,     \* contents the consumer saw at its last tick
           ctick |-> 0,        \* time of the consumer's last tick
           pend  |-> 0,        \* time at which the consumer is owed a tick (0 = none)
           ended |-> FALSE ]

\* the consumer must have ticked in every cycle in which it was owed a tick: checked when a later cycle begins
Owed(s, t) == s.pend # 0 /\ s.pend < t /\ s.ctick # s.pend

OnSel(e) ==
    IF Owed(S, e.t) THEN Fail("C13.consumer_not_evaluated_when_target_ticked_or_reference_retargeted")
    ELSE LET want == IF e.out # 0 THEN 1 ELSE 2
         IN  IF e.w # 1 \/ want = S.sel THEN Ok(S)          \* same selection republished: not a tick
             ELSE IF S.tick[want] # 0                        \* retarget to a dictionary that holds a value
                  THEN Ok([S EXCEPT !.sel = want, !.selT = e.t, !.pend = e.t])
                  ELSE Ok([S EXCEPT !.sel = want, !.selT = e.t])

OnTarget(e, k) ==
    IF Owed(S, e.t) THEN Fail("C13.consumer_not_evaluated_when_target_ticked_or_reference_retargeted")
    ELSE LET s1 == [S EXCEPT !.val[k] = e.val, !.tick[k] = e.t, !.last[k] = [mod |-> e.mod, add |-> e.add, rem |-> e.rem]]
         IN  IF S.sel = k /\ (e.mod # <<>> \/ e.add # <<>> \/ e.rem # <<>>) THEN Ok([s1 EXCEPT !.pend = e.t]) ELSE Ok(s1)

OnConsumer(e) ==
    LET k == S.sel
        retarget == S.selT = e.t
        why == FirstFail(<<
          <<"C13.consumer_ticked_without_a_reference", k # 0>>,
          <<"C13.consumer_ticked_although_neither_its_target_ticked_nor_the_reference_changed",
                k = 0 \/ S.tick[k] = e.t \/ retarget>>,
          <<"C13.value_is_not_the_current_value_of_the_referenced_target", k = 0 \/ e.val = S.val[k]>>,
          <<"C13.delta_is_not_the_delta_of_the_referenced_target",
                k = 0 \/ retarget \/ (e.mod = S.last[k].mod /\ e.add = S.last[k].add /\ e.rem = S.last[k].rem)>>,
          <<"C13.retarget_added_is_not_new_minus_old_contents",
                ~retarget \/ ToSet(e.add) = Keys(e.val) \ Keys(S.seen)>>,
          <<"C13.retarget_removed_is_not_old_minus_new_contents",
                ~retarget \/ ToSet(e.rem) = Keys(S.seen) \ Keys(e.val)>>,
          <<"C13.retarget_does_not_report_changed_items_as_modified",
                ~retarget \/ (AsSet(e.val) \ AsSet(S.seen)) \subseteq AsSet(e.mod)>>,
          <<"C13.modified_items_are_not_items_of_the_value", AsSet(e.mod) \subseteq AsSet(e.val)>> >>, 1)
    IN IF why # "" THEN Fail(why) ELSE Ok([S EXCEPT !.seen = e.val, !.ctick = e.t])

OnRet(e) == IF e.ok # 1 THEN Fail("run_raised_an_exception")
            ELSE IF S.pend # 0 /\ S.ctick # S.pend THEN Fail("C13.consumer_not_evaluated_when_target_ticked_or_reference_retargeted")
            ELSE Ok([S EXCEPT !.ended = TRUE])

Step(e) == CASE e.e = "fn" /\ e.id = P.sel     -> OnSel(e)
             [] e.e = "drec" /\ e.id = P.tgt1  -> OnTarget(e, 1)
             [] e.e = "drec" /\ e.id = P.tgt2  -> OnTarget(e, 2)
             [] e.e = "drec" /\ e.id = P.cons  -> OnConsumer(e)
             [] e.e = "ret"                    -> OnRet(e)
             [] OTHER                          -> Ok(S)

Init == /\ tid \in 1..Len(Traces) /\ l = 1 /\ S = InitS /\ verdict = "" /\ done = FALSE
Consume == /\ ~done /\ verdict = "" /\ l <= Len(Traces[tid].ev)
           /\ LET r == Step(Traces[tid].ev[l]) IN S' = r.S /\ verdict' = r.why
           /\ l' = l + 1 /\ UNCHANGED <<tid, done>>
Finish == /\ ~done /\ (verdict # "" \/ l > Len(Traces[tid].ev))
          /\ done' = TRUE
          /\ PrintT(<<"VERDICT", Traces[tid].id, l - 1, IF verdict = "" /\ ~S.ended THEN "trace.incomplete" ELSE verdict>>)
          /\ UNCHANGED <<tid, l, S, verdict>>
Next == Consume \/ Finish
Spec == Init /\ [][Next]_vars
=============================================================================
