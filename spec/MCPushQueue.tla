---------------------------- MODULE MCPushQueue ----------------------------
EXTENDS PushQueue
Unbounded == 0          \* max_pending = 0 means no bound, as in the code
CapsQuick    == {Unbounded, 1}
CapsFull     == {Unbounded, 1, 2}
AllPolicies  == {"queue", "burst", "conf"}
QueueOnly    == {"queue"}
BothKinds    == {"try", "block"}
TryOnly      == {"try"}
BlockOnly    == {"block"}
P1 == {1}
P2 == {1, 2}
=============================================================================
