---------------------------- MODULE MCPushQueue ----------------------------
EXTENDS PushQueue, IOUtils
Unbounded == 0          \* max_pending = 0 means no bound, as in the code
CapUnbounded == {Unbounded}
CapsQuick    == {Unbounded, 1}
CapsFull     == {Unbounded, 1, 2}
AllPolicies  == {"queue", "burst", "conf", "confd"}
ConfdOnly    == {"confd"}
QueueOnly    == {"queue"}
BothKinds    == {"try", "block"}
TryOnly      == {"try"}
BlockOnly    == {"block"}
StopAny == {0}
StopLate == {0, 4, 8, 12, 16, 22, 30}
MutantUnderTest == IOEnv.PQ_MUTANT
P1 == {1}
P2 == {1, 2}
=============================================================================
