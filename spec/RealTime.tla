------------------------------ MODULE RealTime ------------------------------
(***************************************************************************)
(* Level B model of the real-time run loop (src/hgraph/runtime/executor.cpp *)
(* run_storage + advance_realtime, realtime_mark_push_update_pending_impl,  *)
(* realtime_request_stop_impl) with wall-clock alarms                      *)
(* (include/hgraph/runtime/node_scheduler.h schedule(..., on_wall_clock)).  *)
(*                                                                         *)
(* advance_realtime is split into the steps between which another thread   *)
(* or the clock can act:                                                   *)
(*   Head        loop head of run_storage: stop flag, next scheduled time  *)
(*   ReadWall    wall_now = current_wall_time()                            *)
(*   Lock        take the executor mutex                                   *)
(*   Check       while (wall_now < target && !wake_requested())            *)
(*   WaitSlice   wait_for(min(target - wall_now, slice)) - releases mutex  *)
(*   Notified | Spurious | SliceTimeout  - re-take the mutex, predicate    *)
(*   Compute     next = min(target, max(wall_now, previous + 1)); drain    *)
(*   Cycle       reset the push flag, evaluate what is scheduled at `next` *)
(* mark_push_update_pending and request_stop are Lock;set;Unlock then      *)
(* Notify.  The wall clock is advanced by the environment by any amount,   *)
(* also past the target and past the end.  Timer nodes are environment     *)
(* choices too: initial wake-ups and, in every cycle, new relative         *)
(* wake-ups and wall-clock alarms (possibly already due).                  *)
(*                                                                         *)
(* Level A (C17) is stated over the history as invariants; `bad` records   *)
(* the clause an action violated at its decision point.                    *)
(***************************************************************************)
EXTENDS Integers, Sequences, FiniteSets, TLC, Json

CONSTANTS MaxWall,      \* wall clock 0..MaxWall
          End,          \* end time (start time = 0)
          Wall0s,       \* possible wall clock values at run start (> 0: the start is in the past)
          Slice,        \* max_wait_slice
          DrainBound,   \* max_immediate_drain_cycles (1024 in the code)
          InitTimes,    \* candidate initial wake-up times
          MaxInit,      \* at most this many initial wake-ups
          MaxReq,       \* requests the timer nodes may add during the run
          NPush,        \* pushes by the producer thread
          WithStopper,
          AllowSpurious,
          History,      \* record the history variables (FALSE in liveness configurations: no VIEW is possible there)
          SetUnderMutex, \* FALSE = mutant: flags are set and notified without taking the mutex (vacuity check)
          Emit

VARIABLES wall, evalTime, pend, pushPending, stopReq, mutex, consec,
          epc, wallNow, target, deadline, woken,
          mpc, npush, spc, nreq,
          cycles,     \* history: <<[t, w]>>
          script,     \* history for scenario export: initial requests, requests per cycle, clock jumps, pushes, stop
          stopDone,   \* a stop request has returned to its caller
          afterStop,  \* cycles begun after that
          cut, bad

vars == <<wall, evalTime, pend, pushPending, stopReq, mutex, consec, epc, wallNow, target, deadline, woken,
          mpc, npush, spc, nreq, cycles, script, stopDone, afterStop, cut, bad>>
NoHist == <<wall, evalTime, pend, pushPending, stopReq, mutex, consec, epc, wallNow, target, deadline, woken,
            mpc, npush, spc, nreq, stopDone, afterStop, cut, bad, IF cycles = <<>> THEN -1 ELSE cycles[Len(cycles)].t>>

Min(a, b) == IF a <= b THEN a ELSE b
Max(a, b) == IF a >= b THEN a ELSE b
MinOf(S) == CHOOSE x \in S : \A y \in S : x <= y
Times == {p[1] : p \in pend}
WakeRequested == pushPending \/ stopReq
Log(x) == script' = IF History THEN Append(script, x) ELSE script

(***************************************************************************)
(* The evaluation thread                                                   *)
(***************************************************************************)
Others == UNCHANGED <<mpc, npush, spc, stopDone>>

\* run_storage loop head
LoopHead ==
        /\ epc = "head"
        /\ IF stopReq THEN epc' = "done" /\ UNCHANGED target
           ELSE /\ epc' = "readwall"
                /\ target' = LET nx == {t \in Times : t > evalTime \/ (cycles = <<>> /\ t = evalTime)}
                             IN  IF nx = {} \/ MinOf(nx) >= End THEN End ELSE MinOf(nx)
        /\ UNCHANGED <<wall, evalTime, pend, pushPending, stopReq, mutex, consec, wallNow, deadline, woken, nreq, cycles, script, afterStop, cut, bad>>
        /\ Others

ReadWall == /\ epc = "readwall"
            /\ wallNow' = wall /\ epc' = "lock"
            /\ UNCHANGED <<wall, evalTime, pend, pushPending, stopReq, mutex, consec, target, deadline, woken, nreq, cycles, script, afterStop, cut, bad>>
            /\ Others

Lock == /\ epc = "lock" /\ mutex = "free"
        /\ mutex' = "e" /\ epc' = "check"
        /\ UNCHANGED <<wall, evalTime, pend, pushPending, stopReq, consec, wallNow, target, deadline, woken, nreq, cycles, script, afterStop, cut, bad>>
        /\ Others

\* loop condition, mutex held
Check == /\ epc = "check"
         /\ IF wallNow < target /\ ~WakeRequested THEN epc' = "waitslice" /\ UNCHANGED mutex
            ELSE epc' = "compute" /\ mutex' = "free"
         /\ UNCHANGED <<wall, evalTime, pend, pushPending, stopReq, consec, wallNow, target, deadline, woken, nreq, cycles, script, afterStop, cut, bad>>
         /\ Others

\* wait_for(lock, min(target - wall_now, slice), pred): atomically releases the mutex and starts waiting
WaitSlice == /\ epc = "waitslice"
             /\ mutex' = "free" /\ epc' = "waiting" /\ woken' = FALSE
             /\ deadline' = Min(MaxWall, wall + Min(target - wallNow, Slice))   \* (clamped: the model's clock is bounded)
             \* level A: the loop goes to sleep only when nothing has been signalled
             /\ bad' = IF bad = "" /\ WakeRequested THEN "C17.notification_lost_while_waiting" ELSE bad
             /\ UNCHANGED <<wall, evalTime, pend, pushPending, stopReq, consec, wallNow, target, nreq, cycles, script, afterStop, cut>>
             /\ Others

\* woken by notify_all (or spuriously): re-take the mutex and evaluate the predicate; false -> keep waiting
Rewake(sp) == /\ epc = "waiting" /\ mutex = "free" /\ (woken \/ sp)
              /\ woken' = FALSE
              /\ IF WakeRequested THEN epc' = "compute" /\ wallNow' = wall
                 ELSE UNCHANGED <<epc, wallNow>>
              /\ UNCHANGED <<wall, evalTime, pend, pushPending, stopReq, mutex, consec, target, deadline, nreq, cycles, script, afterStop, cut, bad>>
              /\ Others
Notified == Rewake(FALSE)
Spurious == AllowSpurious /\ Rewake(TRUE)

\* the slice elapsed: wait_for returns pred(); wall_now is refreshed; false -> back to the loop condition with the mutex held
SliceTimeout == /\ epc = "waiting" /\ mutex = "free" /\ wall >= deadline
                /\ wallNow' = wall /\ woken' = FALSE
                /\ IF WakeRequested THEN epc' = "compute" /\ UNCHANGED mutex
                   ELSE epc' = "check" /\ mutex' = "e"
                /\ UNCHANGED <<wall, evalTime, pend, pushPending, stopReq, consec, target, deadline, nreq, cycles, script, afterStop, cut, bad>>
                /\ Others

\* next = min(target, max(wall_now, previous + 1)), the drain bound, then run_storage's exit test
Compute == /\ epc = "compute"
           /\ LET nextCycle == evalTime + 1
                  nxt == Min(target, Max(wallNow, nextCycle))
                  drain == wallNow >= End /\ nxt <= nextCycle /\ consec >= DrainBound
                  t == IF drain THEN End ELSE nxt
              IN /\ evalTime' = t
                 /\ cut' = (cut \/ drain)
                 /\ IF stopReq \/ t >= End
                    THEN /\ epc' = "done" /\ UNCHANGED <<consec, cycles, afterStop>>
                         /\ bad' = IF bad # "" THEN bad
                                   \* nothing scheduled before the end may be dropped, except by a stop request or the sanctioned cut
                                   ELSE IF ~stopReq /\ ~drain /\ (\E p \in pend : p[1] < End)
                                        THEN "C17.wakeup_dropped_before_end"
                                   \* (the monotonic floor may carry the evaluation time to the end one smallest step before the wall clock)
                                   ELSE IF ~stopReq /\ wallNow < End /\ evalTime + 1 < End THEN "C17.run_returned_before_end_time_without_stop"
                                   ELSE ""
                    ELSE /\ epc' = "cycle"
                         /\ consec' = IF t = evalTime + 1 THEN consec + 1 ELSE 0
                         /\ cycles' = IF History THEN Append(cycles, [t |-> t, w |-> wall]) ELSE << [t |-> t, w |-> wall] >>
                         /\ afterStop' = IF stopDone THEN afterStop + 1 ELSE afterStop
                         /\ bad' = IF bad # "" THEN bad
                                   ELSE IF cycles # <<>> /\ t <= evalTime THEN "C17.time_not_strictly_increasing"
                                   ELSE IF wall < t /\ t # evalTime + 1 THEN "C17.evaluated_before_wall_clock_reached_T"
                                   ELSE IF \E p \in pend : p[1] < t THEN "C17.scheduled_time_skipped"
                                   ELSE IF stopDone /\ afterStop >= 1 THEN "C17.ran_on_after_stop_request"
                                   ELSE ""
           /\ UNCHANGED <<wall, pend, pushPending, stopReq, mutex, wallNow, target, deadline, woken, nreq, script>>
           /\ Others

\* what the scheduler registers for a wall-clock alarm asked for at evaluation time t
AlarmTime(t, want) == IF want <= Max(t, wall) THEN Max(t + 1, Max(t, wall)) ELSE want

\* one evaluation cycle: reset the push flag (its own critical section), evaluate the nodes scheduled now; the timer
\* nodes may ask for one more wake-up
Cycle == /\ epc = "cycle" /\ mutex = "free"
         /\ pushPending' = FALSE
         /\ \/ /\ pend' = {p \in pend : p[1] # evalTime} /\ UNCHANGED nreq
               /\ Log([k |-> "cycle", t |-> evalTime, req |-> "none", d |-> 0])
            \/ /\ nreq < MaxReq /\ evalTime \in Times
               /\ \E d \in {1, 2} :
                    /\ pend' = {p \in pend : p[1] # evalTime} \cup {<<evalTime + d, "rel">>}
                    /\ Log([k |-> "cycle", t |-> evalTime, req |-> "rel", d |-> d])
               /\ nreq' = nreq + 1
            \/ /\ nreq < MaxReq /\ evalTime \in Times
               /\ \E d \in {-1, 1, 3} :
                    /\ pend' = {p \in pend : p[1] # evalTime} \cup {<<AlarmTime(evalTime, wall + d), "wall">>}
                    /\ Log([k |-> "cycle", t |-> evalTime, req |-> "wall", d |-> d])
               /\ nreq' = nreq + 1
         /\ epc' = "head"
         /\ UNCHANGED <<wall, evalTime, stopReq, mutex, consec, wallNow, target, deadline, woken, cycles, afterStop, cut, bad>>
         /\ Others

(***************************************************************************)
(* Producer (mark_push_update_pending) and stopper (request_stop)          *)
(***************************************************************************)
EvalUnch == UNCHANGED <<wall, evalTime, pend, consec, epc, wallNow, target, deadline, nreq, cycles, afterStop, cut, bad>>

MarkSet == /\ mpc = "idle" /\ npush < NPush /\ (SetUnderMutex => mutex = "free")
           /\ pushPending' = IF stopReq THEN pushPending ELSE TRUE
           /\ mpc' = "notify" /\ npush' = npush + 1
           /\ Log([k |-> "push", t |-> evalTime, req |-> "none", d |-> 0])
           /\ UNCHANGED <<stopReq, mutex, woken, spc, stopDone>> /\ EvalUnch
MarkNotify == /\ mpc = "notify"
              /\ woken' = (woken \/ epc = "waiting")
              /\ mpc' = "idle"
              /\ UNCHANGED <<pushPending, stopReq, mutex, npush, spc, stopDone, script>> /\ EvalUnch

StopSet == /\ WithStopper /\ spc = "idle" /\ (SetUnderMutex => mutex = "free")
           /\ stopReq' = TRUE /\ spc' = "notify"
           /\ Log([k |-> "stop", t |-> evalTime, req |-> "none", d |-> 0])
           /\ UNCHANGED <<pushPending, mutex, woken, mpc, npush, stopDone>> /\ EvalUnch
StopNotify == /\ spc = "notify"
              /\ woken' = (woken \/ epc = "waiting")
              /\ spc' = "done" /\ stopDone' = TRUE
              /\ UNCHANGED <<pushPending, stopReq, mutex, mpc, npush, script>> /\ EvalUnch

\* the environment: the wall clock moves on by any amount
Tick == /\ wall < MaxWall /\ epc # "done"
        /\ \E w \in (wall + 1)..MaxWall : wall' = w /\ Log([k |-> "tick", t |-> evalTime, req |-> "none", d |-> w - wall])
        /\ UNCHANGED <<evalTime, pend, pushPending, stopReq, mutex, consec, epc, wallNow, target, deadline, woken, mpc, npush, spc, nreq,
                       cycles, stopDone, afterStop, cut, bad>>

Finish == /\ epc = "done" /\ Emit /\ bad # "emitted"
          /\ PrintT(<<"RT", ToJson([end |-> End, script |-> script, cycles |-> cycles, cut |-> cut, bad |-> bad])>>)
          /\ bad' = "emitted"
          /\ UNCHANGED <<wall, evalTime, pend, pushPending, stopReq, mutex, consec, epc, wallNow, target, deadline, woken,
                         mpc, npush, spc, nreq, cycles, script, stopDone, afterStop, cut>>

Init == /\ wall \in Wall0s /\ evalTime = 0
        /\ \E S \in SUBSET InitTimes : Cardinality(S) <= MaxInit /\ pend = {<<t, "abs">> : t \in S}
        /\ pushPending = FALSE /\ stopReq = FALSE /\ mutex = "free" /\ consec = 0
        /\ epc = "head" /\ wallNow = 0 /\ target = 0 /\ deadline = 0 /\ woken = FALSE
        /\ mpc = "idle" /\ npush = 0 /\ spc = "idle" /\ nreq = 0
        /\ cycles = <<>> /\ stopDone = FALSE /\ afterStop = 0 /\ cut = FALSE /\ bad = ""
        /\ script = << [k |-> "init", t |-> wall, req |-> "abs", d |-> 0, s |-> {p[1] : p \in pend}] >>

EvalNext == LoopHead \/ ReadWall \/ Lock \/ Check \/ WaitSlice \/ Notified \/ Spurious \/ SliceTimeout \/ Compute \/ Cycle
Next == EvalNext \/ MarkSet \/ MarkNotify \/ StopSet \/ StopNotify \/ Tick \/ Finish
Spec == Init /\ [][Next]_vars
\* liveness: the evaluation thread and the notifiers are scheduled fairly and the clock keeps moving
FairSpec == Init /\ [][Next]_vars /\ WF_vars(EvalNext) /\ WF_vars(MarkNotify) /\ WF_vars(StopNotify) /\ WF_vars(Tick)

----------------------------------------------------------------------------
(* Level A: C17 *)
DecisionsOK == bad \in {"", "emitted"}
TimeIncreases == \A i \in 1..(Len(cycles) - 1) : cycles[i].t < cycles[i + 1].t
NotEarly == \A i \in 1..Len(cycles) : cycles[i].w >= cycles[i].t \/ cycles[i].t = (IF i = 1 THEN 0 ELSE cycles[i - 1].t) + 1
BeforeEnd == \A i \in 1..Len(cycles) : cycles[i].t < End
StopBound == afterStop <= 1
\* no lost notification: a waiting loop that has been signalled has been (or is about to be) notified - it cannot sleep on
NoLostNotification == (epc = "waiting" /\ WakeRequested) => (woken \/ mpc = "notify" \/ spc = "notify")
\* level B coherence: the mutex is held exactly in the steps that need it
MutexOK == (mutex = "e") <=> (epc \in {"check", "waitslice"})
\* liveness
StopEndsRun == stopReq ~> (epc = "done")
PushIsServed == (pushPending /\ ~stopReq) ~> (~pushPending \/ stopReq \/ epc = "done")
RunEnds == (wall >= End) ~> (epc = "done")
=============================================================================
