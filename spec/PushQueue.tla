----------------------------- MODULE PushQueue -----------------------------
(***************************************************************************)
(* Level B model of one push source fed by producer threads                *)
(* (src/hgraph/runtime/push_source_node.cpp), the executor's wake-up flag  *)
(* (executor.cpp realtime_mark/reset_push_update_pending, advance_realtime)*)
(* and the push phase of the root cycle (graph.cpp evaluate_impl).         *)
(*                                                                         *)
(* Every critical section of the code is one action, named after the       *)
(* pre-lock hook point of verif_hooks.h ("gate") that precedes it, so a    *)
(* behaviour's gate steps are a schedule the driver can replay:            *)
(*   producer p: sc_enter_pre  (control mutex: closing? ++active)          *)
(*               [unlocked read of the engine's stop flag]                 *)
(*               pq_try_send_pre | pq_send_blocking_pre | cf_try_send_pre  *)
(*                   (queue mutex: accepting? full? was_empty, push)       *)
(*               [blocked on capacity_available until notified]            *)
(*               rt_mark_push_pre  iff the queue was empty (executor mutex)*)
(*               sc_leave_pre  (control mutex: --active)                   *)
(*   consumer e: rt_advance_pre (executor mutex: predicate, wait)          *)
(*               rt_reset_push_pre (flag := false)                         *)
(*               pq_try_pop_pre | pq_take_all_pre | cf_take_pre            *)
(*               rt_mark_push_pre iff more_pending (the re-arm)            *)
(*               stop: sc_begin_close_pre, pq_stop_pre (accepting := false,*)
(*                     clear, notify_all), wait_for_quiescence, detach     *)
(*   stopper  s: rt_stop_pre (executor mutex: stop flag, notify)           *)
(* Unlocked reads and wake-ups are separate internal actions, so TLC also  *)
(* explores a send landing between the consumer's pop and its re-arm,      *)
(* admission racing stop, and a stop seen at every possible moment.        *)
(*                                                                         *)
(* Level A (C16) is stated over the history variables as invariants.       *)
(***************************************************************************)
EXTENDS Integers, Sequences, FiniteSets, TLC, Json

CONSTANTS Producers,   \* set of producer ids (1, 2, ..)
          Msgs,        \* messages per producer
          Caps,        \* set of capacities tried; 0 = unbounded
          Policies,    \* subset of {"queue", "burst", "conf", "confd"}; confd = conflating over a dictionary output, where a
                       \* send is either an effective delta (sets key KeyOf(v) to v) or one without effect (erases an absent key)
          Kinds,       \* set of allowed producer kinds, subset of {"try", "block"}
          WithStopper, \* a thread calls request_stop at some point
          WithEnd,     \* the end time may be reached while the loop waits
          StopAts,     \* the stopper starts after this many gate steps (a set: chosen in Init; {0} = any time)
          Mutant,      \* "none", or a deliberately broken variant of the design (self-test: the invariants must catch it)
          Replay,      \* internal steps are taken as soon as they are enabled (the granularity of schedule replay)
          Emit         \* print finished behaviours as schedules

VARIABLES
    Policy, Cap, stopAt,  \* the configuration, chosen in Init (never changes)
    nofx,                 \* confd: the values whose delta has no effect (chosen in Init, never changes)
    \* queue policy storage (queue mutex)
    q, accepting, cval, cpend,
    \* sender control (control mutex)
    closing, active, detached,
    \* executor (executor mutex)
    pushPending, stopReq,
    \* threads
    epc,          \* consumer program counter
    more,         \* consumer: more_pending returned by the pop
    endReached,
    ppc, pidx, pres, padm, pkind, notified,
    spc,
    \* level A observation
    accepted,     \* values in admission order
    delivered,    \* sequence of [vals, cycle]
    dropped,      \* number of accepted values discarded by stop
    cycle,
    stopIssued,   \* some thread has started a stop request
    bad,          \* "" or the name of the level A clause that an action violated at its decision point
    hist          \* gate steps <<thread, gate>>

vars == <<Policy, Cap, stopAt, nofx, q, accepting, cval, cpend, closing, active, detached, pushPending, stopReq, epc, more, endReached,
          ppc, pidx, pres, padm, pkind, notified, spc, accepted, delivered, dropped, cycle, stopIssued, bad, hist>>
NoHist == <<Policy, Cap, stopAt, nofx, q, accepting, cval, cpend, closing, active, detached, pushPending, stopReq, epc, more, endReached,
            ppc, pidx, pres, padm, pkind, notified, spc, accepted, delivered, dropped, cycle, stopIssued, bad>>

Val(p, i) == p * 10 + i
Conflating == Policy \in {"conf", "confd"}
\* confd: the driver sends value p*1000+i-1 for Val(p, i) and writes dictionary key (that value) % 3
KeyOf(v) == ((v \div 10) * 1000 + (v % 10) - 1) % 3
SetMax(A) == CHOOSE a \in A : \A b \in A : b <= a
LastWithKey(s, k) == LET c == {i \in 1..Len(s) : KeyOf(s[i]) = k} IN IF c = {} THEN 0 ELSE s[SetMax(c)]
\* the merged latest state of a sequence of effective deltas: the last value per key, ordered by key
Merged(s) == SelectSeq([k \in 1..3 |-> LastWithKey(s, k - 1)], LAMBDA v : v # 0)
Full == Cap # 0 /\ (IF Mutant = "full_gt" THEN Len(q) > Cap ELSE Len(q) >= Cap)
RECURSIVE Flat(_)
Flat(d) == IF d = <<>> THEN <<>> ELSE Head(d).vals \o Flat(Tail(d))
NDelivered == Len(Flat(delivered))
IndexIn(s, v) == LET c == {i \in 1..Len(s) : s[i] = v} IN IF c = {} THEN 0 ELSE CHOOSE i \in c : TRUE
\* confd (level A, from the history alone): the accepted effective deltas after the newest one that a delivery has shown
CovedUpTo == LET f == Flat(delivered) IN IF f = <<>> THEN 0 ELSE SetMax({IndexIn(accepted, f[i]) : i \in 1..Len(f)})
Undelivered == IF Policy = "conf" THEN (IF cpend THEN 1 ELSE 0)
               ELSE IF Policy = "confd" THEN Len(accepted) - CovedUpTo
               ELSE Len(accepted) - NDelivered - dropped
SourceStopped == epc \in {"quiesce", "done"}      \* the stop critical section of the queue storage has run
StopKnown == stopIssued \/ closing \/ SourceStopped
Gate(th, g) == hist' = Append(hist, <<th, g>>)
PName(p) == "p" \o ToString(p)

RefusalClause(p) == IF pkind[p] = "block" THEN "C16.blocking_send_failed_without_stop"
                    ELSE "C16.send_refused_while_not_full_and_not_stopped"

(***************************************************************************)
(* Producers                                                               *)
(***************************************************************************)
PUnch == UNCHANGED <<epc, more, endReached, spc, delivered, dropped, cycle, stopIssued>>

PCall(p) == /\ ppc[p] = "idle" /\ pidx[p] <= Msgs
            /\ ppc' = [ppc EXCEPT ![p] = "enter"]
            /\ padm' = [padm EXCEPT ![p] = FALSE]
            /\ UNCHANGED <<q, accepting, cval, cpend, closing, active, detached, pushPending, stopReq, pidx, pres, pkind, notified,
                           accepted, bad, hist>>
            /\ PUnch

PEnter(p) == /\ ppc[p] = "enter"
             /\ Gate(PName(p), "sc_enter_pre")
             /\ IF closing \/ detached
                THEN /\ ppc' = [ppc EXCEPT ![p] = "ret"] /\ pres' = [pres EXCEPT ![p] = FALSE]
                     /\ bad' = IF bad = "" /\ ~StopKnown THEN RefusalClause(p) ELSE bad
                     /\ UNCHANGED active
                ELSE /\ ppc' = [ppc EXCEPT ![p] = "check"] /\ active' = active + 1 /\ UNCHANGED <<pres, bad>>
             /\ UNCHANGED <<q, accepting, cval, cpend, closing, detached, pushPending, stopReq, pidx, padm, pkind, notified, accepted>>
             /\ PUnch

\* unlocked read of the engine's stop flag
PCheck(p) == /\ ppc[p] = "check"
             /\ IF stopReq
                THEN /\ ppc' = [ppc EXCEPT ![p] = "leave"] /\ pres' = [pres EXCEPT ![p] = FALSE]
                     /\ bad' = IF bad = "" /\ ~StopKnown THEN RefusalClause(p) ELSE bad
                ELSE /\ ppc' = [ppc EXCEPT ![p] = "send"] /\ UNCHANGED <<pres, bad>>
             /\ UNCHANGED <<q, accepting, cval, cpend, closing, active, detached, pushPending, stopReq, pidx, padm, pkind, notified,
                            accepted, hist>>
             /\ PUnch

\* admission (shared by try_send, send_blocking without waiting, and a woken blocked sender)
Admit(p) == \* a dictionary delta without effect is accepted but adds nothing to the values to deliver
            /\ accepted' = IF Val(p, pidx[p]) \in nofx THEN accepted ELSE Append(accepted, Val(p, pidx[p]))
            /\ pres' = [pres EXCEPT ![p] = TRUE]
            /\ padm' = [padm EXCEPT ![p] = TRUE]
            /\ bad' = IF bad # "" THEN bad
                      ELSE IF SourceStopped THEN "C16.accepted_after_stop"
                      ELSE IF ~Conflating /\ Cap # 0 /\ Len(accepted) - NDelivered - dropped + 1 > Cap THEN "C16.capacity_exceeded"
                      ELSE ""
            /\ IF Policy = "conf"
               THEN /\ cval' = Val(p, pidx[p]) /\ cpend' = TRUE /\ UNCHANGED q
                    /\ ppc' = [ppc EXCEPT ![p] = IF ~cpend THEN "mark" ELSE "leave"]
               ELSE IF Policy = "confd"
               \* ConflatingPolicyStorage::try_send: apply_delta skips a delta without effect; pending = pending || modified();
               \* wake_required = pending && !was_pending.  q is the accumulator (the effective deltas since the last take).
               \* mutant pending_last: pending = modified() - the flag follows the last delta only
               THEN LET fx == Val(p, pidx[p]) \notin nofx
                        np == IF fx THEN TRUE ELSE IF Mutant = "pending_last" THEN FALSE ELSE cpend
                    IN /\ q' = IF fx THEN Append(q, Val(p, pidx[p])) ELSE q
                       /\ cpend' = np /\ UNCHANGED cval
                       /\ ppc' = [ppc EXCEPT ![p] = IF np /\ ~cpend THEN "mark" ELSE "leave"]
               ELSE /\ q' = Append(q, Val(p, pidx[p])) /\ UNCHANGED <<cval, cpend>>
                    \* mutant wake_after_push: was_empty computed after push_back - never true
                    /\ ppc' = [ppc EXCEPT ![p] = IF q = <<>> /\ Mutant # "wake_after_push" THEN "mark" ELSE "leave"]

Refuse(p, justified) == /\ ppc' = [ppc EXCEPT ![p] = "leave"] /\ pres' = [pres EXCEPT ![p] = FALSE]
                        /\ bad' = IF bad = "" /\ ~justified THEN RefusalClause(p) ELSE bad
                        /\ UNCHANGED <<q, cval, cpend, accepted, padm>>

PSend(p) == /\ ppc[p] = "send"
            /\ Gate(PName(p), IF Conflating THEN "cf_try_send_pre" ELSE IF pkind[p] = "block" THEN "pq_send_blocking_pre" ELSE "pq_try_send_pre")
            /\ IF ~accepting THEN Refuse(p, StopKnown) /\ UNCHANGED notified
               ELSE IF ~Conflating /\ Full
                    THEN IF pkind[p] = "try"
                         THEN Refuse(p, (Cap # 0 /\ Len(accepted) - NDelivered - dropped >= Cap) \/ StopKnown) /\ UNCHANGED notified
                         ELSE /\ ppc' = [ppc EXCEPT ![p] = "blocked"] /\ notified' = notified \ {p}
                              /\ UNCHANGED <<q, cval, cpend, accepted, pres, padm, bad>>
                    ELSE Admit(p) /\ UNCHANGED notified
            /\ UNCHANGED <<accepting, closing, active, detached, pushPending, stopReq, pidx, pkind>>
            /\ PUnch

\* a blocked sender that has been notified re-evaluates its predicate under the queue mutex
PUnblock(p) == /\ ppc[p] = "blocked" /\ p \in notified
               /\ IF ~accepting THEN Refuse(p, StopKnown) /\ notified' = notified \ {p}
                  ELSE IF Full THEN /\ notified' = notified \ {p}      \* somebody else took the slot: wait again
                                    /\ UNCHANGED <<q, cval, cpend, accepted, pres, padm, bad, ppc>>
                  ELSE Admit(p) /\ notified' = notified \ {p}
               /\ UNCHANGED <<accepting, closing, active, detached, pushPending, stopReq, pidx, pkind, hist>>
               /\ PUnch

PMark(p) == /\ ppc[p] = "mark"
            /\ Gate(PName(p), "rt_mark_push_pre")
            /\ pushPending' = IF stopReq THEN pushPending ELSE TRUE
            /\ ppc' = [ppc EXCEPT ![p] = "leave"]
            /\ UNCHANGED <<q, accepting, cval, cpend, closing, active, detached, stopReq, pidx, pres, padm, pkind, notified, accepted, bad>>
            /\ PUnch

PLeave(p) == /\ ppc[p] = "leave"
             /\ Gate(PName(p), "sc_leave_pre")
             /\ active' = active - 1
             /\ ppc' = [ppc EXCEPT ![p] = "ret"]
             /\ UNCHANGED <<q, accepting, cval, cpend, closing, detached, pushPending, stopReq, pidx, pres, padm, pkind, notified, accepted, bad>>
             /\ PUnch

PRet(p) == /\ ppc[p] = "ret"
           /\ ppc' = [ppc EXCEPT ![p] = "idle"]
           /\ pidx' = [pidx EXCEPT ![p] = @ + 1]
           /\ bad' = IF bad # "" THEN bad
                     ELSE IF pres[p] /\ ~padm[p] THEN "C16.send_returned_true_but_nothing_was_admitted"
                     ELSE IF ~pres[p] /\ padm[p] THEN "C16.send_returned_false_but_the_value_was_admitted"
                     ELSE ""
           /\ padm' = [padm EXCEPT ![p] = FALSE]
           /\ UNCHANGED <<q, accepting, cval, cpend, closing, active, detached, pushPending, stopReq, pres, pkind, notified, accepted, hist>>
           /\ PUnch

(***************************************************************************)
(* Consumer: the evaluation thread                                         *)
(***************************************************************************)
EUnch == UNCHANGED <<ppc, pidx, pres, padm, pkind, spc, accepted, stopIssued, bad>>

\* run_storage loop head: unlocked read of the stop flag
EHead == /\ epc = "head"
         /\ epc' = IF stopReq THEN "close" ELSE "advance"
         /\ UNCHANGED <<q, accepting, cval, cpend, closing, active, detached, pushPending, stopReq, more, endReached, notified, delivered,
                        dropped, cycle, hist>>
         /\ EUnch

\* advance_realtime: lock, predicate, wait (releases the mutex)
EAdvance == /\ epc = "advance"
            /\ Gate("e", "rt_advance_pre")
            /\ epc' = IF pushPending \/ stopReq THEN "post" ELSE "waiting"
            /\ UNCHANGED <<q, accepting, cval, cpend, closing, active, detached, pushPending, stopReq, more, endReached, notified, delivered,
                           dropped, cycle>>
            /\ EUnch

\* the predicate wait returns: the flag was set under the mutex and the waiter notified (spurious wakes are absorbed)
EWake == /\ epc = "waiting" /\ (pushPending \/ stopReq)
         /\ epc' = "post"
         /\ UNCHANGED <<q, accepting, cval, cpend, closing, active, detached, pushPending, stopReq, more, endReached, notified, delivered,
                        dropped, cycle, hist>>
         /\ EUnch

\* the wall clock reaches the end time while the loop waits
EEnd == /\ WithEnd /\ epc = "waiting" /\ ~endReached
        /\ endReached' = TRUE /\ epc' = "post"
        /\ UNCHANGED <<q, accepting, cval, cpend, closing, active, detached, pushPending, stopReq, more, notified, delivered, dropped, cycle, hist>>
        /\ EUnch

\* back in run_storage: stop requested or end reached -> leave the loop, else evaluate a cycle
EPost == /\ epc = "post"
         /\ epc' = IF stopReq \/ endReached THEN "close" ELSE "reset"
         /\ UNCHANGED <<q, accepting, cval, cpend, closing, active, detached, pushPending, stopReq, more, endReached, notified, delivered,
                        dropped, cycle, hist>>
         /\ EUnch

\* graph.cpp push phase: reset_push_update_pending once per cycle
\* mutant late_reset: the flag is only read here and cleared after the push sources have been evaluated (ELateReset)
EReset == /\ epc = "reset"
          /\ IF Mutant = "late_reset" THEN UNCHANGED <<pushPending, hist>>
             ELSE Gate("e", "rt_reset_push_pre") /\ pushPending' = FALSE
          /\ cycle' = cycle + 1
          /\ epc' = IF pushPending THEN "pop" ELSE "head"
          /\ UNCHANGED <<q, accepting, cval, cpend, closing, active, detached, stopReq, more, endReached, notified, delivered, dropped>>
          /\ EUnch

Blocked == {p \in Producers : ppc[p] = "blocked"}

EPop == /\ epc = "pop"
        /\ CASE Policy = "queue" ->
                  /\ Gate("e", "pq_try_pop_pre")
                  /\ IF q = <<>> THEN /\ more' = FALSE /\ UNCHANGED <<q, delivered, notified>>
                     ELSE /\ q' = Tail(q) /\ more' = (Tail(q) # <<>>)
                          /\ delivered' = Append(delivered, [vals |-> <<Head(q)>>, cycle |-> cycle])
                          \* notify_one: one waiting sender, if any
                          /\ IF Blocked \ notified = {} THEN UNCHANGED notified
                             ELSE \E p \in Blocked \ notified : notified' = notified \cup {p}
                  /\ UNCHANGED <<cval, cpend>>
             [] Policy = "burst" ->
                  /\ Gate("e", "pq_take_all_pre")
                  /\ q' = <<>> /\ more' = FALSE
                  /\ delivered' = IF q = <<>> THEN delivered ELSE Append(delivered, [vals |-> q, cycle |-> cycle])
                  /\ notified' = IF q = <<>> THEN notified ELSE notified \cup Blocked
                  /\ UNCHANGED <<cval, cpend>>
             [] Policy = "conf" ->
                  /\ Gate("e", "cf_take_pre")
                  /\ cpend' = FALSE /\ more' = FALSE
                  /\ delivered' = IF cpend THEN Append(delivered, [vals |-> <<cval>>, cycle |-> cycle]) ELSE delivered
                  /\ UNCHANGED <<q, cval, notified>>
             [] Policy = "confd" ->
                  \* take_accumulated: nothing unless pending (the accumulator keeps what it holds)
                  /\ Gate("e", "cf_take_pre")
                  /\ cpend' = FALSE /\ more' = FALSE
                  /\ q' = IF cpend THEN <<>> ELSE q
                  /\ delivered' = IF cpend THEN Append(delivered, [vals |-> Merged(q), cycle |-> cycle]) ELSE delivered
                  /\ UNCHANGED <<cval, notified>>
        /\ epc' = IF more' /\ Mutant # "no_remark" THEN "remark" ELSE IF Mutant = "late_reset" THEN "lreset" ELSE "head"
        /\ UNCHANGED <<accepting, closing, active, detached, pushPending, stopReq, endReached, dropped, cycle>>
        /\ EUnch

\* push_source_eval: more_pending -> mark_push_update_pending (the re-arm)
ERemark == /\ epc = "remark"
           /\ Gate("e", "rt_mark_push_pre")
           /\ pushPending' = IF stopReq THEN pushPending ELSE TRUE
           /\ epc' = IF Mutant = "late_reset" THEN "lreset" ELSE "head"
           /\ UNCHANGED <<q, accepting, cval, cpend, closing, active, detached, stopReq, more, endReached, notified, delivered, dropped, cycle>>
           /\ EUnch

\* mutant late_reset only: the wake flag is acknowledged after the push phase - a re-arm made during the phase is wiped
ELateReset == /\ epc = "lreset"
              /\ Gate("e", "rt_reset_push_pre")
              /\ pushPending' = FALSE
              /\ epc' = "head"
              /\ UNCHANGED <<q, accepting, cval, cpend, closing, active, detached, stopReq, more, endReached, notified, delivered, dropped, cycle>>
              /\ EUnch

\* push_source_stop
EClose == /\ epc = "close"
          /\ Gate("e", "sc_begin_close_pre")
          /\ closing' = TRUE /\ epc' = "qstop"
          /\ UNCHANGED <<q, accepting, cval, cpend, active, detached, pushPending, stopReq, more, endReached, notified, delivered, dropped, cycle>>
          /\ EUnch

EQStop == /\ epc = "qstop"
          /\ Gate("e", IF Conflating THEN "cf_stop_pre" ELSE "pq_stop_pre")
          \* mutant late_close: values cleared but the accepting flag left set
          /\ accepting' = (Mutant = "late_close") /\ q' = <<>> /\ cpend' = FALSE
          /\ dropped' = dropped + (IF Conflating THEN 0 ELSE Len(q))
          /\ notified' = notified \cup Blocked       \* notify_all
          /\ epc' = "quiesce"
          /\ UNCHANGED <<cval, closing, active, detached, pushPending, stopReq, more, endReached, delivered, cycle>>
          /\ EUnch

EQuiesce == /\ epc = "quiesce" /\ active = 0
            /\ detached' = TRUE /\ epc' = "done"
            /\ UNCHANGED <<q, accepting, cval, cpend, closing, active, pushPending, stopReq, more, endReached, notified, delivered, dropped,
                           cycle, hist>>
            /\ EUnch

(***************************************************************************)
(* Stopper                                                                 *)
(***************************************************************************)
SUnch == UNCHANGED <<q, accepting, cval, cpend, closing, active, detached, pushPending, epc, more, endReached, ppc, pidx, pres, padm, pkind,
                     notified, accepted, delivered, dropped, cycle, bad>>
SCall == /\ WithStopper /\ spc = "idle" /\ Len(hist) >= stopAt
         /\ spc' = "stop" /\ stopIssued' = TRUE
         /\ UNCHANGED <<stopReq, hist>> /\ SUnch
SStop == /\ spc = "stop"
         /\ Gate("s", "rt_stop_pre")
         /\ stopReq' = TRUE /\ spc' = "done"
         /\ UNCHANGED stopIssued /\ SUnch

(***************************************************************************)
Internal == EHead \/ EWake \/ EPost \/ EQuiesce \/ (\E p \in Producers : PCheck(p) \/ PUnblock(p) \/ PRet(p) \/ PCall(p))
InternalEnabled ==
    \/ epc \in {"head", "post"} \/ (epc = "waiting" /\ (pushPending \/ stopReq)) \/ (epc = "quiesce" /\ active = 0)
    \/ \E p \in Producers : ppc[p] \in {"check", "ret"} \/ (ppc[p] = "blocked" /\ p \in notified) \/ (ppc[p] = "idle" /\ pidx[p] <= Msgs)
GateStep == EAdvance \/ EReset \/ EPop \/ ERemark \/ ELateReset \/ EClose \/ EQStop \/ SStop \/ SCall \/ EEnd
            \/ (\E p \in Producers : PEnter(p) \/ PSend(p) \/ PMark(p) \/ PLeave(p))

Finished == epc = "done" /\ spc \in {"done", IF WithStopper THEN "done" ELSE "idle"} /\ \A p \in Producers : ppc[p] = "idle" /\ pidx[p] > Msgs
Finish == /\ Finished /\ bad # "emitted"
          /\ Emit
          /\ PrintT(<<"PQ", ToJson([policy |-> Policy, cap |-> Cap, msgs |-> Msgs, kinds |-> [p \in Producers |-> pkind[p]],
                                    fx |-> [p \in Producers |-> [i \in 1..Msgs |-> IF Val(p, i) \in nofx THEN 0 ELSE 1]],
                                    sched |-> hist, accepted |-> accepted, delivered |-> delivered, bad |-> bad])>>)
          /\ bad' = "emitted"
          /\ UNCHANGED <<q, accepting, cval, cpend, closing, active, detached, pushPending, stopReq, epc, more, endReached,
                         ppc, pidx, pres, padm, pkind, notified, spc, accepted, delivered, dropped, cycle, stopIssued, hist>>

Init == /\ stopAt \in StopAts
        /\ Policy \in Policies /\ Cap \in (IF Conflating THEN {0} ELSE Caps)
        /\ nofx \in (IF Policy = "confd" THEN SUBSET {Val(p, i) : p \in Producers, i \in 1..Msgs} ELSE {{}})
        /\ q = <<>> /\ accepting = TRUE /\ cval = 0 /\ cpend = FALSE
        /\ closing = FALSE /\ active = 0 /\ detached = FALSE
        /\ pushPending = FALSE /\ stopReq = FALSE
        /\ epc = "head" /\ more = FALSE /\ endReached = FALSE
        /\ ppc = [p \in Producers |-> "idle"] /\ pidx = [p \in Producers |-> 1]
        /\ pres = [p \in Producers |-> FALSE] /\ padm = [p \in Producers |-> FALSE]
        /\ pkind \in [Producers -> Kinds]
        \* replay: which of two blocked senders a notification wakes first cannot be steered through the gates
        /\ (Replay => Cardinality({p \in Producers : pkind[p] = "block"}) <= 1)
        /\ notified = {} /\ spc = "idle"
        /\ accepted = <<>> /\ delivered = <<>> /\ dropped = 0 /\ cycle = 0 /\ stopIssued = FALSE /\ bad = "" /\ hist = <<>>

Next == /\ IF Replay THEN (IF InternalEnabled THEN Internal ELSE (GateStep \/ Finish))
           ELSE (Internal \/ GateStep)
        /\ UNCHANGED <<Policy, Cap, stopAt, nofx>>

EvalNext == (EHead \/ EAdvance \/ EWake \/ EPost \/ EReset \/ EPop \/ ERemark \/ ELateReset \/ EClose \/ EQStop \/ EQuiesce) /\ UNCHANGED <<Policy, Cap, stopAt, nofx>>
ProdNext(p) == (PCall(p) \/ PEnter(p) \/ PCheck(p) \/ PSend(p) \/ PUnblock(p) \/ PMark(p) \/ PLeave(p) \/ PRet(p)) /\ UNCHANGED <<Policy, Cap, stopAt, nofx>>
Spec == Init /\ [][Next]_vars
FairSpec == Init /\ [][Next]_vars /\ WF_vars(EvalNext) /\ \A p \in Producers : WF_vars(ProdNext(p))

----------------------------------------------------------------------------
(* Level A: C16 *)
IsPrefix(a, b) == Len(a) <= Len(b) /\ \A i \in 1..Len(a) : a[i] = b[i]

\* delivered values are, in order, a prefix of the accepted ones (conflating: an increasing selection of them)
\* confd: every delivery is the merged latest state of the accepted effective deltas after the previous delivery's newest
\* one up to its own newest one
RECURSIVE MergedRuns(_, _)
MergedRuns(ds, n) ==
    IF ds = <<>> THEN TRUE
    ELSE LET v == Head(ds).vals
             idx == {IndexIn(accepted, v[i]) : i \in 1..Len(v)}
         IN /\ v # <<>> /\ 0 \notin idx
            /\ LET j == SetMax(idx) IN j > n /\ v = Merged(SubSeq(accepted, n + 1, j)) /\ MergedRuns(Tail(ds), j)
DeliveredPrefix ==
    IF Policy = "confd" THEN MergedRuns(delivered, 0)
    ELSE IF Policy = "conf"
    THEN LET f == Flat(delivered) IN
         /\ \A i \in 1..Len(f) : IndexIn(accepted, f[i]) # 0
         /\ \A i \in 1..(Len(f) - 1) : IndexIn(accepted, f[i]) < IndexIn(accepted, f[i + 1])
    ELSE IsPrefix(Flat(delivered), accepted)
\* exactly once, each in its own cycle, cycles strictly increasing
OncePerCycle ==
    /\ \A i \in 1..(Len(delivered) - 1) : delivered[i].cycle < delivered[i + 1].cycle
    /\ Policy = "queue" => \A i \in 1..Len(delivered) : Len(delivered[i].vals) = 1
    /\ LET f == Flat(delivered) IN \A i, j \in 1..Len(f) : i # j => f[i] # f[j]
CapacityBound == (~Conflating /\ Cap # 0) => Len(accepted) - NDelivered - dropped <= Cap
\* refusals only when full or stopped, blocking failure only after stop, nothing accepted after stop, results truthful
DecisionsOK == bad \in {"", "emitted"}
\* the finite-trace reading of "every accepted value is delivered if the run continues" used by PushTrace.tla:
\* the loop never sleeps on accepted values unless a send that admitted one is still in flight or a stop is under way
InFlightAdmit == \E p \in Producers : ppc[p] # "idle" /\ padm[p]
NoSleepOnPending == (epc = "waiting" /\ Undelivered > 0 /\ ~stopIssued /\ ~InFlightAdmit) => pushPending
\* coherence of the model itself
QueueMatches == ~Conflating => q = SubSeq(accepted, NDelivered + dropped + 1, Len(accepted))
\* liveness (small instance, weak fairness): everything accepted is eventually delivered unless the run stops
EventuallyDelivered == <>[](Undelivered = 0 \/ closing)
\* a blocking send does not hang: it is admitted or refused once there is room or the source has stopped
BlockedProgress == \A p \in Producers : (ppc[p] = "blocked") ~> (ppc[p] # "blocked")
=============================================================================
