------------------------------- MODULE Delta -------------------------------
(***************************************************************************)
(* Level A: the canonical value / delta algebra of the time-series shapes  *)
(* (C05, C20).  Everything here is pure (no variables).                    *)
(*                                                                         *)
(* Shapes (records, recursive):                                            *)
(*   [k |-> "TS"]                         scalar                           *)
(*   [k |-> "TSS"]                        set of integers                  *)
(*   [k |-> "TSW", n |-> N, min |-> M]    tick window                      *)
(*   [k |-> "TSL", n |-> N, el |-> S]     fixed list; with a field dyn: a  *)
(*                                        dynamic (unsized) list observed   *)
(*                                        up to N elements                  *)
(*   [k |-> "TSB", fs |-> <<S1, .., Sn>>] bundle                           *)
(*   [k |-> "TSD", el |-> S]              dictionary, integer keys         *)
(*                                                                         *)
(* Abstract values V(S):                                                   *)
(*   TS   [ok, v]            TSS  [ok, v (a set)]      TSW [ok, q (a seq)] *)
(*   TSL / TSB  [ch (a seq of child values)]                               *)
(*   TSD  [ok, ch (a function from the present keys to child values)]      *)
(* Deltas D(S):                                                            *)
(*   TS, TSW  an integer            TSS  [a, r] (sets)                     *)
(*   TSD  [r (set of keys), m (function key -> D(el))]                     *)
(*   TSL  [m (function index -> D(el))]                                    *)
(*   TSB  [f (seq of <<>> | <<D(field)>>)]                                 *)
(* The driver renders values and deltas as JSON with the same structure    *)
(* (sets as sorted arrays, functions as arrays of pairs); FromJ / ObsVal   *)
(* translate.                                                              *)
(***************************************************************************)
EXTENDS Integers, Sequences, FiniteSets, TLC

ToSet(s)   == {s[i] : i \in DOMAIN s}
PairsFn(s) == [x \in {s[i][1] : i \in DOMAIN s} |-> (CHOOSE p \in ToSet(s) : p[1] = x)[2]]
EmptyFn    == [x \in {} |-> 0]
Restrict(f, D) == [x \in D |-> f[x]]
LastN(q, n) == IF Len(q) <= n THEN q ELSE SubSeq(q, Len(q) - n + 1, Len(q))

IsColl(sh)  == sh.k \in {"TSS", "TSD", "TSL", "TSB"}
NCh(sh)     == IF sh.k = "TSB" THEN Len(sh.fs) ELSE sh.n
ChSh(sh, i) == IF sh.k = "TSB" THEN sh.fs[i] ELSE sh.el       \* i is 1-based

(***************************************************************************)
(* the empty value ("starting from empty")                                 *)
(***************************************************************************)
RECURSIVE EmptyV(_)
EmptyV(sh) ==
    CASE sh.k = "TS"  -> [ok |-> FALSE, v |-> 0]
      [] sh.k = "TSS" -> [ok |-> FALSE, v |-> {}]
      [] sh.k = "TSW" -> [ok |-> FALSE, q |-> <<>>]
      [] sh.k = "TSD" -> [ok |-> FALSE, ch |-> EmptyFn]
      [] OTHER        -> [ch |-> [i \in 1..NCh(sh) |-> EmptyV(ChSh(sh, i))]]

(* has the value any content (a fixed parent is valid when something below it is) *)
RECURSIVE HasValue(_, _)
HasValue(sh, v) ==
    IF sh.k \in {"TSL", "TSB"} THEN \E i \in 1..NCh(sh) : HasValue(ChSh(sh, i), v.ch[i]) ELSE v.ok

(***************************************************************************)
(* is a delta empty (carries no change)?  Scalars are never empty.         *)
(***************************************************************************)
RECURSIVE EmptyD(_, _)
EmptyD(sh, d) ==
    CASE sh.k = "TSS" -> d.a = {} /\ d.r = {}
      [] sh.k = "TSD" -> d.r = {} /\ DOMAIN d.m = {}
      [] sh.k = "TSL" -> DOMAIN d.m = {}
      [] sh.k = "TSB" -> \A i \in 1..Len(sh.fs) : d.f[i] = <<>> \/ (IsColl(sh.fs[i]) /\ EmptyD(sh.fs[i], d.f[i][1]))
      [] OTHER -> FALSE

(* normal form: inside a bundle an empty collection delta is the same as an absent field (capture_delta pre-fills
   collection fields with their empty delta); empty children of list deltas are dropped likewise *)
RECURSIVE NormD(_, _)
NormD(sh, d) ==
    CASE sh.k = "TSD" -> [r |-> d.r, m |-> [x \in DOMAIN d.m |-> NormD(sh.el, d.m[x])]]
      [] sh.k = "TSL" -> [m |-> [x \in DOMAIN d.m |-> NormD(sh.el, d.m[x])]]
      [] sh.k = "TSB" -> [f |-> [i \in 1..Len(sh.fs) |->
                                   IF d.f[i] = <<>> THEN <<>>
                                   ELSE IF IsColl(sh.fs[i]) /\ EmptyD(sh.fs[i], d.f[i][1]) THEN <<>>
                                   ELSE <<NormD(sh.fs[i], d.f[i][1])>>]]
      [] OTHER -> d

(* deep normal form: additionally drops dictionary / list entries whose (collection) child delta is empty -
   used to recognise two deltas that differ only by ticks that changed nothing *)
RECURSIVE DeepNorm(_, _)
DeepNorm(sh, d) ==
    CASE sh.k \in {"TSD", "TSL"} ->
            LET f == [x \in DOMAIN d.m |-> DeepNorm(sh.el, d.m[x])]
                keep == {x \in DOMAIN f : ~(IsColl(sh.el) /\ EmptyD(sh.el, f[x]))}
            IN  IF sh.k = "TSD" THEN [r |-> d.r, m |-> Restrict(f, keep)] ELSE [m |-> Restrict(f, keep)]
      [] sh.k = "TSB" -> [f |-> [i \in 1..Len(sh.fs) |->
                                   IF d.f[i] = <<>> THEN <<>>
                                   ELSE LET c == DeepNorm(sh.fs[i], d.f[i][1])
                                        IN  IF IsColl(sh.fs[i]) /\ EmptyD(sh.fs[i], c) THEN <<>> ELSE <<c>>]]
      [] OTHER -> d

(***************************************************************************)
(* Apply(v, d): the value after a tick with delta d                        *)
(***************************************************************************)
RECURSIVE Apply(_, _, _)
Apply(sh, v, d) ==
    CASE sh.k = "TS"  -> [ok |-> TRUE, v |-> d]
      [] sh.k = "TSW" -> [ok |-> TRUE, q |-> LastN(Append(v.q, d), sh.n)]
      [] sh.k = "TSS" -> [ok |-> TRUE, v |-> (v.v \ d.r) \cup d.a]
      [] sh.k = "TSD" ->
            LET keep == DOMAIN v.ch \ d.r
                keys == keep \cup DOMAIN d.m
            IN  [ok |-> TRUE,
                 ch |-> [x \in keys |-> IF x \in DOMAIN d.m
                                        THEN Apply(sh.el, IF x \in keep THEN v.ch[x] ELSE EmptyV(sh.el), d.m[x])
                                        ELSE v.ch[x]]]
      [] sh.k = "TSL" -> [ch |-> [i \in 1..sh.n |-> IF (i - 1) \in DOMAIN d.m THEN Apply(sh.el, v.ch[i], d.m[i - 1]) ELSE v.ch[i]]]
      [] sh.k = "TSB" -> [ch |-> [i \in 1..Len(sh.fs) |-> IF d.f[i] = <<>> THEN v.ch[i] ELSE Apply(sh.fs[i], v.ch[i], d.f[i][1])]]

(***************************************************************************)
(* Capture(pre, post, W): the delta of a tick that took pre to post, where *)
(* W tells which positions were written in the tick (same tree structure   *)
(* as the value: [w, ch]); a scalar written with an unchanged value still   *)
(* ticks, so W cannot be derived from the two values.                      *)
(*   W(TS/TSS/TSW) = [w]     W(TSL/TSB) = [w, ch (seq)]                    *)
(*   W(TSD)        = [w, ch (function on the keys present afterwards)]     *)
(***************************************************************************)
RECURSIVE Capture(_, _, _, _)
Capture(sh, pre, post, W) ==
    CASE sh.k = "TS"  -> post.v
      [] sh.k = "TSW" -> post.q[Len(post.q)]
      [] sh.k = "TSS" -> [a |-> post.v \ pre.v, r |-> pre.v \ post.v]
      [] sh.k = "TSD" ->
            LET mk == {x \in DOMAIN post.ch : W.ch[x].w}
            IN  [r |-> DOMAIN pre.ch \ DOMAIN post.ch,
                 m |-> [x \in mk |-> Capture(sh.el, IF x \in DOMAIN pre.ch THEN pre.ch[x] ELSE EmptyV(sh.el), post.ch[x], W.ch[x])]]
      [] sh.k = "TSL" ->
            LET mi == {i \in 1..sh.n : W.ch[i].w /\ HasValue(sh.el, post.ch[i])}
            IN  [m |-> [x \in {i - 1 : i \in mi} |-> Capture(sh.el, pre.ch[x + 1], post.ch[x + 1], W.ch[x + 1])]]
      [] sh.k = "TSB" ->
            [f |-> [i \in 1..Len(sh.fs) |-> IF W.ch[i].w /\ HasValue(sh.fs[i], post.ch[i])
                                            THEN <<Capture(sh.fs[i], pre.ch[i], post.ch[i], W.ch[i])>> ELSE <<>>]]

(***************************************************************************)
(* coherence of the parts of a set-like delta with the values around it    *)
(* (the literal conditions of C05); returns the name of the first broken   *)
(* condition or ""                                                         *)
(***************************************************************************)
SetCoherence(prev, cur, a, r) ==
    IF a \cap r # {} THEN "C05.added_and_removed_overlap"
    ELSE IF ~(a \subseteq cur) THEN "C05.added_element_absent"
    ELSE IF r \cap cur # {} \/ ~(r \subseteq prev) THEN "C05.removed_element_present_or_was_absent"
    ELSE IF a \cap prev # {} THEN "C05.cancelled_mutation_left_a_trace"
    ELSE IF (prev \ r) \cup a # cur THEN "C05.value_is_not_previous_plus_delta"
    ELSE ""

(***************************************************************************)
(* JSON (driver rendering) -> abstract                                     *)
(***************************************************************************)
RECURSIVE FromJ(_, _)
FromJ(sh, j) ==
    CASE sh.k \in {"TS", "TSW"} -> j
      [] sh.k = "TSS" -> [a |-> ToSet(j.a), r |-> ToSet(j.r)]
      [] sh.k = "TSD" -> LET f == PairsFn(j.m) IN [r |-> ToSet(j.r), m |-> [x \in DOMAIN f |-> FromJ(sh.el, f[x])]]
      [] sh.k = "TSL" -> LET f == PairsFn(j.m) IN [m |-> [x \in DOMAIN f |-> FromJ(sh.el, f[x])]]
      [] sh.k = "TSB" -> [f |-> [i \in 1..Len(sh.fs) |-> IF j.f[i] = <<>> THEN <<>> ELSE <<FromJ(sh.fs[i], j.f[i][1])>>]]

(* the value shown by an observation record of the driver (see harness/coll/coll.cpp render) *)
RECURSIVE ObsVal(_, _)
ObsVal(sh, o) ==
    CASE sh.k = "TS"  -> [ok |-> o.ok = 1, v |-> IF o.ok = 1 THEN o.v ELSE 0]
      [] sh.k = "TSS" -> [ok |-> o.ok = 1, v |-> ToSet(o.v)]
      [] sh.k = "TSW" -> [ok |-> o.ok = 1, q |-> o.v]
      [] sh.k = "TSD" -> LET f == PairsFn(o.ch)
                             pub == {x \in DOMAIN f : HasValue(sh.el, ObsVal(sh.el, f[x]))}
                         IN  [ok |-> o.ok = 1, ch |-> [x \in pub |-> ObsVal(sh.el, f[x])]]
      \* a dynamic list shows only the children created so far: the others have no value yet
      [] OTHER -> [ch |-> [i \in 1..NCh(sh) |-> IF i <= Len(o.ch) THEN ObsVal(ChSh(sh, i), o.ch[i]) ELSE EmptyV(ChSh(sh, i))]]

(* values compared modulo validity bookkeeping that a delta cannot carry: an invalid scalar has no value *)
RECURSIVE SameV(_, _, _)
SameV(sh, x, y) ==
    CASE sh.k = "TS"  -> x.ok = y.ok /\ (x.ok => x.v = y.v)
      [] sh.k = "TSS" -> x.v = y.v
      [] sh.k = "TSW" -> x.q = y.q
      [] sh.k = "TSD" -> DOMAIN x.ch = DOMAIN y.ch /\ \A k \in DOMAIN x.ch : SameV(sh.el, x.ch[k], y.ch[k])
      [] OTHER -> \A i \in 1..NCh(sh) : SameV(ChSh(sh, i), x.ch[i], y.ch[i])
=============================================================================
