------------------------- MODULE RecordReplayTrace -------------------------
(***************************************************************************)
(* Level A trace specification of C20: recording a time-series and         *)
(* replaying the recording reproduces the original tick stream - the same  *)
(* cycles, the same per-tick deltas, the same values - and, equivalently,  *)
(* applying a captured delta to a copy of the pre-tick state gives the     *)
(* post-tick state and capturing again from the copy gives the same delta. *)
(*                                                                         *)
(* The statement is differential, so is the specification; it needs no     *)
(* script.  Events of one scenario of the driver hgv_coll:                 *)
(*   p  g=1 id=1  probe on the original output (every cycle): flags,       *)
(*                value, capture_delta                                     *)
(*   ap           every tick of the original: the captured delta applied   *)
(*                with apply_delta to a scratch output of the same shape   *)
(*                that mirrors the pre-tick state, the scratch afterwards, *)
(*                and the delta captured again from the scratch            *)
(*   rec r1 g=1   the buffer dense_record wrote in graph 1 (entry per      *)
(*                cycle: [] = hole, [delta])                               *)
(*   p  g=2 id=3  probe on the output of replay("r1") in graph 2           *)
(*   rec r2 g=2   the buffer dense_record wrote in graph 2                 *)
(*   ret          a graph run returned                                     *)
(* Values and deltas are interpreted with the algebra of Delta.tla; all    *)
(* broken clauses are reported.  A clause carries a cause tag after "@"    *)
(* when the deviation has a recognisable shape (e.g. a tick whose delta is *)
(* empty), so that known findings can be told from new ones.               *)
(***************************************************************************)
EXTENDS Delta, Json, IOUtils

Traces == JsonDeserialize(IOEnv.TRACE_FILE)

VARIABLES tid, l, S, fails, firstBad, done
vars == <<tid, l, S, fails, firstBad, done>>

Put(f, k, v) == [x \in DOMAIN f \cup {k} |-> IF x = k THEN v ELSE f[x]]
If(c, s)     == IF c THEN s ELSE {}
Shape == Traces[tid].prog.shape

InitS == [p1 |-> EmptyFn,            \* cycle -> probe event of the original
          prev |-> EmptyV(Shape),    \* value the original probe saw in the previous cycle
          r1 |-> <<>>, hasR1 |-> FALSE,
          rets |-> 0, ended |-> FALSE]

Res(s, f) == [S |-> s, f |-> f]

IsEmptyTick(dj) == dj # <<>> /\ IsColl(Shape) /\ EmptyD(Shape, FromJ(Shape, dj[1]))
(* two present deltas that differ only by child ticks that changed nothing *)
SameButEmptyParts(aj, bj) == DeepNorm(Shape, FromJ(Shape, aj[1])) = DeepNorm(Shape, FromJ(Shape, bj[1]))
DiffClause(base, aj, bj) == IF SameButEmptyParts(aj, bj) THEN base \o "@child_tick_with_empty_delta_not_replayed" ELSE base

OnP1(e) ==
    LET v == ObsVal(Shape, e.o)
    IN  Res([S EXCEPT !.p1 = Put(@, e.t, e), !.prev = v],
            If(e.o.m = 1 /\ e.cap # <<>> /\ ~SameV(Shape, Apply(Shape, S.prev, FromJ(Shape, e.cap[1])), v),
               {"C20.captured_delta_applied_to_pre_tick_state_is_not_post_tick_state"}))

OnAp(e) ==
    IF e.err = 1 THEN Res(S, {"C20.apply_or_capture_raised"})
    ELSE Res(S,
             If(~SameV(Shape, ObsVal(Shape, e.src), ObsVal(Shape, e.post)), {"C20.apply_of_captured_delta_is_not_post_state"})
             \cup (IF e.re = <<>>
                   THEN {IF IsEmptyTick(e.d) THEN "C20.recapture_differs@empty_delta_is_no_tick_on_the_copy" ELSE "C20.recapture_differs@no_tick_on_the_copy"}
                   ELSE If(ToJson(e.re) # ToJson(e.d) /\ NormD(Shape, FromJ(Shape, e.re[1])) # NormD(Shape, FromJ(Shape, e.d[1])),
                           {DiffClause("C20.recapture_differs", e.d, e.re)})))

OnRec(e) ==
    IF e.key = "r1" THEN Res([S EXCEPT !.r1 = e.ent, !.hasR1 = TRUE], {})
    ELSE LET a == S.r1  b == e.ent
             n == IF Len(a) > Len(b) THEN Len(a) ELSE Len(b)
             Ent(x, i) == IF i <= Len(x) THEN x[i] ELSE <<>>
             cyc == {i \in 1..n : (Ent(a, i) = <<>>) # (Ent(b, i) = <<>>)}
             dif == {i \in 1..n : Ent(a, i) # <<>> /\ Ent(b, i) # <<>> /\ ToJson(Ent(a, i)) # ToJson(Ent(b, i))}
         IN  Res(S,
                 UNION {{IF Ent(b, i) = <<>>
                         THEN (IF IsEmptyTick(Ent(a, i)) THEN "C20.replayed_cycle_differs@tick_with_empty_delta_not_replayed"
                               ELSE "C20.replayed_cycle_differs@recorded_tick_not_replayed")
                         ELSE "C20.replayed_cycle_differs@tick_invented_by_replay"} : i \in cyc}
                 \cup {DiffClause("C20.replayed_delta_differs", Ent(a, i), Ent(b, i)) : i \in dif})

OnP3(e) ==
    IF e.t \notin DOMAIN S.p1 THEN Res(S, {"trace.replay_probe_without_original"})
    ELSE LET o == S.p1[e.t]
         IN  Res(S,
                 If(o.o.m # e.o.m,
                    {IF o.o.m = 1 /\ IsEmptyTick(o.cap) THEN "C20.replayed_cycle_differs@tick_with_empty_delta_not_replayed.consumer"
                     ELSE IF o.o.m = 1 THEN "C20.replayed_cycle_differs@recorded_tick_not_replayed.consumer"
                     ELSE "C20.replayed_cycle_differs@tick_invented_by_replay.consumer"})
                 \cup If(~SameV(Shape, ObsVal(Shape, o.o), ObsVal(Shape, e.o)), {"C20.replayed_value_differs"})
                 \cup If(o.o.m = 1 /\ e.o.m = 1 /\ ToJson(o.cap) # ToJson(e.cap), {DiffClause("C20.replayed_delta_differs", o.cap, e.cap) \o ".consumer"}))

OnRet(e) == Res([S EXCEPT !.rets = @ + 1, !.ended = (e.g = 2)], If(e.ok # 1, {"run_raised_an_exception"}))

OnNoRec(e) == Res([S EXCEPT !.ended = TRUE],
                  If(\E t \in DOMAIN S.p1 : S.p1[t].o.m = 1 /\ S.p1[t].obs = 1, {"C20.replayed_cycle_differs@nothing_recorded"}))

Step(e) == CASE e.e = "p" /\ e.id = 1 -> OnP1(e)
             [] e.e = "p" /\ e.id = 3 -> OnP3(e)
             [] e.e = "ap"    -> OnAp(e)
             [] e.e = "rec"   -> OnRec(e)
             [] e.e = "ret"   -> OnRet(e)
             [] e.e = "norec" -> OnNoRec(e)
             [] OTHER         -> Res(S, {})

RECURSIVE Join(_)
Join(ss) == IF ss = {} THEN ""
            ELSE LET x == CHOOSE y \in ss : TRUE
                 IN  IF ss = {x} THEN x ELSE x \o ";" \o Join(ss \ {x})

Init == /\ tid \in 1..Len(Traces) /\ l = 1 /\ S = InitS /\ fails = {} /\ firstBad = 0 /\ done = FALSE

Consume == /\ ~done /\ l <= Len(Traces[tid].ev)
           /\ LET r == Step(Traces[tid].ev[l])
              IN  /\ S' = r.S
                  /\ fails' = fails \cup r.f
                  /\ firstBad' = IF firstBad = 0 /\ r.f # {} THEN l ELSE firstBad
           /\ l' = l + 1
           /\ UNCHANGED <<tid, done>>

Finish == /\ ~done /\ l > Len(Traces[tid].ev)
          /\ done' = TRUE
          /\ PrintT(<<"VERDICT", Traces[tid].id, IF firstBad = 0 THEN l - 1 ELSE firstBad - 1,
                      IF fails = {} /\ ~S.ended THEN "trace.incomplete" ELSE Join(fails)>>)
          /\ UNCHANGED <<tid, l, S, fails, firstBad>>

Next == Consume \/ Finish
Spec == Init /\ [][Next]_vars
=============================================================================
