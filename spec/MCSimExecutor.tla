--------------------------- MODULE MCSimExecutor ---------------------------
(* Model-checking wrapper of SimExecutor: the history variables (script, cycles) are kept out of the fingerprint, and the
   search is bounded by depth as a safety net (every fault-free behaviour ends long before: N configuration steps, N start
   hooks, and at most N + 2 steps for each of the at most MaxT cycles). *)
EXTENDS SimExecutor
CONSTANT MaxDepth
View == NoHist
Bound == TLCGet("level") <= MaxDepth
=============================================================================
