---------------------------- MODULE MCSwitchNode ----------------------------
(* Instances for SwitchNode: two keyed branches - definition 1 an accumulator, definition 2 a delay of two steps (a
   self-scheduling branch) - and a default branch.  `Own`: the default is a definition of its own (3, an accumulator,
   LARGER than every keyed branch: the slot layout must take it into account; two different unmatched keys are two
   selections of the same definition).  `Shared`: the default is literally keyed definition 1 (key 1 and an unmatched
   key select the same definition - by key VALUE they are different selections). *)
EXTENDS SwitchNode

MCDefOfKey(k)   == k
MCOwnDefault    == 3
MCSharedDefault == 1
MCKindOf(d)     == IF d = 2 THEN "dly" ELSE "acc"
MCDelayOf(d)    == 2
MCSizeOf(d)     == IF d = 3 THEN 2 ELSE 1
=============================================================================
