---------------------------- MODULE MCAbortScan ----------------------------
EXTENDS AbortScan
\* node 1 reads the boundary input and feeds 2 and 3; 3 does not depend on 2
ConsFan == [i \in 1..3 |-> IF i = 1 THEN {2, 3} ELSE {}]
\* a chain 1 -> 2 -> 3
ConsChain == [i \in 1..3 |-> IF i < 3 THEN {i + 1} ELSE {}]
DtsSmall == {1, 2}
DtsWide == {1, 2, 3}
=============================================================================
