--------------------------- MODULE ResolutionTrace ---------------------------
(***************************************************************************)
(* Level A trace specification of operator resolution (C19).               *)
(*                                                                         *)
(* One trace item = one overload family + one argument tuple               *)
(*   prog.cands  <<[l, ps, o, v]...>>   prog.args  <<type...>>             *)
(*   (v = variadic: the last pattern of ps is the tail pattern; the        *)
(*   argument tuple may then be longer than ps)                            *)
(* and what the driver (hgv_resolve) recorded on the compiled tree:        *)
(*   solo  the effective rank the tree reports for every candidate when it *)
(*         is registered alone (rk: label -> rank)                         *)
(*   res   one per registration order: the order, the outcome              *)
(*         (ok / nomatch / ambiguous / other), the selected label, the     *)
(*         ranks in the WiringResolutionEvent (selected, rejected, tied),  *)
(*         the labels it lists as rejected,                                *)
(*         the ResolutionMap and the resolved output type                  *)
(*   end   the scenario completed                                          *)
(* Every res event must satisfy the outcome rule of Resolution.tla         *)
(* (AFail: matching soundness, one type per variable, output = the         *)
(* substitution, no-match / ambiguity errors, unique minimum rank, and the *)
(* formula-independent subsumption clause: the selected candidate is not   *)
(* strictly more general than another matching candidate, and a candidate  *)
(* that needs a numeric conversion of a scalar value neither wins over nor *)
(* ties with an otherwise identical one that takes the value exactly) with *)
(* the ranks THE TREE reported (in-family where the event lists the        *)
(* candidate, else its solo rank), and all res events of an item must      *)
(* agree (order independence).  A candidate whose parameters match the     *)
(* arguments must not be listed as rejected (RejFail; for a variadic       *)
(* candidate C19.matching_variadic_candidate_rejected).  A selected        *)
(* variadic candidate must accept every tail argument under an extension   *)
(* of the fixed parameters' bindings, and its reported bindings are those  *)
(* of the fixed parameters alone                                           *)
(* (C19.tail_argument_bound_a_variable_for_other_positions); the reported  *)
(* output must be the substitution of the reported bindings, size          *)
(* variables included (C19.output_size_is_not_explained_by_any_binding).   *)
(* The rank formula is not asserted here.                                  *)
(***************************************************************************)
EXTENDS Resolution, Json, IOUtils

Traces == JsonDeserialize(IOEnv.TRACE_FILE)

VARIABLES tid, l, S, verdict, done
vars == <<tid, l, S, verdict, done>>

Ok(s)   == [S |-> s, why |-> ""]
Fail(c) == [S |-> S, why |-> c]

None  == [kind |-> "none", sel |-> "", bind |-> {}, out |-> SIG, tied |-> {}]
InitS == [solo |-> <<>>, have |-> FALSE, first |-> None, n |-> 0, ended |-> FALSE]

Cands == Range(Traces[tid].prog.cands)
Labels == {c.l : c \in Cands}
PArgs == Traces[tid].prog.args

OnSolo(e) == IF \A x \in Labels : x \in DOMAIN e.rk THEN Ok([S EXCEPT !.solo = e.rk, !.have = TRUE])
             ELSE Fail("trace.solo_ranks_incomplete")

OnRes(e) ==
    LET rep  == Range(e.rk)                                   \* <<label, rank>> the event lists
        rk   == [x \in Labels |-> IF \E p \in rep : p[1] = x THEN (CHOOSE p \in rep : p[1] = x)[2] ELSE S.solo[x]]
        o    == [kind |-> e.kind, sel |-> e.sel, bind |-> Range(e.bind),
                 out |-> IF e.kind = "ok" THEN e.out ELSE SIG, tied |-> IF e.kind = "ambiguous" THEN Range(e.tied) ELSE {}]
        why  == IF ~S.have THEN "trace.res_before_solo"
                ELSE IF Range(e.order) # Labels \/ Len(e.order) # Cardinality(Labels) THEN "trace.order_is_not_a_permutation_of_the_family"
                ELSE IF RejFail(Cands, PArgs, Range(e.rej)) # "" THEN RejFail(Cands, PArgs, Range(e.rej))
                ELSE AFail(Cands, PArgs, rk, o)
    IN  IF why # "" THEN Fail(why)
        ELSE IF S.n > 0 /\ Canon(o) # S.first THEN Fail("C19.outcome_depends_on_registration_order")
        ELSE Ok([S EXCEPT !.first = IF S.n = 0 THEN Canon(o) ELSE @, !.n = @ + 1])

OnEnd(e) == IF S.n = 0 THEN Fail("trace.no_resolution_recorded") ELSE Ok([S EXCEPT !.ended = TRUE])

Step(e) == CASE e.e = "solo" -> OnSolo(e)
             [] e.e = "res"  -> OnRes(e)
             [] e.e = "end"  -> OnEnd(e)
             [] OTHER        -> Ok(S)

Init == /\ tid \in 1..Len(Traces) /\ l = 1 /\ S = InitS /\ verdict = "" /\ done = FALSE

Consume == /\ ~done /\ verdict = "" /\ l <= Len(Traces[tid].ev)
           /\ LET r == Step(Traces[tid].ev[l]) IN S' = r.S /\ verdict' = r.why
           /\ l' = l + 1
           /\ UNCHANGED <<tid, done>>

Finish == /\ ~done /\ (verdict # "" \/ l > Len(Traces[tid].ev))
          /\ done' = TRUE
          /\ PrintT(<<"VERDICT", Traces[tid].id, l - 1, IF verdict = "" /\ ~S.ended THEN "trace.incomplete" ELSE verdict>>)
          /\ UNCHANGED <<tid, l, S, verdict>>

Next == Consume \/ Finish
Spec == Init /\ [][Next]_vars
=============================================================================
