---------------------------- MODULE MCReduceTree ----------------------------
(* Drives ReduceTree.tla: the environment is the reduced dictionary.  Per cycle it removes keys, adds keys (with a value,
   or - PendMode - present but without a value yet), gives a value to pending keys, and ticks values of valid keys - several
   of these in ONE cycle (a value tick in the cycle of a structural change, a removal whose moved leaf ticks, ...); then the
   node evaluates once (NodeCycle).  TLC checks level A (ResultIsFold) and the level-B invariants after every cycle.

   SpecMC   one action per cycle, every operation sequence of at most MaxOps operations (canonical order where the order
            cannot matter); MaxCycles = 0: no horizon, the whole reachable space (VIEW NoHist drops the history).
   SpecSim  for -simulate with 6-8 keys: a cycle is Plan (what kind of cycle: grow / shrink / remove the LAST leaf /
            remove the first leaf while the moved one ticks / ticks only / anything), Choose (the operations), Exec - so
            the random walk picks the KIND of cycle uniformly instead of drowning the rare shapes in the many adds.
   Emit     print finished behaviours (MaxCycles cycles): per cycle the operations, the predicted result, whether the
            output ticks, and what happened inside (growth, moved-leaf tick) - the glue replays them on the real operator.
   PendMode "none" adds carry a value; "free" both kinds, a pending key gets its value in any later cycle;
            "one"  (replay through map_(delay 1)): every add is pending and gets its value exactly one cycle later. *)
EXTENDS ReduceTree, Json

CONSTANTS NKeys, Vals, Comb, HasZero, Zero, Lifted, PendMode, MaxOps, MaxCycles, Plans, Emit, InitLive

Keys == 1..NKeys
P == [comb |-> Comb, hasZero |-> HasZero, zero |-> Zero, lifted |-> Lifted]

VARIABLES st, val, node, cyc, hist, plan, cops, done
vars == <<st, val, node, cyc, hist, plan, cops, done>>
NoHist == <<st, val, node, plan, cops, done>>
NoHistCyc == <<st, val, node, cyc, plan, cops, done>>

Env(s, v, rems, news, mods) == [st |-> s, val |-> v, rems |-> rems, news |-> news, mods |-> mods]
Now == Env(st, val, <<>>, <<>>, {})

RECURSIVE SeqOfSet(_)
SeqOfSet(S) == IF S = {} THEN <<>> ELSE LET x == CHOOSE y \in S : \A z \in S : y <= z IN <<x>> \o SeqOfSet(S \ {x})

\* InitLive keys are there (value 1) when the run begins: one cycle that adds them all (deep trees without a long prefix)
Init == LET ks == 1..InitLive
            s0 == [k \in Keys |-> IF k \in ks THEN "valid" ELSE "absent"]
            v0 == [k \in Keys |-> IF k \in ks THEN 1 ELSE 0]
            n0 == NodeInit(P, Keys)
        IN /\ st = s0 /\ val = v0
           /\ node = IF InitLive = 0 THEN n0 ELSE NodeCycle(P, n0, Env(s0, v0, <<>>, SeqOfSet(ks), ks)).n
           /\ cyc = 0 /\ hist = <<>> /\ done = FALSE /\ cops = <<>>
           /\ plan = IF Cardinality(Plans) = 1 THEN "any" ELSE "none"

\* ---------------------------------------------------------------- the operations of one cycle
Op(o, k, v) == [op |-> o, k |-> k, v |-> v]
OpSet == {Op("rem", k, 0) : k \in {x \in Keys : st[x] # "absent"}}
         \cup (IF PendMode = "one" THEN {} ELSE {Op("add", k, v) : k \in {x \in Keys : st[x] = "absent"}, v \in Vals})
         \cup (IF PendMode = "none" THEN {} ELSE {Op("addp", k, 0) : k \in {x \in Keys : st[x] = "absent"}})
         \cup (IF PendMode = "one" THEN {} ELSE {Op("val", k, v) : k \in {x \in Keys : st[x] = "pending"}, v \in Vals})
         \cup {Op("tick", k, v) : k \in {x \in Keys : st[x] = "valid"}, v \in Vals}
Rank(o) == CASE o.op = "rem" -> 1 [] o.op = "add" -> 2 [] o.op = "val" -> 3 [] o.op = "addp" -> 4 [] o.op = "tick" -> 5
\* removals, adds and late values are processed in the order given (every order is explored); the rest has no order
After(a, b) == Rank(a) < Rank(b) \/ (Rank(a) = Rank(b) /\ (Rank(a) <= 3 \/ a.k < b.k))
\* (S, O are parameters: evaluated once)
Extend(S, O, m) == S \cup UNION {{Append(s, o) : o \in {y \in O : \A i \in 1..(m - 1) : s[i].k # y.k /\ (i = m - 1 => After(s[i], y))}}
                                 : s \in {x \in S : Len(x) = m - 1}}
RECURSIVE OpSeqsOver(_, _)
OpSeqsOver(O, m) == IF m = 0 THEN {<<>>} ELSE Extend(OpSeqsOver(O, m - 1), O, m)
OpSeqs(m) == OpSeqsOver(OpSet, m)

Sel(ops, kinds) == SelectSeq(ops, LAMBDA o : o.op \in kinds)
KeySeq(s) == [i \in 1..Len(s) |-> s[i].k]
KeySet(s) == {s[i].k : i \in 1..Len(s)}

PlanOK(pl, ops) ==
    LET live == Len(node.d2k)
        kinds == {ops[i].op : i \in 1..Len(ops)}
    IN CASE pl = "grow"       -> ops # <<>> /\ kinds \subseteq {"add", "addp", "val"}
         [] pl = "grow2"      -> Len(ops) = Min2(MaxOps, Cardinality({k \in Keys : st[k] = "absent"})) /\ ops # <<>> /\ kinds \subseteq {"add", "addp"}
         [] pl = "shrink"     -> ops # <<>> /\ kinds = {"rem"}
         [] pl = "drain"      -> Len(ops) = Min2(MaxOps, Cardinality({k \in Keys : st[k] # "absent"})) /\ ops # <<>> /\ kinds = {"rem"}
         [] pl = "ticks"      -> ops # <<>> /\ kinds = {"tick"}
         [] pl = "removeLast" -> live >= 1 /\ \E i \in 1..Len(ops) : ops[i].op = "rem" /\ ops[i].k = node.d2k[live]
         [] pl = "swapTick"   -> live >= 2 /\ (\E i \in 1..Len(ops) : ops[i].op = "rem" /\ ops[i].k = node.d2k[1])
                                           /\ (\E i \in 1..Len(ops) : ops[i].op = "tick" /\ ops[i].k = node.d2k[live])
         [] OTHER             -> TRUE

\* apply one cycle: ops chosen by the environment, forced = values of keys that were pending (PendMode "one")
NewSt(all) == [k \in Keys |-> IF \E i \in 1..Len(all) : all[i].k = k
                              THEN (LET o == all[CHOOSE i \in 1..Len(all) : all[i].k = k]
                                    IN CASE o.op = "rem" -> "absent" [] o.op = "addp" -> "pending" [] OTHER -> "valid")
                              ELSE st[k]]
NewVal(setv, st1) == [k \in Keys |-> IF \E i \in 1..Len(setv) : setv[i].k = k
                                     THEN setv[CHOOSE i \in 1..Len(setv) : setv[i].k = k].v
                                     ELSE IF st1[k] = "valid" THEN val[k] ELSE 0]
Commit(all, E, out) ==
    /\ st' = E.st /\ val' = E.val
    /\ node' = out.n
    /\ cyc' = cyc + 1
    /\ hist' = Append(hist, [ops |-> all, ok |-> IF out.res = NoVal THEN 0 ELSE 1, v |-> IF out.res = NoVal THEN 0 ELSE out.res,
                             tick |-> out.tick, grew |-> out.grew, mvtick |-> out.movedTicked,
                             rmlast |-> (Len(node.d2k) >= 1 /\ \E i \in 1..Len(E.rems) : E.rems[i] = node.d2k[Len(node.d2k)]),
                             live |-> Len(out.n.d2k), cap |-> out.n.cap])
Apply3(all, E) == Commit(all, E, IF all = <<>> THEN [n |-> node, res |-> Result(P, node, Now), tick |-> FALSE, grew |-> FALSE, movedTicked |-> FALSE]
                                 ELSE NodeCycle(P, node, E))
Apply2(all, st1) == Apply3(all, Env(st1, NewVal(Sel(all, {"add", "val", "tick"}), st1), KeySeq(Sel(all, {"rem"})),
                                    KeySeq(Sel(all, {"add"})) \o KeySeq(Sel(all, {"val"})) \o (IF Fault = "addpending" THEN KeySeq(Sel(all, {"addp"})) ELSE <<>>), KeySet(Sel(all, {"add", "val", "tick"}))))
Apply1(all) == Apply2(all, NewSt(all))
Apply(ops, forced) == Apply1(ops \o forced)

\* PendMode "one": every key that is pending gets its value now unless it is removed now
Forced(ops) == LET ks == {k \in Keys : st[k] = "pending" /\ \A i \in 1..Len(ops) : ops[i].k # k}
               IN IF PendMode # "one" THEN {<<>>}
                  ELSE {[i \in 1..Cardinality(ks) |-> Op("val", SeqOfSet(ks)[i], f[SeqOfSet(ks)[i]])] : f \in [ks -> Vals]}

Budget == MaxCycles = 0 \/ cyc < MaxCycles          \* MaxCycles = 0: no horizon (the whole reachable space under VIEW NoHist)
Finished == Emit /\ MaxCycles > 0 /\ cyc = MaxCycles /\ ~done
Finish == /\ Finished
          /\ done' = TRUE
          /\ PrintT(<<"RTREE", ToJson([comb |-> Comb, haszero |-> IF HasZero THEN 1 ELSE 0, zero |-> Zero,
                                        lifted |-> IF Lifted THEN 1 ELSE 0, pend |-> PendMode, hist |-> hist])>>)
          /\ UNCHANGED <<st, val, node, cyc, hist, plan, cops>>

CycleMC == /\ ~done /\ Budget
           /\ \E ops \in OpSeqs(MaxOps) : \E forced \in Forced(ops) :
                 /\ (ops # <<>> \/ PendMode = "one")
                 /\ Apply(ops, forced)
           /\ UNCHANGED <<plan, cops, done>>
NextMC == CycleMC \/ Finish
SpecMC == Init /\ [][NextMC]_vars

\* ---------------------------------------------------------------- phased cycle for random walks
PlanStep == /\ ~done /\ Budget /\ plan = "none"
            /\ plan' \in Plans
            /\ UNCHANGED <<st, val, node, cyc, hist, cops, done>>
Pickable(S, ok) == IF ok = {} THEN S ELSE ok
ChooseFrom(S) == \E ops \in Pickable(S, {s \in S : PlanOK(plan, s)}) : \E forced \in Forced(ops) : cops' = <<ops, forced>>
ChooseStep == /\ ~done /\ plan \notin {"none", "exec"}
              /\ ChooseFrom({s \in OpSeqs(MaxOps) : s # <<>> \/ PendMode = "one"})
              /\ plan' = "exec"
              /\ UNCHANGED <<st, val, node, cyc, hist, done>>
ExecStep == /\ ~done /\ plan = "exec"
            /\ Apply(cops[1], cops[2])
            /\ plan' = "none" /\ cops' = <<>>
            /\ UNCHANGED done
NextSim == PlanStep \/ ChooseStep \/ ExecStep \/ Finish
SpecSim == Init /\ [][NextSim]_vars

\* ---------------------------------------------------------------- invariants (between cycles)
InvResultIsFold        == ResultIsFold(P, node, Now)
InvKeyMapBijection     == KeyMapBijection(node)
InvLeavesAreTheValid   == LeavesAreTheValid(node, Now)
InvCapacityOk          == CapacityOk(P, node)
InvShapeExact          == ShapeExact(P, node)
InvCacheTruthful       == CacheTruthful(P, node, Now)
InvBindingsExact       == BindingsExact(P, node)
InvNoLeafBoundTwice    == NoLeafBoundTwice(P, node, Now)
InvNothingLeftScheduled == NothingLeftScheduled(node)
InvPublishedIsRoot     == PublishedIsRoot(P, node)
InvListScanIsFold      == ListScanIsFold(P, Now, NKeys)
=============================================================================
