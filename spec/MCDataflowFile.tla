--------------------------- MODULE MCDataflowFile ---------------------------
(* Dataflow with the program family read from a JSON file (IOEnv.PROGS_FILE): the glue's random and
   structured generators write programs, TLC computes what each must produce. *)
EXTENDS Dataflow, IOUtils

FilePrograms == LET a == JsonDeserialize(IOEnv.PROGS_FILE) IN {a[i] : i \in 1..Len(a)}
=============================================================================
