--------------------------- MODULE MCCollections ---------------------------
EXTENDS Collections
FiveShapes == {"TSS", "TSD", "TSL", "TSB", "TSW"}
DynOnly == {"DTSL"}
OneVal == {1}
AllShapes == {"TSS", "TSD", "TSL", "TSB", "TSW", "DTSL"}
=============================================================================
