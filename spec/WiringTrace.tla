----------------------------- MODULE WiringTrace -----------------------------
(* File mode of WiringRank: the glue hands over programs together with what the REAL Wiring::finish did with them (refused
   or the final node order read from GraphBuilder::nodes()); TLC judges each build against level A (named clause) and
   compares the order with level B's prediction (drift). *)
EXTENDS WiringRank

\* items: [id, prog, refused (0/1), order (instance ids in final node order; <<>> when refused)]
Items == JsonDeserialize(IOEnv.WIRING_FILE)
Verdict(it) ==
    LET p == it.prog
        refused == it.refused = 1
    IN  IF refused /\ ~Cyclic(p) THEN "C01.wiring_without_a_dependency_cycle_was_refused"
        ELSE IF ~refused /\ Cyclic(p) THEN "C01.wiring_with_an_unbroken_dependency_cycle_was_built"
        ELSE IF refused THEN ""
        ELSE IF ~IsPermutation(p, it.order) THEN "C01.instance_missing_or_duplicated_in_the_built_graph"
        ELSE IF ~Topological(p, it.order) THEN "C01.consumer_ranked_before_a_producer_it_reads"
        ELSE ""
Drift(it) == it.refused = 0 /\ ~Cyclic(it.prog) /\ it.order # Ranked(it.prog)

VARIABLES k
FileInit == k = 0
FileNext == /\ k < Len(Items)
            /\ k' = k + 1
            /\ LET it == Items[k + 1]
               IN PrintT(<<"WVERDICT", ToJson([id |-> it.id, why |-> Verdict(it), drift |-> Drift(it),
                                                 cyclic |-> Cyclic(it.prog), rank |-> Ranked(it.prog)])>>)
FileSpec == FileInit /\ [][FileNext]_k
=============================================================================
