--------------------------- MODULE MCDataflowEnum ---------------------------
(***************************************************************************)
(* Dataflow over a program family enumerated by TLC itself: every program  *)
(* of up to MaxC source/compute nodes over the vocabulary (every DAG shape *)
(* the arities allow: chains, fan-out, fan-in, diamonds), each source with *)
(* each tick history of the family, closed by a recorder on the last node. *)
(* One TLC run = all programs x all histories of the bounded family.       *)
(***************************************************************************)
EXTENDS Dataflow

CONSTANTS MaxC,      \* number of source/compute nodes (a recorder is appended)
          Horizon,   \* cycles 1..Horizon
          Starts,    \* set of start times
          Rich       \* TRUE: every tick history and timer period; FALSE: the two-history family (keeps MaxC = 4 tractable)

Nd(kind, ins, k, cnt, script) ==
    [kind |-> kind, k |-> k, cnt |-> cnt, ins |-> ins, script |-> script, bind |-> 0, init |-> -1, cap |-> 0]

\* tick histories: ticks together / apart / consecutive smallest steps / with gaps / before start
Scripts == { << <<1, 1>> >>,
             << <<1, 2>>, <<2, 3>> >>,
             << <<2, 5>>, <<4, 1>> >>,
             << <<1, 1>>, <<2, 2>>, <<3, 3>> >>,
             << <<3, 7>> >> }

ScriptsSmall == { << <<1, 2>>, <<2, 3>> >>, << <<2, 5>>, <<4, 1>> >> }

Sources == {Nd("src", <<>>, 0, 0, sc) : sc \in IF Rich THEN Scripts ELSE ScriptsSmall}
           \cup {Nd("timer", <<>>, p, 2, <<>>) : p \in IF Rich THEN {1, 2} ELSE {1}}

Unary(j) == {Nd(kind, <<a>>, 0, 0, <<>>) : kind \in {"pass", "acc", "count"}, a \in 1..(j - 1)}
            \cup {Nd("add", <<a>>, 1, 0, <<>>) : a \in 1..(j - 1)}
            \cup {Nd("delay", <<a>>, d, 0, <<>>) : a \in 1..(j - 1), d \in {1, 2}}

Binary(j) == {Nd(kind, <<a, b>>, 0, 0, <<>>) : kind \in {"sum2", "sumu", "sample"}, a \in 1..(j - 1), b \in 1..(j - 1)}

Choices(j) == IF j = 1 THEN Sources ELSE Sources \cup Unary(j) \cup Binary(j)

RECURSIVE Bodies(_)
Bodies(j) == IF j = 0 THEN {<<>>}
             ELSE {Append(b, c) : b \in Bodies(j - 1), c \in Choices(j)}

\* the last node must be a compute node (a program ending in a source adds nothing new)
EnumPrograms ==
    {[id |-> 0, start |-> s, end |-> Horizon + 1,
      nodes |-> Append(b, Nd("rec", <<Len(b)>>, 0, 0, <<>>))]
        : s \in Starts, b \in {x \in UNION {Bodies(j) : j \in 2..MaxC} : x[Len(x)].kind \notin SourceKinds}}

=============================================================================
