---------------------------- MODULE MCWiringRank ----------------------------
(* Exhaustive family for WiringRank: every program of N instances (each with no, one or two producers chosen among ALL
   instances - later ones and itself included) and at most MaxDeps explicit rank dependencies; one step, Wiring::finish.
   TLC checks that the rank pass as coded (level B) satisfies C01's structural statement (level A) on each of them. *)
EXTENDS WiringRank
CONSTANTS N, MaxDeps

VARIABLES prog, phase, rank      \* rank: what the rank pass produced (kept in the state so the invariants read it once)
vars == <<prog, phase, rank>>

InsChoices == {<<>>} \cup {<<a>> : a \in 1..N} \cup {<<a, b>> : a \in 1..N, b \in 1..N}
DepLess(d, e) == d[1] < e[1] \/ (d[1] = e[1] /\ d[2] < e[2])

Init == /\ phase = "wiring"
        /\ rank = <<>>
        /\ prog = [ins |-> <<>>, deps |-> <<>>]
\* w.add_node(...): the next instance, reading any instances (a later one or itself through a delayed binding)
AddNode == /\ phase = "wiring" /\ Len(prog.ins) < N
           /\ \E c \in InsChoices : prog' = [prog EXCEPT !.ins = Append(@, c)]
           /\ UNCHANGED <<phase, rank>>
\* w.add_rank_dependency(c, q) (listed in one canonical order: the set matters, not the order of the calls)
AddDep == /\ phase = "wiring" /\ Len(prog.ins) = N /\ Len(prog.deps) < MaxDeps
          /\ \E c \in 1..N, q \in 1..N :
                /\ c # q
                /\ Len(prog.deps) > 0 => DepLess(prog.deps[Len(prog.deps)], <<c, q>>)
                /\ prog' = [prog EXCEPT !.deps = Append(@, <<c, q>>)]
          /\ UNCHANGED <<phase, rank>>
\* w.finish(): the rank pass
Finish == /\ phase = "wiring" /\ Len(prog.ins) = N
          /\ rank' = Ranked(prog)
          /\ phase' = IF RefusedGiven(prog, rank') THEN "refused" ELSE "built"
          /\ UNCHANGED prog
Next == AddNode \/ AddDep \/ Finish
Spec == Init /\ [][Next]_vars

RefusedIffCyclic == phase = "refused" => Cyclic(prog)
BuiltIsAcyclic   == phase = "built" => ~Cyclic(prog)
BuiltIsTopological == phase = "built" => IsPermutation(prog, rank) /\ Topological(prog, rank)
\* Kahn's queue discipline: sources come out in insertion order
SourcesFirstInOrder == phase = "built" =>
    LET r == rank IN \A a, b \in Ids(prog) : (Len(prog.ins[a]) = 0 /\ Len(prog.ins[b]) = 0 /\ a < b
                                                       /\ ~\E d \in DepSet(prog) : d[1] \in {a, b}) => Pos(r, a) < Pos(r, b)
=============================================================================
