----------------------------- MODULE NodeSched -----------------------------
(***************************************************************************)
(* Level B model of the per-node scheduler (include/hgraph/runtime/        *)
(* node_scheduler.h), the graph's per-node schedule slot (graph.cpp        *)
(* schedule_node_impl) and the post-evaluation re-arm rule (node.cpp       *)
(* evaluate_impl), for one node driven by an arbitrary user program.       *)
(*                                                                         *)
(* The user program is not fixed: in every activation (the start hook and  *)
(* each evaluation) TLC chooses up to MaxOps scheduler operations from     *)
(*   schedule(now+dt [,tag]), un_schedule(tag), un_schedule(), pop_tag(tag), *)
(*   reset                                                                 *)
(* and the environment chooses at which times an input ticks.  So one TLC  *)
(* run covers every operation sequence of the bounded size.                *)
(*                                                                         *)
(* Level A (C18) is stated over this model as invariants:                  *)
(*   TagsAgree  - a tag holds at most one pending time, tag lookups agree  *)
(*                with the pending set;                                    *)
(*   NoMissedWake - the node is woken at every time that is still pending: *)
(*                no pending time is ever left behind in the past;         *)
(*   NotEarly   - the node is never woken for its scheduler before the     *)
(*                earliest pending time (stale wake-ups excepted: a time   *)
(*                it had asked for itself and withdrew);                   *)
(*   IgnoredRequestsChangeNothing - a request for now/the past after start *)
(*                leaves the pending set unchanged (by construction of Op, *)
(*                asserted through the history).                           *)
(* and Level B's own coherence:                                            *)
(*   SlotCovers - whenever the node is idle with pending events the graph  *)
(*                slot is a future time no later than the earliest one.    *)
(***************************************************************************)
EXTENDS Integers, Sequences, FiniteSets, TLC, Json

CONSTANTS MaxT,      \* cycles 1..MaxT (start time = 1)
          Tags,      \* set of tag names
          MaxOps,    \* operations per activation
          Dts,       \* set of offsets for schedule(now + dt)
          Emit       \* print finished behaviours as scenarios

NoTag == ""
\* lexicographic order of the tag names used (TLC cannot compare strings): "" < "a" < "b" < "c"
TagRank(g) == CASE g = "" -> 0 [] g = "a" -> 1 [] g = "b" -> 2 [] g = "c" -> 3 [] OTHER -> 9
VARIABLES now,       \* time of the current / last activation
          phase,     \* "starting" | "idle" | "eval" | "done"
          events,    \* set of <<time, tag>>                (NodeSchedulerState.events)
          tags,      \* function tag -> time (0 = absent)   (NodeSchedulerState.tags)
          slot,      \* graph schedule slot of the node (0 = never)
          inputs,    \* times at which the node's active input ticks
          schedNow,  \* node.cpp: scheduled_now, sampled before user code runs
          nops,      \* operations issued in this activation
          wd,        \* times the node asked for and withdrew (stale slot candidates)
          last,      \* time of the last cycle in which the node took part (0 before the first)
          wakeOk,    \* the latest activation was justified (input tick, due event, or withdrawn own request)
          hist       \* history: sequence of activations [t, cause, ops]
vars == <<now, phase, events, tags, slot, inputs, schedNow, nops, wd, last, wakeOk, hist>>

\* exhaustive configurations hide the history (it multiplies states without adding behaviour)
NoHist == <<now, phase, events, tags, slot, inputs, schedNow, nops, wd, last, wakeOk>>

Min(S) == CHOOSE x \in S : \A y \in S : x <= y
Times(ev) == {e[1] : e \in ev}
First(ev) == IF ev = {} THEN 0 ELSE Min(Times(ev))
\* std::set<pair<DateTime,string>> order: time, then tag (the empty tag sorts first)
Earliest(ev) == LET t == First(ev)
                    c == {e \in ev : e[1] = t}
                IN  IF \E e \in c : e[2] = NoTag THEN <<t, NoTag>> ELSE CHOOSE e \in c : \A f \in c : TagRank(e[2]) <= TagRank(f[2])

started == phase # "starting"

\* graph.cpp schedule_node_impl (the graph's evaluation time is `now`)
GraphSchedule(s, w) == IF s <= now \/ w < s THEN w ELSE s

(***************************************************************************)
(* Scheduler operations (node_scheduler.h), each returning the new         *)
(* [events, tags, slot, wd].                                               *)
(***************************************************************************)
Sched(when, tag) ==
    LET ignored == IF started THEN when <= now ELSE when < now IN
    IF ignored THEN [events |-> events, tags |-> tags, slot |-> slot, wd |-> wd]
    ELSE LET old   == IF tag # NoTag /\ tags[tag] # 0 THEN {<<tags[tag], tag>>} ELSE {}
             ev1   == events \ old
             prev  == IF ev1 = {} THEN MaxT + 100 ELSE First(ev1)
             ev2   == ev1 \cup {<<when, tag>>}
             nxt   == First(ev2)
         IN  [events |-> ev2,
              tags   |-> IF tag # NoTag THEN [tags EXCEPT ![tag] = when] ELSE tags,
              slot   |-> IF nxt < prev THEN GraphSchedule(slot, nxt) ELSE slot,
              wd     |-> wd \cup {e[1] : e \in old}]

UnschedTag(tag) ==
    IF tags[tag] = 0 THEN [events |-> events, tags |-> tags, slot |-> slot, wd |-> wd]
    ELSE [events |-> events \ {<<tags[tag], tag>>}, tags |-> [tags EXCEPT ![tag] = 0], slot |-> slot,
          wd |-> wd \cup {tags[tag]}]

UnschedEarliest ==
    IF events = {} THEN [events |-> events, tags |-> tags, slot |-> slot, wd |-> wd]
    ELSE LET e == Earliest(events)
         IN  [events |-> events \ {e},
              tags   |-> IF e[2] # NoTag THEN [tags EXCEPT ![e[2]] = 0] ELSE tags,
              slot   |-> slot, wd |-> wd \cup {e[1]}]

Reset == [events |-> {}, tags |-> [g \in Tags |-> 0], slot |-> slot, wd |-> wd \cup Times(events)]

OpSet == {[op |-> "sch", dt |-> d, tag |-> g] : d \in Dts, g \in Tags \cup {NoTag}}
         \cup {[op |-> "uns", dt |-> 0, tag |-> g] : g \in Tags}
         \cup {[op |-> "pop", dt |-> 0, tag |-> g] : g \in Tags}
         \cup {[op |-> "unse", dt |-> 0, tag |-> NoTag], [op |-> "reset", dt |-> 0, tag |-> NoTag]}

Apply(o) == CASE o.op = "sch"   -> Sched(now + o.dt, o.tag)
              [] o.op = "uns"   -> UnschedTag(o.tag)
              [] o.op = "pop"   -> UnschedTag(o.tag)      \* pop_tag = un_schedule(tag) + returned time
              [] o.op = "unse"  -> UnschedEarliest
              [] o.op = "reset" -> Reset

AddOp(o) == [hist EXCEPT ![Len(hist)].ops = Append(@, o)]

Op == /\ phase \in {"starting", "eval"}
      /\ nops < MaxOps
      /\ \E o \in OpSet :
            LET r == Apply(o) IN
            /\ events' = r.events /\ tags' = r.tags /\ slot' = r.slot /\ wd' = r.wd
            /\ hist' = AddOp(o)
      /\ nops' = nops + 1
      /\ UNCHANGED <<now, phase, inputs, schedNow, last, wakeOk>>

FinishStart == /\ phase = "starting"
               /\ phase' = "idle"
               /\ nops' = 0
               /\ UNCHANGED <<now, events, tags, slot, inputs, schedNow, wd, last, wakeOk, hist>>

\* the engine's next cycle in which this node takes part
NextCycle == LET c == {x \in inputs \cup {slot} : x > last /\ x <= MaxT}
             IN  IF c = {} THEN 0 ELSE Min(c)

BeginEval == /\ phase = "idle"
             /\ NextCycle # 0
             /\ LET t == NextCycle IN
                /\ now' = t
                /\ schedNow' = (events # {} /\ First(events) = t)
                /\ wakeOk' = (t \in inputs \/ t \in Times(events) \/ t \in wd)
                /\ hist' = Append(hist, [t |-> t, ops |-> <<>>,
                                          cause |-> IF t \in inputs THEN (IF slot = t THEN "both" ELSE "input") ELSE "sched"])
             /\ phase' = "eval"
             /\ nops' = 0
             \* an input tick notifies the node: the notification schedules it for the current cycle
             \* (schedule_node_impl with when = current time always wins: when < slot or slot <= current)
             /\ slot' = IF NextCycle \in inputs THEN NextCycle ELSE slot
             /\ UNCHANGED <<events, tags, inputs, wd, last>>

\* node.cpp: after user code - consume fired events and re-arm, or just re-arm
EndEval == /\ phase = "eval"
           /\ IF schedNow
              THEN LET ev == {e \in events : e[1] > now}
                   IN  /\ events' = ev
                       /\ tags' = [g \in Tags |-> IF tags[g] # 0 /\ tags[g] <= now THEN 0 ELSE tags[g]]
                       /\ slot' = IF ev # {} THEN GraphSchedule(slot, First(ev)) ELSE slot
              ELSE /\ slot' = IF events # {} THEN GraphSchedule(slot, First(events)) ELSE slot
                   /\ UNCHANGED <<events, tags>>
           /\ phase' = "idle"
           /\ nops' = 0
           /\ last' = now
           /\ UNCHANGED <<now, inputs, schedNow, wd, wakeOk, hist>>

Finish == /\ phase = "idle"
          /\ NextCycle = 0
          /\ phase' = "done"
          /\ (Emit => PrintT(<<"SCHED", ToJson([inputs |-> inputs, hist |-> hist])>>))
          /\ UNCHANGED <<now, events, tags, slot, inputs, schedNow, nops, wd, last, wakeOk, hist>>

Init == /\ now = 1
        /\ phase = "starting"
        /\ events = {}
        /\ tags = [g \in Tags |-> 0]
        /\ slot = 0
        /\ inputs \in SUBSET (1..MaxT)
        /\ Cardinality(inputs) <= 2
        /\ schedNow = FALSE
        /\ nops = 0
        /\ wd = {}
        /\ last = 0
        /\ wakeOk = TRUE
        /\ hist = << [t |-> 1, cause |-> "start", ops |-> <<>>] >>

Next == Op \/ FinishStart \/ BeginEval \/ EndEval \/ Finish
Spec == Init /\ [][Next]_vars /\ WF_vars(Next)

----------------------------------------------------------------------------
TagsAgree == /\ \A g \in Tags : (tags[g] # 0) <=> (<<tags[g], g>> \in events)
             /\ \A e, f \in events : (e[2] # NoTag /\ e[2] = f[2]) => e = f

\* C18: woken at every pending time - nothing pending is ever left in the past
NoMissedWake == phase = "idle" => \A e \in events : e[1] > last

\* C18: a wake-up happens only for an input tick, at a pending time, or at a time the node itself asked for
\* and withdrew (the documented stale-slot behaviour) - never at a time nobody asked for
NotEarly == wakeOk

\* Level B coherence: the graph will wake the node no later than its earliest pending event
SlotCovers == (phase = "idle" /\ events # {}) => (slot > last /\ slot <= First(events))

\* every behaviour ends (the node cannot keep itself alive beyond the horizon)
Terminates == <>(phase = "done")
=============================================================================
