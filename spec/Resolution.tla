------------------------------ MODULE Resolution ------------------------------
(***************************************************************************)
(* C19 - operator resolution (OperatorRegistry::resolve).                  *)
(*                                                                         *)
(* Pure definitions (no variables): the type universe, patterns, the two   *)
(* specification levels and the candidate / argument pools.                *)
(*                                                                         *)
(* LEVEL A (the property; the only level that decides VIOLATION)           *)
(*   Walk / CandWalk   first-order matching stated declaratively: walk the *)
(*                     pattern over the type, collect <<variable, type>>   *)
(*                     constraints; a candidate matches iff the walk       *)
(*                     succeeds structurally, the constraints are          *)
(*                     functional (every variable one type across all      *)
(*                     positions) and the output pattern is closed under   *)
(*                     them                                                *)
(*   Subst             substitution of bindings into the output pattern    *)
(*   AFail             the outcome rule: no matching candidate => the      *)
(*                     resolution error; unique minimum rank among the     *)
(*                     matching candidates => that candidate; shared       *)
(*                     minimum => the ambiguity error.  Ranks are an       *)
(*                     INPUT of level A (whatever the tree reports).       *)
(*                     Formula-independent additions (end of the module):  *)
(*                     pattern subsumption (MoreGeneral), exact versus     *)
(*                     converted scalar values (ExactOver), and "a         *)
(*                     candidate whose parameters match is not rejected"   *)
(*                     (RejFail).                                          *)
(*   VARIADIC candidates (c.v = TRUE: the LAST pattern of c.ps is the tail *)
(*                     pattern, Python's *args).  Declaratively: the fixed *)
(*                     parameters match the leading arguments under one    *)
(*                     substitution sigma (FixedWalk); EVERY further       *)
(*                     argument is an instance of the tail pattern under   *)
(*                     SOME extension of sigma of its own (TailOk: the     *)
(*                     variables bound by the fixed parameters constrain   *)
(*                     every tail argument, a variable that only the tail  *)
(*                     names is local to each tail argument - so tails may *)
(*                     be heterogeneous); plain values in the tail promote *)
(*                     like anywhere else; the result bindings are sigma   *)
(*                     alone, so the output pattern must be closed under   *)
(*                     the FIXED parameters' variables (type, scalar and   *)
(*                     SIZE variables alike).                              *)
(*                                                                         *)
(* LEVEL B (implementation shaped; disagreement with the tree is DRIFT)    *)
(*   MatchB            sequential bind-on-first-use / compare-afterwards   *)
(*                     matcher with a map threaded through the parameters  *)
(*   RankB             the documented ranking formula (operators.rst       *)
(*                     "Ranking"; operator_dispatch.h operator_rank):      *)
(*                     structural cost + per-variable minimum of a budget  *)
(*                     10000 / 100 / 1 that halves per nesting level       *)
(*   PRankB            type_pattern.cpp ts_pattern_rank / scalar_.._rank   *)
(*   ResolveB          try-match in registration order, stable sort by     *)
(*                     rank, tie test on the first two survivors           *)
(*   TailFromB         the tail loop of try_match: every tail argument is  *)
(*                     matched in a throw-away COPY of the map made by the *)
(*                     fixed parameters; rank += tail_rank * #tail + 1,    *)
(*                     +1 per plain value in the tail (DRIFT level only)   *)
(*   The B operators take a fault name ("none" = the tree); MCResolution's *)
(*   named-fault configurations must violate level A.                      *)
(*                                                                         *)
(* Term representation (uniform, so that TLC never compares values of      *)
(* different shapes): [k |-> kind, s |-> string payload, c |-> children].  *)
(*   sc  scalar type, s = "int" | "float" | "str"                          *)
(*   sv  scalar variable, s = "$S"       tv  time-series variable, "~T"    *)
(*   conc  concrete interned leaf, c = <<type>>                            *)
(*   TS TSS (c = <<scalar>>)  TSL (c = <<elem>>, s = size "0" "2" "3" or   *)
(*   a size variable "#N")  TSD (c = <<key, value>>)  TSB (s = field names *)
(*   "a,b", c = fields)  REF (c = <<target>>)  SIG                          *)
(*   sz  the binding of a size variable, s = the size                      *)
(* In a TYPE a TSL size "0" is the dynamic list; in a PATTERN "0" leaves   *)
(* the size unconstrained (type_pattern.h: 0 = dynamic / unconstrained).   *)
(* A top-level sc / sv parameter is a scalar parameter; a top-level sc     *)
(* argument is a plain value (it promotes to a const source, TS<sc>, when  *)
(* supplied to a time-series parameter).                                   *)
(***************************************************************************)
EXTENDS Integers, Sequences, FiniteSets, TLC

Tm(k, s, c) == [k |-> k, s |-> s, c |-> c]
Sc(x)     == Tm("sc", x, <<>>)
SInt      == Sc("int")
SFlt      == Sc("float")
SStr      == Sc("str")
SV(x)     == Tm("sv", x, <<>>)
TV(x)     == Tm("tv", x, <<>>)
Conc(t)   == Tm("conc", "", <<t>>)
TS(a)     == Tm("TS", "", <<a>>)
TSS(a)    == Tm("TSS", "", <<a>>)
TSL(a, n) == Tm("TSL", n, <<a>>)
TSD(k, v) == Tm("TSD", "", <<k, v>>)
TSB(a, b) == Tm("TSB", "a,b", <<a, b>>)
REF(a)    == Tm("REF", "", <<a>>)
SIG       == Tm("SIG", "", <<>>)
Sz(n)     == Tm("sz", n, <<>>)

SizeVars == {"#N", "#M"}
Numeric  == {"int", "float"}
IsScalarTerm(t) == t.k \in {"sc", "sv"}

MinOf(X) == CHOOSE x \in X : \A y \in X : x <= y
Range(f) == {f[i] : i \in DOMAIN f}

(* children rebuilt as explicit tuples (arity <= 2 everywhere) *)
MapC(c, Op(_)) == IF Len(c) = 0 THEN <<>> ELSE IF Len(c) = 1 THEN <<Op(c[1])>> ELSE <<Op(c[1]), Op(c[2])>>

RECURSIVE Deref(_)
Deref(t) == IF t.k = "REF" THEN Deref(t.c[1]) ELSE Tm(t.k, t.s, MapC(t.c, Deref))

RECURSIVE StripRef(_)
StripRef(p) == IF p.k = "REF" THEN StripRef(p.c[1]) ELSE p

(* variables of a pattern *)
RECURSIVE PVars(_)
PVars(p) == (IF p.k \in {"sv", "tv"} THEN {p.s} ELSE {})
            \cup (IF p.k = "TSL" /\ p.s \in SizeVars THEN {p.s} ELSE {})
            \cup (IF p.k = "conc" THEN {} ELSE UNION {PVars(p.c[i]) : i \in 1..Len(p.c)})

-----------------------------------------------------------------------------
(* LEVEL A: matching as constraint collection                               *)
Bad        == [ok |-> FALSE, cs |-> {}]
Good(cs)   == [ok |-> TRUE, cs |-> cs]
Both(x, y) == [ok |-> x.ok /\ y.ok, cs |-> x.cs \cup y.cs]

WalkS(p, t) == IF p.k = "sv" THEN Good({<<p.s, t>>}) ELSE IF p = t THEN Good({}) ELSE Bad

RECURSIVE Walk(_, _)
Walk(p, t) ==
    IF p.k = "SIG" THEN (IF t.k = "sc" THEN Bad ELSE Good({}))                 \* a SIGNAL input accepts any time-series
    ELSE IF p.k # "REF" /\ t.k = "REF" THEN Walk(p, t.c[1])                    \* REF[X] is type-compatible with X
    ELSE CASE p.k = "tv"   -> Good({<<p.s, t>>})
           [] p.k = "conc" -> IF Deref(p.c[1]) = Deref(t) THEN Good({}) ELSE Bad
           [] p.k = "REF"  -> Walk(p.c[1], IF t.k = "REF" THEN t.c[1] ELSE t)
           [] p.k \in {"TS", "TSS"} -> IF t.k = p.k THEN WalkS(p.c[1], t.c[1]) ELSE Bad
           [] p.k = "TSL"  -> IF t.k # "TSL" THEN Bad
                              ELSE IF p.s \in SizeVars THEN Both(Good({<<p.s, Sz(t.s)>>}), Walk(p.c[1], t.c[1]))
                              ELSE IF p.s = "0" \/ p.s = t.s THEN Walk(p.c[1], t.c[1]) ELSE Bad
           [] p.k = "TSD"  -> IF t.k # "TSD" THEN Bad ELSE Both(WalkS(p.c[1], t.c[1]), Walk(p.c[2], t.c[2]))
           [] p.k = "TSB"  -> IF t.k # "TSB" \/ t.s # p.s \/ Len(t.c) # Len(p.c) THEN Bad
                              ELSE Both(Walk(p.c[1], t.c[1]), Walk(p.c[2], t.c[2]))
           [] OTHER        -> Bad

(* one parameter against one argument.  Scalar parameter: the argument must be a plain value of that type (or of a
   type with a standard numeric conversion) / any type for a scalar variable.  Time-series parameter given a plain
   value: the value promotes to TS<value type> (auto-const rule); SIGNAL has no value schema a value could match. *)
ParamWalk(p, a) ==
    IF IsScalarTerm(p)
    THEN IF a.k # "sc" THEN Bad
         ELSE IF p.k = "sv" THEN Good({<<p.s, a>>})
         ELSE IF p.s = a.s \/ (p.s \in Numeric /\ a.s \in Numeric) THEN Good({}) ELSE Bad
    ELSE IF a.k = "sc" THEN (IF StripRef(p).k = "SIG" THEN Bad ELSE Walk(p, TS(a)))
    ELSE Walk(p, a)

RECURSIVE WalkFrom(_, _, _)
WalkFrom(ps, as, i) == IF i > Len(ps) THEN Good({}) ELSE Both(ParamWalk(ps[i], as[i]), WalkFrom(ps, as, i + 1))

Functional(cs) == \A x, y \in cs : x[1] = y[1] => x[2] = y[2]
Bound(cs)      == {x[1] : x \in cs}
SigmaOf(cs)    == [v \in Bound(cs) |-> (CHOOSE x \in cs : x[1] = v)[2]]

(* Variadic candidates: the last pattern is the tail pattern (always a time-series pattern).                         *)
NFixed(c)   == IF c.v THEN Len(c.ps) - 1 ELSE Len(c.ps)
TailPat(c)  == c.ps[Len(c.ps)]
TailIdx(c, args) == IF c.v THEN (NFixed(c) + 1)..Len(args) ELSE {}
(* the fixed parameters against the leading arguments: the constraints that make up the result bindings *)
FixedWalk(c, args) == IF c.v THEN (IF Len(args) < NFixed(c) THEN Bad ELSE WalkFrom(SubSeq(c.ps, 1, NFixed(c)), args, 1))
                      ELSE IF Len(c.ps) # Len(args) THEN Bad ELSE WalkFrom(c.ps, args, 1)
(* ws extends cs: ws is functional on its own and agrees with cs wherever both bind *)
Extends(cs, ws) == Functional(ws) /\ \A x \in cs, y \in ws : x[1] = y[1] => x[2] = y[2]
(* one tail argument is an instance of the tail pattern under an extension of the fixed parameters' bindings *)
TailArgOk(c, a, cs) == LET w == ParamWalk(TailPat(c), a) IN w.ok /\ Extends(cs, w.cs)
TailOk(c, args, cs) == \A j \in TailIdx(c, args) : TailArgOk(c, args[j], cs)
(* parameters accept the arguments; cs = the bindings (of the fixed parameters) *)
CandWalk(c, args) == LET f == FixedWalk(c, args) IN IF f.ok /\ TailOk(c, args, f.cs) THEN f ELSE Bad

(* a candidate matches: one substitution makes every parameter accept its argument (every tail argument under an
   extension of its own), and the output is closed under it - type, scalar and size variables alike *)
MatchesA(c, args) == LET w == CandWalk(c, args) IN w.ok /\ Functional(w.cs) /\ PVars(c.o) \subseteq Bound(w.cs)

RECURSIVE Subst(_, _)
Subst(p, sg) ==
    CASE p.k \in {"sv", "tv"} -> sg[p.s]
      [] p.k = "conc"         -> p.c[1]
      [] p.k = "TSL"          -> Tm("TSL", IF p.s \in SizeVars THEN sg[p.s].s ELSE p.s, <<Subst(p.c[1], sg)>>)
      [] Len(p.c) = 0         -> p
      [] Len(p.c) = 1         -> Tm(p.k, p.s, <<Subst(p.c[1], sg)>>)
      [] OTHER                -> Tm(p.k, p.s, <<Subst(p.c[1], sg), Subst(p.c[2], sg)>>)

(* The outcome rule.  cands: set of candidate records [l, ps, o]; args: tuple of types; rk: label -> rank (supplied);
   o: [kind, sel, bind (set of <<var, type>>), out, tied (set of labels)].  Returns "" or the first clause that fails.
   AFail (end of the module) = AFailCore + the formula-independent subsumption clause. *)
AFailCore(cands, args, rk, o) ==
    LET M    == {c \in cands : MatchesA(c, args)}
        best == MinOf({rk[c.l] : c \in M})
        Best == {c \in M : rk[c.l] = best}
        selc == CHOOSE c \in cands : c.l = o.sel
        w    == FixedWalk(selc, args)
        sg   == SigmaOf(o.bind)
    IN  IF o.kind \notin {"ok", "nomatch", "ambiguous"} THEN "C19.resolution_raised_an_unexpected_error"
        ELSE IF o.kind = "ok" /\ ~(\E c \in cands : c.l = o.sel) THEN "C19.selected_candidate_is_not_a_member_of_the_family"
        ELSE IF o.kind = "ok" /\ ~w.ok THEN "C19.selected_candidate_does_not_match_arguments"
        ELSE IF o.kind = "ok" /\ ~Functional(w.cs) THEN "C19.variable_bound_to_two_types"
        ELSE IF o.kind = "ok" /\ ~Functional(o.bind) THEN "C19.variable_bound_to_two_types"
        ELSE IF o.kind = "ok" /\ ~TailOk(selc, args, w.cs) THEN "C19.selected_variadic_candidate_does_not_match_a_tail_argument"
        ELSE IF o.kind = "ok" /\ ~(\A x \in w.cs : x[1] \in DOMAIN sg /\ sg[x[1]] = x[2])
             THEN "C19.reported_binding_is_not_the_matched_type"
        ELSE IF o.kind = "ok" /\ selc.v /\ \E x \in o.bind : x[1] \notin Bound(w.cs)
             THEN "C19.tail_argument_bound_a_variable_for_other_positions"
        ELSE IF o.kind = "ok" /\ ~((PVars(selc.o) \cap SizeVars) \subseteq DOMAIN sg)
             THEN "C19.output_size_is_not_explained_by_any_binding"
        ELSE IF o.kind = "ok" /\ ~(PVars(selc.o) \subseteq DOMAIN sg) THEN "C19.output_type_uses_an_unbound_variable"
        ELSE IF o.kind = "ok" /\ o.out # Subst(selc.o, sg) THEN "C19.output_type_is_not_substitution_of_bindings"
        ELSE IF M = {} /\ o.kind # "nomatch" THEN "C19.no_match_not_reported"
        ELSE IF M # {} /\ o.kind = "nomatch" THEN "C19.resolution_error_although_a_candidate_matches"
        ELSE IF M # {} /\ Cardinality(Best) > 1 /\ o.kind # "ambiguous" THEN "C19.ambiguity_not_reported"
        ELSE IF o.kind = "ambiguous" /\ ~(M # {} /\ Cardinality(Best) > 1)
             THEN "C19.ambiguity_reported_although_the_most_specific_match_is_unique"
        ELSE IF o.kind = "ok" /\ ~(Cardinality(Best) = 1 /\ selc \in Best) THEN "C19.selected_is_not_unique_minimum_rank"
        ELSE ""

(* what must not depend on the registration order *)
Canon(o) == [kind |-> o.kind, sel |-> o.sel, bind |-> o.bind, out |-> o.out, tied |-> o.tied]

-----------------------------------------------------------------------------
(* LEVEL B: the implementation-shaped matcher                               *)
Bind(m, v, t) == IF v \in DOMAIN m THEN [ok |-> m[v] = t, m |-> m] ELSE [ok |-> TRUE, m |-> m @@ (v :> t)]
NoB(m)        == [ok |-> FALSE, m |-> m]

ScalarB(p, t, m) == IF p.k = "sv" THEN Bind(m, p.s, t) ELSE [ok |-> p = t, m |-> m]

SizeB(p, n, m) == IF p.s \in SizeVars THEN Bind(m, p.s, Sz(n)) ELSE [ok |-> p.s = "0" \/ p.s = n, m |-> m]

RECURSIVE MatchB(_, _, _)    \* input_ts_pattern_match / ts_pattern_match
MatchB(p, t, m) ==
    IF p.k = "SIG" THEN [ok |-> TRUE, m |-> m]
    ELSE IF p.k # "REF" /\ t.k = "REF" THEN MatchB(p, t.c[1], m)
    ELSE CASE p.k = "tv"   -> Bind(m, p.s, t)
           [] p.k = "conc" -> [ok |-> Deref(p.c[1]) = Deref(t), m |-> m]
           [] p.k = "REF"  -> MatchB(p.c[1], IF t.k = "REF" THEN t.c[1] ELSE t, m)
           [] p.k \in {"TS", "TSS"} -> IF t.k = p.k THEN ScalarB(p.c[1], t.c[1], m) ELSE NoB(m)
           [] p.k = "TSL"  -> IF t.k # "TSL" THEN NoB(m)
                              ELSE LET r == SizeB(p, t.s, m) IN IF r.ok THEN MatchB(p.c[1], t.c[1], r.m) ELSE r
           [] p.k = "TSD"  -> IF t.k # "TSD" THEN NoB(m)
                              ELSE LET r == ScalarB(p.c[1], t.c[1], m) IN IF r.ok THEN MatchB(p.c[2], t.c[2], r.m) ELSE r
           [] p.k = "TSB"  -> IF t.k # "TSB" \/ t.s # p.s \/ Len(t.c) # Len(p.c) THEN NoB(m)
                              ELSE LET r == MatchB(p.c[1], t.c[1], m) IN IF r.ok THEN MatchB(p.c[2], t.c[2], r.m) ELSE r
           [] OTHER        -> NoB(m)

RECURSIVE PromoteB(_, _, _)  \* scalar_value_matches_ts_pattern: a plain value v supplied to a time-series parameter
PromoteB(p, v, m) ==
    CASE p.k = "REF"  -> PromoteB(p.c[1], v, m)
      [] p.k = "tv"   -> IF p.s \in DOMAIN m THEN [ok |-> m[p.s] = TS(v), m |-> m] ELSE Bind(m, p.s, TS(v))
      [] p.k = "conc" -> [ok |-> p.c[1] = TS(v), m |-> m]
      [] p.k = "TS"   -> ScalarB(p.c[1], v, m)
      [] OTHER        -> NoB(m)       \* TSS / TSL / TSD / TSB need a set / list / map / bundle value; SIGNAL a bool

(* one parameter; adj = rank adjustment (promotion to a const source +1, numeric conversion of a scalar +1) *)
ParamB(p, a, m) ==
    IF IsScalarTerm(p)
    THEN IF a.k # "sc" THEN [ok |-> FALSE, m |-> m, adj |-> 0]
         ELSE IF p.k = "sv" THEN LET r == Bind(m, p.s, a) IN [ok |-> r.ok, m |-> r.m, adj |-> 0]
         ELSE IF p.s = a.s THEN [ok |-> TRUE, m |-> m, adj |-> 0]
         ELSE [ok |-> p.s \in Numeric /\ a.s \in Numeric, m |-> m, adj |-> IF p.s \in Numeric /\ a.s \in Numeric THEN 1 ELSE 0]
    ELSE IF a.k = "sc" THEN LET r == PromoteB(p, a, m) IN [ok |-> r.ok, m |-> r.m, adj |-> 1]
    ELSE LET r == MatchB(p, a, m) IN [ok |-> r.ok, m |-> r.m, adj |-> 0]

RECURSIVE TryFrom(_, _, _, _, _)
TryFrom(ps, as, i, m, adj) ==
    IF i > Len(ps) THEN [ok |-> TRUE, m |-> m, adj |-> adj]
    ELSE LET r == ParamB(ps[i], as[i], m)
         IN IF r.ok THEN TryFrom(ps, as, i + 1, r.m, adj + r.adj) ELSE [ok |-> FALSE, m |-> r.m, adj |-> adj + r.adj]

EmptyMap == [v \in {} |-> 0]

(* Named faults of level B (realistic slips in try_match / ts_pattern_resolve; "none" = the tree):                    *)
(*   tail_scalar_shares_map     a plain value in the tail is matched in the shared map instead of the scoped copy     *)
(*   tail_ts_shares_map         a time-series tail argument is matched in the shared map instead of the scoped copy   *)
(*   tail_ignores_fixed_bindings  the tail scope starts empty instead of as a copy of the fixed parameters' map       *)
(*   tail_first_argument_only   only the first tail argument is matched (loop leaves after one tail argument)         *)
(*   unbound_output_size_defaults  an output size variable that nothing binds falls back to the pattern's size 0      *)
Faults == {"none", "tail_scalar_shares_map", "tail_ts_shares_map", "tail_ignores_fixed_bindings",
           "tail_first_argument_only", "unbound_output_size_defaults"}

(* the tail loop of try_match: argument j against the tail pattern pt in a scope derived from m *)
RECURSIVE TailFromB(_, _, _, _, _, _)
TailFromB(pt, as, j, m, adj, fault) ==
    IF j > Len(as) THEN [ok |-> TRUE, m |-> m, adj |-> adj]
    ELSE LET plain == as[j].k = "sc"
             scope == IF fault = "tail_ignores_fixed_bindings" THEN EmptyMap ELSE m            \* ResolutionMap tail_scope = map;
             r     == IF plain THEN PromoteB(pt, as[j], scope) ELSE MatchB(pt, as[j], scope)
             adj2  == adj + (IF plain THEN 1 ELSE 0)
             keep  == (plain /\ fault = "tail_scalar_shares_map") \/ (~plain /\ fault = "tail_ts_shares_map")
             m2    == IF keep THEN r.m ELSE m                                                   \* the scope is thrown away
         IN  IF ~r.ok THEN [ok |-> FALSE, m |-> m2, adj |-> adj2]
             ELSE IF fault = "tail_first_argument_only" THEN [ok |-> TRUE, m |-> m2, adj |-> adj2]
             ELSE TailFromB(pt, as, j + 1, m2, adj2, fault)

(* is the output pattern resolvable from the map (ts_pattern_resolve # nullptr) *)
OutClosedB(c, m, fault) == (PVars(c.o) \ (IF fault = "unbound_output_size_defaults" THEN SizeVars ELSE {})) \subseteq DOMAIN m

(* tailrank = the rank of the tail pattern on its own (operator_dispatch_detail::param_pattern_rank; TailRankB below) *)
TryMatchBF(c, args, tailrank, fault) ==
    IF ~c.v
    THEN IF Len(c.ps) # Len(args) THEN [ok |-> FALSE, m |-> EmptyMap, adj |-> 0]               \* normalize_call rejects
         ELSE LET r == TryFrom(c.ps, args, 1, EmptyMap, 0)
              IN IF r.ok /\ ~OutClosedB(c, r.m, fault) THEN [ok |-> FALSE, m |-> r.m, adj |-> r.adj] ELSE r
    ELSE IF Len(args) < NFixed(c) THEN [ok |-> FALSE, m |-> EmptyMap, adj |-> 0]                \* missing required argument
    ELSE LET up == tailrank * (Len(args) - NFixed(c)) + 1                                      \* added before any matching
             r  == TryFrom(SubSeq(c.ps, 1, NFixed(c)), args, 1, EmptyMap, up)
             t  == IF r.ok THEN TailFromB(TailPat(c), args, NFixed(c) + 1, r.m, r.adj, fault) ELSE r
         IN  IF t.ok /\ ~OutClosedB(c, t.m, fault) THEN [ok |-> FALSE, m |-> t.m, adj |-> t.adj] ELSE t

(* the documented rank: [st |-> structural cost, vs |-> {<<variable, cost at this occurrence>>}] *)
Half(b)    == IF b \div 2 < 1 THEN 1 ELSE b \div 2
RZero      == [st |-> 0, vs |-> {}]
RAdd(x, y) == [st |-> x.st + y.st, vs |-> x.vs \cup y.vs]
RInc(x)    == [st |-> x.st + 1, vs |-> x.vs]
RankS(p, b) == IF p.k = "sv" THEN [st |-> 0, vs |-> {<<p.s, b>>}] ELSE RZero

RECURSIVE RankT(_, _)
RankT(p, b) ==
    CASE p.k = "tv"           -> [st |-> 0, vs |-> {<<p.s, b>>}]
      [] p.k \in {"conc", "SIG"} -> RZero
      [] p.k \in {"TS", "TSS"} -> RInc(RankS(p.c[1], 100))
      [] p.k = "TSL"          -> RInc(RankT(p.c[1], Half(b)))               \* a size variable costs nothing
      [] p.k = "TSD"          -> RInc(RAdd(RankS(p.c[1], 100), RankT(p.c[2], Half(b))))
      [] p.k = "TSB"          -> RInc(RAdd(RankT(p.c[1], Half(b)), RankT(p.c[2], Half(b))))
      [] p.k = "REF"          -> RankT(p.c[1], b)
      [] OTHER                -> RZero

RankP(p) == IF IsScalarTerm(p) THEN RankS(p, 1) ELSE RankT(p, 10000)
RECURSIVE RankFrom(_, _)
RankFrom(ps, i) == IF i > Len(ps) THEN RZero ELSE RAdd(RankP(ps[i]), RankFrom(ps, i + 1))
RECURSIVE SumMin(_, _)
SumMin(vs, names) == IF names = {} THEN 0
                     ELSE LET v == CHOOSE x \in names : TRUE
                          IN MinOf({x[2] : x \in {y \in vs : y[1] = v}}) + SumMin(vs, names \ {v})
RankOf(ps) == LET r == RankFrom(ps, 1) IN r.st + SumMin(r.vs, {x[1] : x \in r.vs})
RankB(c) == RankOf(SubSeq(c.ps, 1, NFixed(c)))                 \* operator_rank(params, skip_variadic_tail = impl.variadic)
TailRankB(c) == IF c.v THEN RankOf(<<TailPat(c)>>) ELSE 0      \* param_pattern_rank(impl.params.back())
TryMatchFB(c, args, fault) == TryMatchBF(c, args, TailRankB(c), fault)
TryMatchB(c, args) == TryMatchFB(c, args, "none")

(* type_pattern.cpp ts_pattern_rank / scalar_pattern_rank summed over the parameters (no budget, no de-duplication) *)
PRankS(p) == IF p.k = "sv" THEN 100 ELSE 0
RECURSIVE PRankT(_)
PRankT(p) ==
    CASE p.k = "tv"  -> 10000
      [] p.k \in {"TS", "TSS"} -> 1 + PRankS(p.c[1])
      [] p.k = "TSL" -> 1 + PRankT(p.c[1]) + (IF p.s \in SizeVars THEN 5 ELSE IF p.s = "0" THEN 10 ELSE 0)
      [] p.k = "TSD" -> 1 + PRankS(p.c[1]) + PRankT(p.c[2])
      [] p.k = "TSB" -> 1 + PRankT(p.c[1]) + PRankT(p.c[2])
      [] p.k = "REF" -> PRankT(p.c[1])
      [] OTHER       -> 0
RECURSIVE PRankFrom(_, _)
PRankFrom(ps, i) == IF i > Len(ps) THEN 0
                    ELSE (IF IsScalarTerm(ps[i]) THEN PRankS(ps[i]) ELSE PRankT(ps[i])) + PRankFrom(ps, i + 1)
PRankB(c) == PRankFrom(c.ps, 1)

(* stable sort of survivors by rank: an element is inserted behind every element of the same rank *)
RECURSIVE InsertStable(_, _)
InsertStable(s, x) == IF s = <<>> THEN <<x>>
                      ELSE IF Head(s).rank <= x.rank THEN <<Head(s)>> \o InsertStable(Tail(s), x) ELSE <<x>> \o s
RECURSIVE StableSort(_)
StableSort(s) == IF s = <<>> THEN <<>> ELSE InsertStable(StableSort(SubSeq(s, 1, Len(s) - 1)), s[Len(s)])

MapPairs(m) == {<<v, m[v]>> : v \in DOMAIN m}

(* substitution as the (faulty) tree computes it: an unbound size variable falls back to the pattern's size 0 *)
RECURSIVE SubstF(_, _)
SubstF(p, sg) ==
    CASE p.k \in {"sv", "tv"} -> sg[p.s]
      [] p.k = "conc"         -> p.c[1]
      [] p.k = "TSL"          -> Tm("TSL", IF p.s \in SizeVars THEN (IF p.s \in DOMAIN sg THEN sg[p.s].s ELSE "0") ELSE p.s,
                                    <<SubstF(p.c[1], sg)>>)
      [] Len(p.c) = 0         -> p
      [] Len(p.c) = 1         -> Tm(p.k, p.s, <<SubstF(p.c[1], sg)>>)
      [] OTHER                -> Tm(p.k, p.s, <<SubstF(p.c[1], sg), SubstF(p.c[2], sg)>>)

(* fam: sequence of candidates in registration order *)
ResolveFB(fam, args, fault) ==
    LET tried == [i \in 1..Len(fam) |-> TryMatchFB(fam[i], args, fault)]
        entry(i) == [l |-> fam[i].l, rank |-> RankB(fam[i]) + tried[i].adj, m |-> tried[i].m, o |-> fam[i].o]
        RECURSIVE Surv(_)
        Surv(i) == IF i > Len(fam) THEN <<>> ELSE (IF tried[i].ok THEN <<entry(i)>> ELSE <<>>) \o Surv(i + 1)
        sorted == StableSort(Surv(1))
    IN  IF sorted = <<>> THEN [kind |-> "nomatch", sel |-> "", bind |-> {}, out |-> SIG, tied |-> {}]
        ELSE IF Len(sorted) > 1 /\ sorted[1].rank = sorted[2].rank
        THEN [kind |-> "ambiguous", sel |-> "", bind |-> {}, out |-> SIG,
              tied |-> {sorted[i].l : i \in {j \in 1..Len(sorted) : sorted[j].rank = sorted[1].rank}}]
        ELSE [kind |-> "ok", sel |-> sorted[1].l, bind |-> MapPairs(sorted[1].m), out |-> SubstF(sorted[1].o, sorted[1].m),
              tied |-> {}]
ResolveB(fam, args) == ResolveFB(fam, args, "none")

(* level B's per-candidate predictions: base rank, effective rank, ts_pattern_rank sum, survivor? *)
PredictB(c, args) == LET t == TryMatchB(c, args)
                     IN [l |-> c.l, base |-> RankB(c), eff |-> RankB(c) + t.adj, prank |-> PRankB(c), m |-> t.ok]

-----------------------------------------------------------------------------
(* The pools.  A candidate is [l |-> label, ps |-> parameter patterns, o |-> output pattern, v |-> variadic?]; when v  *)
(* is TRUE the last pattern of ps is the tail pattern (zero or more trailing arguments).                             *)
Cand(l, ps, o)  == [l |-> l, ps |-> ps, o |-> o, v |-> FALSE]
VCand(l, ps, o) == [l |-> l, ps |-> ps, o |-> o, v |-> TRUE]
vS == SV("$S")
vR == SV("$R")
vK == SV("$K")
vT == TV("~T")
vU == TV("~U")
vV == TV("~V")
TSi == TS(SInt)
TSf == TS(SFlt)
TSs == TS(SStr)

AllU == <<
    Cand("u01", <<vT>>, vT),                                               \*  1 bare time-series variable
    Cand("u02", <<TSi>>, TSi),                                             \*  2 concrete, structural form
    Cand("u03", <<Conc(TSi)>>, TSi),                                       \*  3 concrete interned leaf
    Cand("u04", <<TS(vS)>>, TS(vS)),                                       \*  4 generic in the scalar
    Cand("u05", <<TSf>>, TSf),                                             \*  5
    Cand("u06", <<TSS(vS)>>, TS(vS)),                                      \*  6
    Cand("u07", <<TSL(TSi, "2")>>, TSi),                                   \*  7
    Cand("u08", <<TSL(TS(vS), "#N")>>, TSL(TS(vS), "#N")),                 \*  8 size variable
    Cand("u09", <<TSL(vT, "#N")>>, vT),                                    \*  9 nested whole-TS variable
    Cand("u10", <<TSL(TSi, "0")>>, TSi),                                   \* 10 unconstrained size
    Cand("u11", <<TSD(vK, vV)>>, vV),                                      \* 11
    Cand("u12", <<TSD(vK, TS(vK))>>, TS(vK)),                              \* 12 repeated variable key / value
    Cand("u13", <<TSB(TS(vS), TS(vS))>>, TS(vS)),                          \* 13 repeated variable across fields
    Cand("u14", <<TSB(vT, vU)>>, TSB(vU, vT)),                             \* 14 output swaps the bindings
    Cand("u15", <<REF(vT)>>, REF(vT)),                                     \* 15 REF parameter
    Cand("u16", <<SIG>>, SIG),                                             \* 16 SIGNAL parameter
    Cand("u17", <<TSi>>, TS(vS)),                                          \* 17 output variable never bound: ill-formed
    Cand("u18", <<vS>>, TS(vS)),                                           \* 18 scalar parameter, variable
    Cand("u19", <<SInt>>, TSi),                                            \* 19 scalar parameter, concrete
    Cand("u20", <<TSi>>, TSf),                                             \* 20 same parameters as u02: always ties
    Cand("u21", <<vU>>, TSL(vU, "2")),                                     \* 21 same shape as u01: always ties
    Cand("u22", <<TSS(SInt)>>, TSS(SInt)),                                 \* 22
    Cand("u23", <<TSL(TS(vS), "2")>>, TS(vS)),                             \* 23
    Cand("u24", <<TSL(vT, "2")>>, TSL(vT, "3")),                           \* 24
    Cand("u25", <<TSD(SInt, vV)>>, TSD(SInt, vV)),                         \* 25
    Cand("u26", <<TSD(vK, TS(vS))>>, TSD(vS, TS(vK))),                     \* 26
    Cand("u27", <<TSB(TSi, vT)>>, vT),                                     \* 27
    Cand("u28", <<REF(TSi)>>, TSi),                                        \* 28
    Cand("u29", <<REF(TS(vS))>>, REF(TS(vS))),                             \* 29
    Cand("u30", <<SFlt>>, TSf),                                            \* 30 scalar parameter float
    Cand("u31", <<TSL(TSL(TS(vS), "#N"), "#N")>>, TS(vS)),                 \* 31 repeated size variable
    Cand("u32", <<TSL(TSL(vT, "2"), "#N")>>, TSL(vT, "#N")),               \* 32
    Cand("u33", <<Conc(TSL(TSi, "2"))>>, TSL(TSi, "2")),                   \* 33
    Cand("u34", <<TSD(SInt, TSf)>>, TSf),                                  \* 34
    Cand("u35", <<TSD(vK, REF(TS(vS)))>>, TS(vS)),                         \* 35 REF nested in a TSD value (reduce_tsd_with_race)
    Cand("u36", <<TSD(vK, SIG)>>, TSS(vK)),                                \* 36 SIGNAL nested in a TSD value
    Cand("u37", <<TSL(REF(vT), "#N")>>, vT),                               \* 37 REF nested in a TSL element
    Cand("u38", <<TSB(SIG, REF(TS(vS)))>>, TS(vS)),                        \* 38 SIGNAL / REF nested in bundle fields
    Cand("u39", <<TSD(vK, REF(vV))>>, REF(vV)),                            \* 39 same shape as u11 up to REF: always ties
    Cand("u40", <<TSL(SIG, "0")>>, SIG),                                   \* 40 SIGNAL nested in a TSL element
    Cand("u41", <<TSi>>, TSL(TSi, "#N")),                                  \* 41 } output SIZE variable that no input binds:
    Cand("u42", <<TSL(vT, "2")>>, TSL(vT, "#N")),                          \* 42 } never a match ("output type could not be
    Cand("u43", <<TSL(TS(vS), "#N")>>, TSL(TS(vS), "#M")),                 \* 43 } resolved"); 43 binds another size variable
    Cand("u44", <<vT>>, TSL(vT, "#N")) >>                                  \* 44 }

AllB == <<
    Cand("b01", <<vT, vT>>, vT),                                           \*  1 repeated whole-TS variable
    Cand("b02", <<vT, vU>>, vU),                                           \*  2 independent variables
    Cand("b03", <<TS(vS), TS(vS)>>, TS(vS)),                               \*  3 repeated scalar variable
    Cand("b04", <<TS(vS), TS(vR)>>, TS(vR)),                               \*  4
    Cand("b05", <<TSi, TSi>>, TSi),                                        \*  5
    Cand("b06", <<TSi, TSf>>, TSf),                                        \*  6
    Cand("b07", <<TS(vS), vS>>, TS(vS)),                                   \*  7 variable shared with a scalar parameter
    Cand("b08", <<TS(vS), TSi>>, TS(vS)),                                  \*  8 } symmetric pair: tie on (TS<int>, TS<int>)
    Cand("b09", <<TSi, TS(vS)>>, TS(vS)),                                  \*  9 }
    Cand("b10", <<TSL(vT, "#N"), TSL(vT, "#N")>>, vT),                     \* 10 repeated size variable
    Cand("b11", <<TSL(vT, "#N"), TSL(vT, "#M")>>, TSL(vT, "#M")),          \* 11
    Cand("b12", <<TSD(vK, vV), TS(vK)>>, vV),                              \* 12
    Cand("b13", <<REF(vT), vT>>, REF(vT)),                                 \* 13
    Cand("b14", <<SIG, vT>>, vT),                                          \* 14
    Cand("b15", <<TSi, SFlt>>, TSf),                                       \* 15 concrete scalar parameter
    Cand("b16", <<vU, vU>>, TSL(vU, "2")),                                 \* 16 same shape as b01: always ties
    Cand("b17", <<TSf, TSf>>, TSf),                                        \* 17
    Cand("b18", <<TS(vS), SInt>>, TS(vS)),                                 \* 18
    Cand("b19", <<vT, TS(vS)>>, TSD(vS, vT)),                              \* 19
    Cand("b20", <<TSL(TS(vS), "#N"), TS(vS)>>, TS(vS)),                    \* 20
    Cand("b21", <<TSD(vK, vV), vK>>, REF(vV)),                             \* 21
    Cand("b22", <<TSS(vS), TS(vS)>>, TSS(vS)),                             \* 22
    Cand("b23", <<TS(vS), SIG>>, TS(vS)),                                  \* 23
    Cand("b24", <<Conc(TSi), Conc(TSi)>>, TSi),                            \* 24
    Cand("b25", <<vT, TSi>>, vT),                                          \* 25
    Cand("b26", <<TSL(vT, "2"), vT>>, vT),                                 \* 26
    Cand("b27", <<vS, vS>>, TS(vS)),                                       \* 27 two scalar parameters, one variable
    Cand("b28", <<TSB(vT, vU), vT>>, vU),                                  \* 28
    Cand("b29", <<TSi, SInt>>, TSi),                                       \* 29 } differ only in the concrete scalar parameter
    Cand("b30", <<TS(vS), SFlt>>, TS(vS)),                                 \* 30 } (b29 / b15, b18 / b30): exact beats converted
    Cand("b31", <<TSD(vK, REF(TS(vS))), TS(vS)>>, TS(vS)),                 \* 31 nested REF sharing its variable
    Cand("b32", <<SInt, SFlt>>, TSi),                                      \* 32 } two concrete scalar parameters, crossed
    Cand("b33", <<SFlt, SInt>>, TSf),                                      \* 33 }
    Cand("b34", <<TSD(vK, SIG), TS(vK)>>, TSS(vK)),                        \* 34 nested SIGNAL
    Cand("b35", <<TSL(vT, "#N"), TSi>>, TSL(vT, "#M")),                    \* 35 } output size variable that no input binds
    Cand("b36", <<TSi, TSi>>, TSL(TSi, "#N")) >>                           \* 36 }

(* variadic candidates: the last pattern is the tail *)
AllV == <<
    VCand("v01", <<TS(vS)>>, TSi),                                         \*  1 f(*a: TS[S]): tail-only variable, heterogeneous tails match
    VCand("v02", <<vT>>, TSi),                                             \*  2 f(*a: T): the most general fallback
    VCand("v03", <<TSi>>, TSi),                                            \*  3 f(*a: TS[int])
    VCand("v04", <<TS(vS), TS(vS)>>, TS(vS)),                              \*  4 f(x: TS[S], *a: TS[S]): the fixed binding constrains every tail argument
    VCand("v05", <<vT, vT>>, vT),                                          \*  5 f(x: T, *a: T)
    VCand("v06", <<TS(vS), TS(vR)>>, TS(vS)),                              \*  6 f(x: TS[S], *a: TS[R]): independent tail variable
    VCand("v07", <<TS(vS)>>, TS(vS)),                                      \*  7 output variable bound by the tail only: never a match
    VCand("v08", <<TSL(vT, "#N")>>, TSi),                                  \*  8 size variable in the tail: lists of different sizes match
    VCand("v09", <<TSi, TSL(TS(vS), "#N")>>, TSi),                         \*  9
    VCand("v10", <<vS, TS(vS)>>, TS(vS)),                                  \* 10 f(k: S, *a: TS[S]): a scalar parameter binds the tail's variable
    VCand("v11", <<REF(vT)>>, TSi),                                        \* 11 REF tail
    VCand("v12", <<SIG>>, TSi),                                            \* 12 SIGNAL tail: any time-series, no plain values
    VCand("v13", <<TSi, TSi>>, TSi),                                       \* 13 f(x: TS[int], *a: TS[int]): rival of the fixed-arity b05
    VCand("v14", <<Conc(TSi)>>, TSi),                                      \* 14 concrete leaf tail
    VCand("v15", <<TSD(vK, vV), TS(vK)>>, vV),                             \* 15 f(d: TSD[K, V], *keys: TS[K])
    VCand("v16", <<TSL(vT, "#N"), TSL(vT, "#N")>>, TSL(vT, "#N")),         \* 16 fixed size variable constrains the tail
    VCand("v17", <<TSi, TSL(TSi, "#N")>>, TSL(TSi, "#N")),                 \* 17 output size variable bound by the tail only: never a match
    VCand("v18", <<TS(vS), TS(vS), TS(vS)>>, TS(vS)) >>                    \* 18 two fixed parameters + tail

AllC == AllU \o AllB \o AllV
NU == Len(AllU)
NB == Len(AllB)
NV == Len(AllV)

ArgsU == <<
    <<TSi>>, <<TSf>>, <<TSL(TSi, "2")>>, <<TSL(TSi, "3")>>, <<TSD(SInt, TSf)>>, <<TSD(SStr, TSs)>>,                 \* 1-6
    <<TSB(TSi, TSi)>>, <<TSB(TSi, TSf)>>, <<REF(TSi)>>, <<SIG>>, <<SInt>>, <<TSS(SInt)>>,                          \* 7-12
    <<TSs>>, <<TSS(SStr)>>, <<TSL(TSf, "2")>>, <<TSL(TSi, "0")>>, <<TSL(TSL(TSi, "2"), "2")>>,                      \* 13-17
    <<TSL(TSL(TSi, "2"), "3")>>, <<TSD(SInt, TSi)>>, <<TSD(SInt, TSL(TSi, "2"))>>, <<REF(TSL(TSi, "2"))>>,          \* 18-21
    <<SFlt>>, <<SStr>>,                                                                                            \* 22-23
    <<TSD(SStr, TSi)>>, <<TSD(SStr, REF(TSi))>>, <<TSL(REF(TSi), "2")>> >>                                         \* 24-26

ArgsB == <<
    <<TSi, TSi>>, <<TSi, TSf>>, <<TSf, TSf>>, <<TSi, SInt>>, <<TSi, SFlt>>, <<SInt, TSi>>,                          \* 1-6
    <<TSL(TSi, "2"), TSL(TSi, "2")>>, <<TSL(TSi, "2"), TSL(TSi, "3")>>, <<TSD(SInt, TSf), TSi>>,                    \* 7-9
    <<REF(TSi), TSi>>, <<TSi, REF(TSi)>>, <<SIG, TSi>>, <<TSL(TSi, "2"), TSi>>, <<SInt, SInt>>,                     \* 10-14
    <<TSf, TSi>>, <<TSs, TSs>>, <<TSf, SInt>>, <<SInt, SFlt>>, <<TSs, SStr>>, <<TSL(TSi, "2"), TSL(TSf, "2")>>,     \* 15-20
    <<TSL(TSi, "3"), TSf>>, <<TSD(SInt, TSf), SInt>>, <<TSD(SStr, TSs), TSi>>, <<TSD(SInt, TSf), SFlt>>,            \* 21-24
    <<TSS(SInt), TSi>>, <<TSS(SInt), TSs>>, <<REF(TSi), REF(TSi)>>, <<REF(TSi), TSf>>, <<TSi, SIG>>,                \* 25-29
    <<TSS(SInt), SIG>>, <<TSB(TSi, TSf), TSi>>, <<TSB(TSi, TSf), TSf>>, <<TSL(TSi, "0"), TSL(TSi, "2")>>,           \* 30-33
    <<TSD(SStr, TSi), TSi>>, <<TSD(SStr, TSi), TSf>>, <<SFlt, SFlt>> >>                                            \* 34-36

(* argument tuples of the variadic families: lengths 0..4, time-series and plain values in the tail, heterogeneous *)
ArgsV == <<
    <<>>, <<TSi>>, <<SInt>>, <<TSf>>, <<SStr>>,                                                                    \* 1-5
    <<TSi, TSi>>, <<TSi, TSf>>, <<SInt, SStr>>, <<SInt, SInt>>, <<TSi, SInt>>, <<TSi, SFlt>>, <<SInt, TSi>>,        \* 6-12
    <<TSi, TSi, TSi>>, <<TSi, TSf, TSs>>, <<TSi, SInt, SStr>>, <<SInt, SFlt, SStr>>, <<TSi, SInt, SInt>>,           \* 13-17
    <<TSi, TSi, TSi, TSi>>, <<TSi, TSf, TSi, SStr>>, <<TSi, TSi, SInt, TSf>>,                                       \* 18-20
    <<TSL(TSi, "2"), TSL(TSi, "3")>>, <<TSL(TSi, "2"), TSL(TSi, "2"), TSL(TSi, "2")>>,                              \* 21-22
    <<TSL(TSi, "2"), TSL(TSf, "2"), TSi>>, <<TSi, TSL(TSi, "2"), TSL(TSf, "3")>>,                                   \* 23-24
    <<TSD(SInt, TSf), TSi, SInt>>, <<TSD(SInt, TSf), TSi, TSf>>, <<TSD(SInt, TSf)>>,                                \* 25-27
    <<REF(TSi), TSi>>, <<TSi, REF(TSi), SInt>>, <<SIG, TSi>>,                                                      \* 28-30
    <<SInt, TSi, SInt>>, <<SInt, TSi, TSf>>, <<SStr, SStr, TSs>>, <<SInt, TSi, SFlt>> >>                           \* 31-34

-----------------------------------------------------------------------------
(* LEVEL A, continued: a formula-independent consequence of "most specific" - pattern subsumption.                   *)
(*                                                                                                                   *)
(* GenC(P, Q): P is at least as general as Q, decided structurally: match P's parameter patterns against Q's         *)
(* parameter patterns read as terms (Q's variables are constants); a variable of P subsumes any term of its sort,    *)
(* constructors subsume component-wise, and the bindings must be functional - so a repeated variable is more         *)
(* specific than distinct ones.  REF and concrete-leaf wrappers are normalised away first (REF[X] is type-compatible *)
(* with X; !T accepts exactly what the ground structural pattern T accepts; a concrete dynamic list is the size      *)
(* "dyn", not the pattern wildcard "0").  Sub-terms of Q that are themselves wildcards (SIGNAL, TSL size 0, a        *)
(* numeric scalar parameter, which also takes the other numeric type) carry their position, so a variable of P can   *)
(* absorb one of them but two of them never unify.  SIGNAL does not subsume patterns that accept plain values.       *)
(* MoreGeneral(P, Q): GenC(P, Q) and some argument tuple of the checked universe is matched by P and not by Q.       *)
(* MCResolution checks (ASSUME) that GenC is sound on the universe: whatever Q matches there, P matches.             *)
RECURSIVE NormT(_)
NormT(t) == IF t.k = "REF" THEN NormT(t.c[1])
            ELSE Tm(t.k, IF t.k = "TSL" /\ t.s = "0" THEN "dyn" ELSE t.s, MapC(t.c, NormT))
RECURSIVE Norm(_)
Norm(p) == IF p.k = "REF" THEN Norm(p.c[1]) ELSE IF p.k = "conc" THEN NormT(p.c[1]) ELSE Tm(p.k, p.s, MapC(p.c, Norm))

RECURSIVE HasWild(_)
HasWild(q) == q.k = "SIG" \/ (q.k = "TSL" /\ q.s = "0") \/ \E i \in 1..Len(q.c) : HasWild(q.c[i])
Tag(q, path) == IF HasWild(q) THEN path ELSE <<>>

Bad3        == [ok |-> FALSE, cs |-> {}]
Good3(cs)   == [ok |-> TRUE, cs |-> cs]
Both3(x, y) == [ok |-> x.ok /\ y.ok, cs |-> x.cs \cup y.cs]

GenS(p, q) == IF p.k = "sv" THEN Good3({<<p.s, q, <<>> >>}) ELSE IF p = q THEN Good3({}) ELSE Bad3

RECURSIVE GenT(_, _, _)
GenT(p, q, path) ==
    IF p.k = "SIG" THEN (IF q.k \in {"TSS", "TSL", "TSD", "TSB", "SIG"} THEN Good3({}) ELSE Bad3)   \* tv / TS take plain values
    ELSE IF p.k = "tv" THEN (IF IsScalarTerm(q) THEN Bad3 ELSE Good3({<<p.s, q, Tag(q, path)>>}))
    ELSE IF q.k \in {"SIG", "tv"} THEN Bad3
    ELSE CASE p.k \in {"TS", "TSS"} -> IF q.k = p.k THEN GenS(p.c[1], q.c[1]) ELSE Bad3
           [] p.k = "TSL" -> IF q.k # "TSL" THEN Bad3
                             ELSE Both3(IF p.s = "0" THEN Good3({})
                                        ELSE IF p.s \in SizeVars
                                             THEN Good3({<<p.s, Sz(q.s), IF q.s = "0" THEN path ELSE <<>> >>})
                                        ELSE IF p.s = q.s THEN Good3({}) ELSE Bad3,
                                        GenT(p.c[1], q.c[1], path \o <<1>>))
           [] p.k = "TSD" -> IF q.k # "TSD" THEN Bad3
                             ELSE Both3(GenS(p.c[1], q.c[1]), GenT(p.c[2], q.c[2], path \o <<2>>))
           [] p.k = "TSB" -> IF q.k # "TSB" \/ q.s # p.s \/ Len(q.c) # Len(p.c) THEN Bad3
                             ELSE Both3(GenT(p.c[1], q.c[1], path \o <<1>>), GenT(p.c[2], q.c[2], path \o <<2>>))
           [] OTHER       -> Bad3

GenP(p, q, i) ==
    IF IsScalarTerm(p) /\ IsScalarTerm(q)
    THEN IF p.k = "sv" THEN Good3({<<p.s, IF q.k = "sc" /\ q.s \in Numeric THEN Sc("numeric") ELSE q,
                                     IF q.k = "sc" /\ q.s \in Numeric THEN <<i>> ELSE <<>> >>})
         ELSE IF q.k = "sc" /\ (p.s = q.s \/ (p.s \in Numeric /\ q.s \in Numeric)) THEN Good3({}) ELSE Bad3
    ELSE IF IsScalarTerm(p) \/ IsScalarTerm(q) THEN Bad3          \* a scalar and a time-series parameter: not compared
    ELSE GenT(Norm(p), Norm(q), <<i>>)

RECURSIVE GenFrom(_, _, _)
GenFrom(ps, qs, i) == IF i > Len(ps) THEN Good3({}) ELSE Both3(GenP(ps[i], qs[i], i), GenFrom(ps, qs, i + 1))
Functional3(cs) == \A x, y \in cs : x[1] = y[1] => (x[2] = y[2] /\ x[3] = y[3])
GenC(P, Q) == ~P.v /\ ~Q.v /\ Len(P.ps) = Len(Q.ps)            \* subsumption is asserted between fixed-arity candidates only
              /\ LET w == GenFrom(P.ps, Q.ps, 1) IN w.ok /\ Functional3(w.cs)

Universe(n) == IF n = 1 THEN Range(ArgsU) ELSE IF n = 2 THEN Range(ArgsB) ELSE {}
MoreGeneral(P, Q) == GenC(P, Q) /\ \E a \in Universe(Len(P.ps)) : MatchesA(P, a) /\ ~MatchesA(Q, a)

(* Pattern classes for which the unchanged tree's DOCUMENTED ranking does not follow subsumption; the clause is not  *)
(* asserted for them (they stay informational observations, see /verif/out/agent_c19_report.md).  Exactly the pairs  *)
(* of the pools that the unchanged tree resolves against subsumption fall in these classes (probe: report).          *)
(*  1. SignalOverStructure: P has SIGNAL (at the top or nested at the same position of the same constructors) where  *)
(*     Q has a structural pattern.  SIGNAL accepts every time-series but ranks 0 (operators.rst:                     *)
(*     rank(Concrete TS | Signal) = 0), below every structural pattern.                                              *)
(*  2. BareOverBundle: P has a bare whole-time-series variable (possibly under REF) where Q has a TSB pattern with   *)
(*     two or more distinct whole-time-series variables: the bundle costs 1 + 5000 + 5000 > 10000 = the bare one.    *)
TsVarNames == {"~T", "~U", "~V"}
RECURSIVE SigOver(_, _)
SigOver(p, q) == IF p.k = "SIG" THEN q.k # "SIG"
                 ELSE p.k = q.k /\ Len(p.c) = Len(q.c) /\ \E i \in 1..Len(p.c) : SigOver(p.c[i], q.c[i])
SignalOverStructure(p, q) == ~IsScalarTerm(p) /\ ~IsScalarTerm(q) /\ SigOver(Norm(p), Norm(q))
BareOverBundle(p, q) == ~IsScalarTerm(p) /\ ~IsScalarTerm(q) /\ Norm(p).k = "tv" /\ Norm(q).k = "TSB"
                        /\ Cardinality(PVars(Norm(q)) \cap TsVarNames) >= 2
SubsumptionNotAsserted(P, Q) ==
    Len(P.ps) = Len(Q.ps) /\ \E i \in 1..Len(P.ps) : SignalOverStructure(P.ps[i], Q.ps[i]) \/ BareOverBundle(P.ps[i], Q.ps[i])

(* what GenC promises, without the output-closure condition of MatchesA *)
ParamsAccept(c, args) == LET w == CandWalk(c, args) IN w.ok /\ Functional(w.cs)
GenSoundOn(P, Q) == GenC(P, Q) => \A a \in Universe(Len(P.ps)) : ParamsAccept(Q, a) => ParamsAccept(P, a)

(* Specificity relative to the SUPPLIED VALUES, also independent of any rank formula.  ExactOver(q, p, args): q and p    *)
(* have the same parameters except at concrete scalar parameters, and wherever they differ q declares exactly the    *)
(* type of the supplied value - so p accepts that value only through a standard numeric conversion.  q is then       *)
(* strictly more specific for these arguments: p must neither be selected nor be reported as sharing the best        *)
(* specificity with q.                                                                                               *)
ExactOver(q, p, args) ==
    /\ q.v = p.v /\ Len(q.ps) = Len(p.ps) /\ (IF p.v THEN Len(args) >= NFixed(p) ELSE Len(args) = Len(p.ps))
    /\ \A i \in 1..Len(p.ps) : p.ps[i] = q.ps[i]
                                \/ (i <= NFixed(p) /\ p.ps[i].k = "sc" /\ q.ps[i].k = "sc" /\ args[i].k = "sc" /\ q.ps[i] = args[i])
    /\ \E i \in 1..Len(p.ps) : p.ps[i] # q.ps[i]

(* "a candidate whose parameters really match must not be dropped": rej = the labels the resolver reports as rejected *)
RejFail(cands, args, rej) ==
    IF \E c \in cands : c.l \in rej /\ ~c.v /\ MatchesA(c, args) THEN "C19.candidate_whose_parameters_match_the_arguments_was_rejected"
    ELSE IF \E c \in cands : c.l \in rej /\ c.v /\ MatchesA(c, args) THEN "C19.matching_variadic_candidate_rejected"
    ELSE ""

AFail(cands, args, rk, o) ==
    LET core == AFailCore(cands, args, rk, o)
        selc == CHOOSE c \in cands : c.l = o.sel
    IN  IF core # "" THEN core
        ELSE IF o.kind = "ok" /\ \E q \in cands : q # selc /\ MatchesA(q, args) /\ ExactOver(q, selc, args)
             THEN "C19.selected_candidate_converts_a_scalar_that_another_matching_candidate_takes_exactly"
        ELSE IF o.kind = "ambiguous" /\ \E p, q \in cands : p.l \in o.tied /\ q.l \in o.tied /\ MatchesA(q, args)
                                                             /\ ExactOver(q, p, args)
             THEN "C19.ambiguity_between_an_exact_and_a_converted_scalar_match"
        ELSE IF o.kind = "ok" /\ \E q \in cands : q # selc /\ MatchesA(q, args) /\ MoreGeneral(selc, q)
                                                  /\ ~SubsumptionNotAsserted(selc, q)
             THEN "C19.selected_candidate_is_strictly_more_general_than_another_matching_candidate"
        ELSE ""

=============================================================================
