------------------------------ MODULE MapSched ------------------------------
(***************************************************************************)
(* Level B model of how a keyed parent (map_, src/hgraph/runtime/          *)
(* map_node.cpp) schedules its per-key child graphs: the lazy min-heap of  *)
(* child wake-ups (child_schedule_queue), the sparse candidate set of one  *)
(* evaluation (prepare_map_evaluation_slots), the pull after a child       *)
(* evaluation, the drain of entries that are due or stale, and the re-arm  *)
(* of the map node's own schedule entry from the heap's minimum.           *)
(*                                                                         *)
(* One root cycle is one action (the map node is a single node of its      *)
(* graph; what happens inside it is sequential).  The environment chooses, *)
(* per cycle, which keys are added / removed and which live keys receive   *)
(* an outer tick; each child, when evaluated, consumes the wake-up that is *)
(* due and may ask for another one.                                        *)
(*                                                                         *)
(*   want[k]   the wake-up times child k's nodes are waiting for (truth)   *)
(*   cnext[k]  the child graph's cached next scheduled time                *)
(*   heap      the parent's queue: records [w |-> when, k |-> key,         *)
(*             p |-> pulled?]; entries are lazy (stale ones pop harmlessly)*)
(*   pw[k]     pulled_when of the key's schedule context                   *)
(*   pslot     the map node's entry in its own graph's schedule table      *)
(*                                                                         *)
(* Level A invariants (between cycles): no wake-up of a live child is      *)
(* overdue (NoLostWakeup), the map node is due no later than the earliest  *)
(* wake-up of any live child (ParentCovers), a removed key's child is      *)
(* never evaluated again (NoGhost, by construction of Eval).               *)
(*                                                                         *)
(* Fault = "none" is the code; "lt" pops due entries with < instead of <=  *)
(* (seeded C10-A / C02-C), "back" re-arms from an arbitrary heap element   *)
(* (seeded C10-C), "nopull" drops the pull after a child evaluation,       *)
(* "noobserve" drops the out-of-band observer.  TLC must reject each.      *)
(***************************************************************************)
EXTENDS Integers, FiniteSets, TLC

CONSTANTS Keys, MaxT, Dts, Fault

Inf == MaxT + 10
MinOf(S) == CHOOSE x \in S : \A y \in S : x <= y

VARIABLES now, live, want, cnext, heap, pw, pslot, lost

vars == <<now, live, want, cnext, heap, pw, pslot, lost>>

Init == /\ now = 0 /\ live = {} /\ want = [k \in Keys |-> {}] /\ cnext = [k \in Keys |-> Inf]
        /\ heap = {} /\ pw = [k \in Keys |-> Inf] /\ pslot = Inf /\ lost = FALSE

NextOf(w) == IF w = {} THEN Inf ELSE MinOf(w)

(***************************************************************************)
(* One cycle at time T.                                                    *)
(*  added / removed / ticked : the environment (key set delta, outer value *)
(*                             ticks of live keys)                         *)
(*  req[k]                   : what child k asks for if it is evaluated    *)
(*                             ({} or one future time)                     *)
(***************************************************************************)
Cycle(T, added, removed, ticked, oob, req) ==
    LET live1   == (live \ removed) \cup added
        \* an outer tick reaches a node of the idle child: nested_schedule_node_impl schedules it for T, the observer
        \* pushes <<T, k>> on the heap and the map node is scheduled at T (it is the reason this cycle includes the map)
        \* oob: a node of the idle child is scheduled for T by something that is not one of the map's multiplexed inputs
        \* (a shared output, a service reply): only the observer tells the map that this child is due
        obs     == IF Fault = "noobserve" THEN {} ELSE {[w |-> T, k |-> k, p |-> FALSE] : k \in ticked \cup oob}
        cnext0  == [k \in Keys |-> IF k \in ticked \/ k \in added \/ k \in oob THEN T ELSE cnext[k]]
        want0   == [k \in Keys |-> IF k \in oob THEN want[k] \cup {T} ELSE want[k]]
        heap0   == heap \cup obs
        \* prepare_map_evaluation_slots: added keys, keys whose multiplexed value ticked, entries that are due
        isdue(e) == IF Fault = "lt" THEN e.w < T ELSE e.w <= T
        due     == {e \in heap0 : isdue(e)}
        heap1   == heap0 \ due
        fromq   == {e.k : e \in {x \in due : x.k \in live1 /\ (~x.p \/ pw[x.k] = x.w)}}
        pw1     == [k \in Keys |-> IF \E e \in due : e.k = k /\ e.p /\ pw[k] = e.w THEN Inf ELSE pw[k]]
        cand    == (added \cup ticked \cup fromq) \cap live1
        \* the loop: a candidate whose child is due is evaluated; afterwards its next time is pulled into the heap
        evald   == {k \in cand : cnext0[k] <= T}
        want1   == [k \in Keys |-> IF k \in removed THEN {}
                                   ELSE IF k \in evald THEN (want0[k] \ {T}) \cup req[k] ELSE want0[k]]
        cnext1  == [k \in Keys |-> IF k \in removed THEN Inf
                                   ELSE IF k \in evald THEN NextOf(want1[k]) ELSE cnext0[k]]
        pulled  == IF Fault = "nopull" THEN {}
                   ELSE {[w |-> cnext1[k], k |-> k, p |-> TRUE] : k \in {x \in cand : cnext1[x] # Inf /\ cnext1[x] > T}}
        pw2     == [k \in Keys |-> IF k \in cand THEN (IF cnext1[k] # Inf /\ cnext1[k] > T /\ Fault # "nopull" THEN cnext1[k] ELSE Inf)
                                   ELSE pw1[k]]
        heap2   == heap1 \cup pulled
        \* drain what is due or stale, then re-arm from the minimum
        drained == {e \in heap2 : e.w <= T}
        heap3   == heap2 \ drained
        pw3     == [k \in Keys |-> IF \E e \in drained : e.k = k /\ e.p /\ pw2[k] = e.w THEN Inf ELSE pw2[k]]
        rearm   == IF heap3 = {} THEN {Inf}
                   ELSE IF Fault = "back" THEN {e.w : e \in heap3} ELSE {MinOf({e.w : e \in heap3})}
    IN /\ now' = T
       /\ live' = live1
       /\ want' = want1
       /\ cnext' = cnext1
       /\ heap' = heap3
       /\ pw' = pw3
       /\ \E r \in rearm : pslot' = r
       \* a wake-up that was due in this cycle and whose child was not evaluated is lost for good
       /\ lost' = (lost \/ \E k \in live1 : T \in want1[k])

Reqs == [Keys -> {{}} \cup {{d} : d \in Dts}]

Next ==
    \E T \in (now + 1)..MaxT :
      \* a cycle happens at T because the map node is due or the outside ticks
      \E added \in SUBSET (Keys \ live), removed \in SUBSET live :
        \E ticked \in SUBSET (live \ removed), oob \in SUBSET (live \ removed), rq \in Reqs :
           /\ (pslot = T \/ added # {} \/ removed # {} \/ ticked # {} \/ oob # {})
           /\ pslot >= T                                   \* the engine never skips a due entry of the root table
           /\ Cycle(T, added, removed, ticked, oob, [k \in Keys |-> {T + d : d \in rq[k]}])

Spec == Init /\ [][Next]_vars

----------------------------------------------------------------------------
NoLostWakeup == ~lost /\ \A k \in live : \A t \in want[k] : t > now
ParentCovers == \A k \in live : want[k] # {} => pslot <= MinOf(want[k])
CacheTruthful == \A k \in live : cnext[k] = NextOf(want[k])
=============================================================================
