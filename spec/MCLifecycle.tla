----------------------------- MODULE MCLifecycle -----------------------------
(* Families for Lifecycle.tla.
   BoundShapes: the three shapes that glue/check_life.py can build with the engine driver (same ids, same node order); every
                finished behaviour is printed (Emit) and replayed against the real engine by glue/life_model.py.
   GenShapes:   every root graph of 1..3 nodes of which at most one is a nested node owning a child graph of 1..2 nodes
                (15 shapes, 2 cycles); model-checked only (B => A). *)
EXTENDS Lifecycle

BoundShapes == {Flat3, Nested, Nested2}
SmallShapes == {Flat3, Nested}
FlatOnly    == {Flat3}
NestedOnly  == {Nested}

GenShape(r, p, c) ==
    [name |-> "gen", cycles |-> 2,
     G |-> IF p = 0 THEN << [i \in 1..r |-> L(i)] >>
           ELSE << [i \in 1..r |-> IF i = p THEN N(2) ELSE L(i)], [j \in 1..c |-> L(10 + j)] >>]
GenShapes == {GenShape(r, 0, 1) : r \in 1..3} \cup {GenShape(x[1], x[2], x[3]) : x \in {y \in (1..3) \X (1..3) \X (1..2) : y[2] <= y[1]}}
=============================================================================
