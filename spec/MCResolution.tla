----------------------------- MODULE MCResolution -----------------------------
(***************************************************************************)
(* Model-checking harness of Resolution.tla (C19).                         *)
(*                                                                         *)
(* The STATE is the scenario: a family in registration order (indices into *)
(* AllC), an argument tuple (class + index) and, after the single Resolve  *)
(* step, the outcome of the level-B model.  Init enumerates                *)
(*   families of 1..MaxFam candidates of one arity (and of 1..2 from the   *)
(*   wider pool) x every argument tuple of that arity x every registration *)
(*   order,                                                                *)
(*   plus mixed-arity families (arity filter),                             *)
(*   plus focus groups: every family of 1..MaxFam candidates of a small    *)
(*   themed pool (overloads that differ only in a concrete scalar          *)
(*   parameter; REF / SIGNAL nested inside TSD / TSL / TSB patterns;       *)
(*   output patterns with a size variable that no input binds next to      *)
(*   legitimate rivals; k = "v": VARIADIC candidates next to fixed-arity   *)
(*   rivals of equal / greater specificity, argument tuples of length 0..4 *)
(*   with time-series and plain values in heterogeneous tails) x the       *)
(*   argument tuples that separate them.                                   *)
(* Fault # "none" runs level B with a named slip (Resolution.tla Faults):  *)
(* those configurations MUST violate InvLevelA (hg.expect_violation).      *)
(* Invariants: level B satisfies every level-A clause (AFail = ""), the    *)
(* outcome is the same in every registration order, and the declarative    *)
(* (A) and the sequential (B) matcher agree on every candidate.            *)
(* With Emit, the state whose registration order is ascending prints the   *)
(* scenario and B's predictions as one JSON line for the glue to replay.   *)
(***************************************************************************)
EXTENDS Resolution, Json

CONSTANTS UIdx,      \* arity-1 candidates used (indices into AllU)
          BIdx,      \* arity-2 candidates used (indices into AllB)
          AUIdx,     \* arity-1 argument tuples used (indices into ArgsU)
          ABIdx,     \* arity-2 argument tuples used (indices into ArgsB)
          MaxFam,    \* largest family
          WideU, WideB,   \* wider pools (indices into AllU / AllB) from which families of one and two are drawn as well
          MixU, MixB, MixAU, MixAB,   \* mixed-arity families: one of MixU with one or two of MixB
          Focus,     \* focus groups: set of [k |-> "u" | "b", c |-> indices into AllU / AllB, a |-> indices into ArgsU / ArgsB]
                     \*            or of [k |-> "v", c |-> indices into AllC (variadic + fixed-arity), a |-> indices into ArgsV]
          Fault,     \* "none" or a named fault of level B
          Emit

ASSUME Fault \in Faults
ASSUME \A i \in 1..NV : AllV[i].v /\ Len(AllV[i].ps) >= 1 /\ ~IsScalarTerm(TailPat(AllV[i]))
ASSUME \A i \in 1..(NU + NB) : ~AllC[i].v

VARIABLES fam, ak, ai, res
vars == <<fam, ak, ai, res>>

NoRes == [kind |-> "none", sel |-> "", bind |-> {}, out |-> SIG, tied |-> {}]

(* subsets of S (integers) of exactly k elements, built in ascending order *)
RECURSIVE KSub(_, _)
KSub(S, k) == IF k = 0 THEN {{}}
              ELSE UNION {{x \cup {e} : e \in {y \in S : \A z \in x : y > z}} : x \in KSub(S, k - 1)}
UpTo(S, n) == UNION {KSub(S, k) : k \in 1..n}

RECURSIVE Perms(_)
Perms(S) == IF S = {} THEN {<<>>} ELSE UNION {{<<e>> \o p : p \in Perms(S \ {e})} : e \in S}

GB == {NU + i : i \in BIdx}            \* global indices of the arity-2 candidates in use
MixFams == {{u} \cup g : u \in MixU, g \in UpTo({NU + i : i \in MixB}, 2)}

Args   == IF ak = "u" THEN ArgsU[ai] ELSE IF ak = "b" THEN ArgsB[ai] ELSE ArgsV[ai]
FamSeq(f) == [i \in 1..Len(f) |-> AllC[f[i]]]
IsAsc(f)  == \A i \in 1..(Len(f) - 1) : f[i] < f[i + 1]
Asc(f)    == CHOOSE p \in Perms(Range(f)) : IsAsc(p)

InitWith(f, k, a) == \E p \in Perms(f) : fam = p /\ ak = k /\ ai = a /\ res = NoRes
Init == \/ \E f \in UpTo(UIdx, MaxFam) \cup UpTo(WideU, 2) : \E a \in AUIdx : InitWith(f, "u", a)
        \/ \E f \in UpTo(GB, MaxFam) \cup UpTo({NU + i : i \in WideB}, 2) : \E a \in ABIdx : InitWith(f, "b", a)
        \/ \E f \in MixFams : \E a1 \in MixAU : InitWith(f, "u", a1)
        \/ \E f \in MixFams : \E a2 \in MixAB : InitWith(f, "b", a2)
        \/ \E g \in Focus : \E f \in UpTo({(IF g.k = "b" THEN NU ELSE 0) + i : i \in g.c}, MaxFam) : \E a3 \in g.a :
               InitWith(f, g.k, a3)

Payload == [fam  |-> [i \in 1..Len(fam) |-> AllC[fam[i]].l],
            ak   |-> ak, ai |-> ai,
            exp  |-> res,
            pred |-> [i \in 1..Len(fam) |-> PredictB(AllC[fam[i]], Args)]]

Resolve == /\ res = NoRes
           /\ res' = ResolveFB(FamSeq(fam), Args, Fault)
           /\ UNCHANGED <<fam, ak, ai>>
           /\ (Emit /\ IsAsc(fam)) => PrintT(<<"RES", ToJson([Payload EXCEPT !.exp = res'])>>)

Next == Resolve
Spec == Init /\ [][Next]_vars

-----------------------------------------------------------------------------
Done == res.kind # "none"
RankFn == [l \in {AllC[fam[i]].l : i \in 1..Len(fam)} |->
              LET c == CHOOSE c \in Range(FamSeq(fam)) : c.l = l IN RankB(c) + TryMatchFB(c, Args, Fault).adj]

(* B => A: the implementation-shaped model satisfies every clause of the property *)
InvLevelA == Done => AFail(Range(FamSeq(fam)), Args, RankFn, res) = ""

(* the outcome does not depend on the registration order *)
InvOrderIndependent == Done => Canon(res) = Canon(ResolveFB(FamSeq(Asc(fam)), Args, Fault))

(* the declarative and the sequential matcher are the same relation and produce the same substitution *)
InvMatchersAgree ==
    Done => \A c \in Range(FamSeq(fam)) :
               LET t == TryMatchFB(c, Args, Fault) IN
               /\ t.ok = MatchesA(c, Args)
               /\ t.ok => MapPairs(t.m) = CandWalk(c, Args).cs

(* the selected candidate's parameters, instantiated with the bindings, are the argument types (REF-transparent) *)
InvOutputIsSubstitution ==
    (Done /\ res.kind = "ok") =>
        LET c == CHOOSE c \in Range(FamSeq(fam)) : c.l = res.sel IN res.out = Subst(c.o, SigmaOf(res.bind))

(* the structural subsumption test is sound on the checked universe: if GenC(P, Q) then P accepts whatever Q accepts *)
ASSUME Fault # "none" \/ \A i, j \in 1..(NU + NB) : GenSoundOn(AllC[i], AllC[j])      \* GenC is FALSE for variadic candidates

(* formula-independent consequence of "most specific" (also part of AFail, stated on its own here): the selected
   candidate is not strictly more general than another candidate of the family that matches the arguments *)
InvSubsumption ==
    (Done /\ res.kind = "ok") =>
        LET F == Range(FamSeq(fam))
            s == CHOOSE c \in F : c.l = res.sel
        IN \A q \in F : (q # s /\ MatchesA(q, Args) /\ MoreGeneral(s, q)) => SubsumptionNotAsserted(s, q)

(* Teeth of level A in the ordinary (Fault = "none") run, at no extra JVM: every named fault of level B is caught by a
   level-A clause on at least one family of one or two candidates of the focus groups.  The same faults are run as
   configurations of their own (cfg/Resolution.fault_*.cfg, InvLevelA must be violated) in the thorough tier. *)
ArgsOf(k, i) == IF k = "u" THEN ArgsU[i] ELSE IF k = "b" THEN ArgsB[i] ELSE ArgsV[i]
FaultCaughtBy(flt) ==
    \E g \in Focus : \E f \in UpTo({(IF g.k = "b" THEN NU ELSE 0) + i : i \in g.c}, 2) : \E a \in g.a :
        LET fs   == FamSeq(CHOOSE p \in Perms(f) : IsAsc(p))
            args == ArgsOf(g.k, a)
            rk   == [l \in {fs[i].l : i \in 1..Len(fs)} |->
                        LET c == CHOOSE c \in Range(fs) : c.l = l IN RankB(c) + TryMatchFB(c, args, flt).adj]
        IN  AFail(Range(fs), args, rk, ResolveFB(fs, args, flt)) # ""
ASSUME Fault # "none" \/ \A flt \in Faults \ {"none"} : FaultCaughtBy(flt)

(* the pools, printed once so that the glue can render candidates / arguments in the driver's language *)
ASSUME Emit => PrintT(<<"POOL", ToJson([c |-> AllC, au |-> ArgsU, ab |-> ArgsB, av |-> ArgsV])>>)

(* pools for the configurations *)
QU  == {1, 2, 3, 4, 7, 8, 9, 10, 12, 15, 16, 17, 18, 20}
QB  == {1, 2, 3, 4, 5, 7, 8, 9, 10, 13, 14, 15}
QAU == 1..12
QAB == 1..14
QMU == {1, 2, 16, 18}
QMB == {1, 3, 14}
QMAU == {1, 9, 11}
QMAB == {1, 4, 12}
(* focus groups (all tiers) *)
BI(i) == NU + i               \* index into AllC of the i-th arity-2 candidate
VI(i) == NU + NB + i          \* index into AllC of the i-th variadic candidate
QFocusFixed ==
          {[k |-> "u", c |-> {2, 18, 19, 30}, a |-> {11, 22, 23}],                  \* scalar parameter: exact / converted / variable / promoted
           [k |-> "b", c |-> {7, 15, 18, 29, 30, 32, 33}, a |-> {4, 5, 14, 18, 36}],  \* overloads that differ only in a concrete scalar parameter
           [k |-> "u", c |-> {1, 11, 12, 25, 35, 36, 39}, a |-> {5, 6, 19, 24, 25}],   \* REF / SIGNAL nested in a TSD value
           [k |-> "u", c |-> {1, 9, 10, 14, 37, 38, 40}, a |-> {3, 8, 16, 17, 26}],    \* ... in a TSL element / in bundle fields
           [k |-> "b", c |-> {2, 12, 21, 31, 34}, a |-> {9, 23, 34, 35}]}             \* ... next to a parameter sharing the variable
(* an output pattern whose SIZE variable no input binds (never a match), alone and next to legitimate rivals of lower / equal / higher rank *)
QFocusSize ==
          {[k |-> "u", c |-> {1, 2, 8, 41, 42, 43, 44}, a |-> {1, 3, 4, 16}],
           [k |-> "b", c |-> {1, 5, 10, 35, 36}, a |-> {1, 7, 13}]}
(* variadic candidates next to fixed-arity rivals; tails of length 0..3 *)
QFocusVar ==
          {[k |-> "v", c |-> {VI(1), VI(2), VI(3), VI(7), VI(12), 4, BI(4)}, a |-> {1, 2, 3, 7, 8, 9, 10, 14, 16, 19}],      \* heterogeneous tails, tail-only variable
           [k |-> "v", c |-> {VI(4), VI(5), VI(6), VI(10), VI(13), BI(3), BI(5)}, a |-> {2, 6, 7, 10, 11, 13, 14, 15, 31, 32}], \* fixed bindings constrain every tail argument
           [k |-> "v", c |-> {VI(2), VI(8), VI(9), VI(16), VI(17), 8}, a |-> {2, 21, 22, 23, 24}],                            \* size variables in the tail
           [k |-> "v", c |-> {VI(2), VI(3), VI(11), VI(12), VI(14), VI(15)}, a |-> {2, 25, 26, 27, 28, 29, 30}],              \* REF / SIGNAL / concrete / TSD tails
           [k |-> "v", c |-> {VI(3), VI(4), VI(18), BI(3)}, a |-> {6, 7, 13, 14, 17, 18, 20, 34}]}                           \* two fixed parameters + tail of 0..2
QFocus == QFocusFixed \cup QFocusSize \cup QFocusVar
Empty == {}
TU  == 1..NU
TB  == 1..NB
T3U == TU \ ({5, 21, 22, 25, 26, 28, 30, 32, 33, 34} \cup 35..44)     \* families of three: 24 + 20 candidates
T3B == TB \ ({16, 17, 18, 21, 22, 24, 26, 28} \cup 29..36)
TAU == 1..Len(ArgsU)
TAB == 1..Len(ArgsB)
=============================================================================
