------------------------------- MODULE Reduce -------------------------------
(***************************************************************************)
(* Level A specification of reduce over a keyed collection (C11).          *)
(*                                                                         *)
(* State: the live elements (key -> value) of the reduced dictionary.      *)
(* One step = one engine cycle in which elements are added, updated or     *)
(* removed.  After every cycle the result must be                          *)
(*     invalid                      if no element is live and no zero,     *)
(*     zero                         if no element is live,                 *)
(*     combine(x, zero)             if exactly one element x is live and a *)
(*                                  zero is given,                         *)
(*     x                            if exactly one and no zero,            *)
(*     the fold of combine over the live elements (zero NOT involved)      *)
(*                                  if two or more are live.               *)
(* The fold is over a commutative, associative combiner, so it is a        *)
(* function of the live multiset only: not of insertion order, removal     *)
(* order, or the shape of whatever tree computes it (OrderIndependent).    *)
(* Histories come from a JSON file (IOEnv.HIST_FILE); TLC prints the       *)
(* required result after every cycle for the glue to compare with the real *)
(* operator.                                                               *)
(***************************************************************************)
EXTENDS Integers, Sequences, FiniteSets, TLC, Json, IOUtils

Hists == LET a == JsonDeserialize(IOEnv.HIST_FILE) IN {a[i] : i \in 1..Len(a)}
NoZero == -999999

VARIABLES h, pos, live, out, done
vars == <<h, pos, live, out, done>>

Comb(c, x, y) == CASE c = "add" -> x + y
                   [] c = "min" -> IF x < y THEN x ELSE y
                   [] c = "max" -> IF x > y THEN x ELSE y

RECURSIVE FoldKeys(_, _, _)
FoldKeys(c, f, ks) == IF Cardinality(ks) = 1 THEN f[CHOOSE k \in ks : TRUE]
                      ELSE LET k == CHOOSE k \in ks : TRUE
                           IN  Comb(c, f[k], FoldKeys(c, f, ks \ {k}))

\* <<valid, value>>
Result(c, z, f) ==
    LET ks == DOMAIN f IN
    IF ks = {} THEN (IF z = NoZero THEN <<0, 0>> ELSE <<1, z>>)
    ELSE IF Cardinality(ks) = 1 THEN (IF z = NoZero THEN <<1, f[CHOOSE k \in ks : TRUE]>>
                                      ELSE <<1, Comb(c, f[CHOOSE k \in ks : TRUE], z)>>)
    ELSE <<1, FoldKeys(c, f, ks)>>

\* apply one cycle's operations: <<k, v>> sets, <<k>> removes
RECURSIVE ApplyOps(_, _, _)
ApplyOps(f, ops, i) ==
    IF i > Len(ops) THEN f
    ELSE LET o == ops[i]
             g == IF Len(o) = 2
                  THEN [k \in DOMAIN f \cup {o[1]} |-> IF k = o[1] THEN o[2] ELSE f[k]]
                  ELSE [k \in DOMAIN f \ {o[1]} |-> f[k]]
         IN ApplyOps(g, ops, i + 1)

Init == /\ h \in Hists /\ pos = 1 /\ live = <<>> /\ out = <<>> /\ done = FALSE

Cycle == /\ ~done /\ pos <= Len(h.ops)
         /\ LET f == ApplyOps(live, h.ops[pos][2], 1)
                r == Result(h.comb, h.zero, f)
            IN  /\ live' = f
                /\ out' = Append(out, <<h.ops[pos][1], r[1], r[2]>>)
         /\ pos' = pos + 1
         /\ UNCHANGED <<h, done>>

Finish == /\ ~done /\ pos > Len(h.ops)
          /\ done' = TRUE
          /\ PrintT(<<"RED", ToJson([id |-> h.id, out |-> out])>>)
          /\ UNCHANGED <<h, pos, live, out>>

Next == Cycle \/ Finish
Spec == Init /\ [][Next]_vars

----------------------------------------------------------------------------
\* the fold does not depend on which element is folded first (checked on every reachable live set)
OrderIndependent ==
    LET ks == DOMAIN live IN
    Cardinality(ks) >= 2 =>
        \A k \in ks : Comb(h.comb, live[k], FoldKeys(h.comb, live, ks \ {k})) = FoldKeys(h.comb, live, ks)

\* the zero is never part of the result once two or more elements are live
ZeroNotInvolved ==
    (Cardinality(DOMAIN live) >= 2 /\ out # <<>>) => out[Len(out)][3] = FoldKeys(h.comb, live, DOMAIN live)

=============================================================================
