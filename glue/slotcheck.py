"""Schedule-table conformance (spec/NestedSched.tla <-> spec/SlotTrace.tla <-> the real schedule tables).

The engine driver (opt slots=1) dumps, at the end of every root cycle, the schedule table of every live graph instance
through the public GraphView API.  SlotTrace.tla evaluates on every dump the delegation rule that NestedSched.tla proves
about the protocol (model-checked exhaustively, with four named faults that TLC must reject)."""
import json

import hg
import programs as P
import tracecheck

KINDS = ("pass", "add", "acc", "count", "delay", "echo", "echo", "sum2", "sumu", "sample", "sample2", "sampleu", "lsum", "lsumv")


KEEP = {"slots", "ret", "req", "eval", "gstop", "gstart", "gstartfail", "fn"}


def with_slots(scn):
    return scn.replace("opt start=", "opt slots=1 start=", 1)


def scenarios(rng, n):
    """nested (depth 1 / 2), try_except, map_ and switch_ shapes whose children hold pending wake-ups"""
    import check_ops
    out = []
    for i in range(n):
        shape = i % 7
        if shape == 6:
            # a node built through NodeBuilder::native: its validity gate is applied by the runtime.  While its required input
            # holds no value its evaluation does not run, but its wake-ups are still consumed one by one and the later ones stay
            horizon = rng.choice([9, 11])
            late = rng.choice([horizon - 1, horizon + 3])            # the required input becomes valid late, or never
            ticks = sorted(rng.sample(range(2, horizon - 1), rng.randint(1, 3)))
            at = sorted(rng.sample(range(3, horizon), rng.randint(2, 3)))
            out.append("\n".join(["scn snat%d" % i, "opt start=1 end=%d" % (horizon + 1), "graph root", "n 1 src script=%d:1" % late,
                                  "n 2 src script=" + ";".join("%d:%d" % (t, t) for t in ticks), "n 3 rec in=1", "n 4 rec in=2",
                                  "native 50 in=1,2 at=" + ",".join(str(t) for t in at), "endgraph", "run"]))
            continue
        if shape == 5:
            # map_sink_ over a dynamic list: one child per index, children hold wake-ups at different times and elements
            # of other indexes tick in between
            horizon = rng.choice([7, 9])
            ops = {}
            for idx in range(rng.randint(2, 4)):
                for t in sorted(rng.sample(range(1, horizon), rng.randint(1, 3))):
                    ops.setdefault(t, []).append("%d=%d" % (idx, rng.choice([1, 2, 3, 5])))
            script = ";".join("%d:%s" % (t, ",".join(v)) for t, v in sorted(ops.items()))
            out.append("\n".join(["scn stm%d" % i, "opt start=1 end=%d" % (horizon + 1), "graph g0 nin=1",
                                  "n 10 %s d=%d in=a0" % (rng.choice(["echo", "delay"]), rng.randint(1, 3)), "n 11 rec in=10", "endgraph",
                                  "graph root", "n 1 dynlsrc script=" + script, "n 2 tmap g=0 in=1", "endgraph", "run"]))
            continue
        if shape in (0, 1):
            p = P.random_program(rng, i + 1, max_nodes=7, horizon=7, kinds=KINDS)
            gs = P.candidate_groups(p, max_ext=3)
            rng.shuffle(gs)
            gs.sort(key=lambda g: -sum(1 for j in g[0] if p["nodes"][j - 1]["kind"] in ("timer", "delay", "echo", "src")))
            for g in gs[:1]:
                ext = g[1]
                outer = tuple(ext[:max(0, len(ext) - 2)]) if len(ext) > 2 else (tuple(ext[:1]) if ext and rng.random() < 0.3 else ())
                out.append(P.render(p, group=g, mode="nested", depth=1 + shape, outer=outer))
        elif shape == 2:
            horizon = rng.choice([6, 7, 9])
            hist = check_ops.dict_history(rng, [1, 2, 3], horizon, maxops=3)
            if not hist:
                continue
            fnodes, fout = check_ops.fn_graph(rng, 10, False, False)
            lines = ["scn smap%d" % i, "opt start=1 end=%d" % (horizon + 1), "graph g0 nin=1"]
            lines += [check_ops.fn_stmt(x) for x in fnodes] + ["n 30 echo d=%d in=%d" % (rng.randint(1, 2), fout), "out 30", "endgraph", "graph root",
                                                             "n 1 dsrc script=" + check_ops.dscript(hist), "n 3 map g=0 key=0 err=0 in=1", "n 4 drec in=3",
                                                             "endgraph", "run"]
            out.append("\n".join(lines))
        elif shape == 3:
            horizon = rng.choice([6, 7, 9])
            nb = 2
            branches = [check_ops.branch_graph(rng, 10 * (b + 1), False) for b in range(nb)]
            kticks = [[t, rng.randint(1, nb)] for t in sorted(rng.sample(range(1, horizon + 1), rng.randint(1, 4)))]
            ts1 = P.gen_script(rng, horizon, maxlen=5)
            lines = ["scn ssw%d" % i, "opt start=1 end=%d" % (horizon + 1)]
            for b, (fn, fout) in enumerate(branches):
                lines += ["graph g%d nin=1" % b] + [check_ops.fn_stmt(x) for x in fn] + ["n %d delay d=%d in=%d" % (90 + b, rng.randint(1, 2), fout),
                                                                                         "out %d" % (90 + b), "endgraph"]
            lines += ["graph root", "n 1 src script=" + ";".join("%d:%d" % (t, v) for t, v in kticks),
                      "n 2 src script=" + ";".join("%d:%d" % (t, v) for t, v in ts1),
                      "n 3 switch in=1,2 cases=%s" % ",".join("%d:%d" % (b + 1, b) for b in range(nb)), "n 4 rec in=3", "endgraph", "run"]
            out.append("\n".join(lines))
        else:
            # try_except around delay -> thrower: the child holds a pending wake-up when the cycle is aborted
            horizon = rng.choice([6, 8])
            script = P.gen_script(rng, horizon, maxlen=5, values=(1, 2, -1, 3, -2))
            if rng.random() < 0.5:
                body = ["n 2 %s d=%d in=a0" % (rng.choice(["delay", "echo"]), rng.randint(1, 2)), "n 3 throwneg in=2", "out 3"]
            else:
                # a self-scheduling chain that does not depend on the thrower but is ranked after it: its wake-ups that were
                # pending before the aborted cycle stay pending (what it would have done IN the aborted cycle is lost with it)
                body = ["n 2 throwneg in=a0", "n 3 add k=1 in=a0", "n 6 %s d=%d in=3" % (rng.choice(["delay", "echo"]), rng.randint(2, 3)), "out 6"]
            lines = ["scn stry%d" % i, "opt start=1 end=%d" % (horizon + 1), "graph g0 nin=1"] + body + ["endgraph", "graph root",
                     "n 1 src script=" + ";".join("%d:%d" % (t, v) for t, v in script), "n 8 tryexc g=0 in=1", "n 4 pass in=8", "n 5 rec in=4",
                     "endgraph", "run"]
            out.append("\n".join(lines))
    return [with_slots(s) for s in out]


FAULTS = (("nopull", "Covered"), ("nopush", "Covered"), ("noclamp", "NeverPast"), ("norearm", "TimerArmed"))


def model_start(quick):
    """NestedSched.tla in the background: exhaustive on the two-level instance + the four named faults"""
    from concurrent.futures import ThreadPoolExecutor
    ex = ThreadPoolExecutor(max_workers=5)
    main = ex.submit(hg.tlc, "NestedSched", "NestedSched.quick.cfg" if quick else "NestedSched.none.cfg", timeout=3000, workers=6)
    fs = [(f, ex.submit(hg.expect_violation, "NestedSched", "NestedSched.%s.cfg" % f, inv, timeout=1200, workers=2)) for f, inv in FAULTS]
    return ex, main, fs


def model_finish(chk, handle):
    ex, main, fs = handle
    res = main.result()
    if res.violation:
        raise hg.MachineryError("NestedSched.tla violates its own invariants:\n" + res.violation)
    chk.add_tlc(res, "NestedSched-exhaustive")
    for f, fut in fs:
        chk.add_tlc(fut.result(), "NestedSched-fault:" + f)      # each named fault must be rejected by TLC
    ex.shutdown()


def run(chk, pid, rng, n, own_prefixes):
    scns = scenarios(rng, n)
    traces = hg.run_driver("engine", scns)
    items = []
    for k, (scn, tr) in enumerate(zip(scns, traces)):
        chk.count({"scn": scn})
        if isinstance(tr, dict):
            chk.violation("slots:crash", "driver crashed/hung on a schedule-table scenario: %s" % json.dumps(tr)[:300], scn)
            continue
        if any(e["e"] in ("wirefail", "harnessfail") for e in tr):
            continue
        end = int([x for x in scn.splitlines()[1].split() if x.startswith("end=")][0][4:])
        items.append({"id": k, "prog": {"end": end, "own": pid}, "ev": [e for e in tr if e["e"] in KEEP and (e["e"] != "fn" or "throw" in e)]})
    verdicts, st, trn = tracecheck.validate("SlotTrace", "SlotTrace.cfg", items, "slots-" + pid, keep=KEEP)
    chk.coverage["states"] += st
    chk.coverage["transitions"] += trn
    chk.coverage["traces_validated_against_impl"] += len(items)
    other = {}
    for it in items:
        acc, why = verdicts.get(it["id"], (0, "trace.missing"))
        if not why:
            continue
        if why.startswith(own_prefixes) or why.startswith("trace."):
            chk.violation("slots:%s" % why, "SlotTrace.tla rejects the schedule tables dumped at the end of root cycle #%d: %s" % (acc + 1, why),
                          "# %s\n%s\n" % (why, scns[it["id"]]))
        else:
            other[why] = other.get(why, 0) + 1
    chk.notes["schedule_table_traces"] = len(items)
    chk.notes["schedule_table_dumps"] = sum(1 for it in items for e in it["ev"] if e["e"] == "slots")
    if other:
        chk.notes.setdefault("rejections_belonging_to_other_properties", {}).update(other)
