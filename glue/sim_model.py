"""C02, level B: the simulation run loop + the root graph's schedule table (spec/SimExecutor.tla), bound to the real engine.

* TLC checks the implementation-shaped model against the sentences of C02 on every behaviour of the bounded instance
  (free nodes: any node may request, withdraw, tick consumers and feed back in every evaluation) and must reject every
  named fault (one realistic slip each in schedule_node_impl / start_impl / evaluate_impl / node.cpp / advance_simulation /
  run_storage) with the invariant that slip is meant to break.
* spec -> code: TLC's simulator prints finished behaviours of the same model whose nodes are restricted to what the engine
  driver's vocabulary does (scripted sources, timers, a feedback, scripted scheduler users, echo / delay / pass); each is
  rendered as a driver scenario and replayed on the compiled tree.  The engine's cycle times, the nodes evaluated in each
  cycle, the cached next time after each cycle and the schedule table itself are compared with the prediction.
* Verdict: what the real run did - the requests its nodes made (read from the trace, not from the script) and the cycles it
  ran - is judged by TLC against level A alone (spec/SimTrace.tla).  Only a clause of that module is a VIOLATION; a run that
  differs from the model's prediction but satisfies level A is DRIFT."""
import json
import os
import sys
import threading
from concurrent.futures import ThreadPoolExecutor

sys.path.insert(0, os.path.dirname(os.path.abspath(__file__)))
import hg

N = 3
INF = 26            # SimExecutor!Inf for the generating configuration (MaxT = 6)
DUMMY = 90          # placeholder source of a `sched` node without a producer

# (cfg, invariant TLC must report)
FAULTS_QUICK = [("nolower", "EveryWakeupHonouredExactly"), ("overwrite", "CacheIsMinFutureSlot"),
                ("skipplus1", "CacheIsMinFutureSlot"), ("seedgt", "EveryWakeupHonouredExactly"), ("norearm", "EveryWakeupHonouredExactly"),
                ("maxadvance", "EveryWakeupHonouredExactly"), ("endinclusive", "WithinWindow"), ("cachege", "AtMostOncePerCycle"),
                ("noreset", "CursorMonotone"), ("noreset2", "TimeStrictlyIncreases"), ("pushinvert", "NoUnrequestedCycle")]
FAULTS_MORE = [("nolower2", "NoLostNotify"), ("norearm2", "EveryWakeupHonouredExactly"), ("cachege2", "NoUnrequestedCycle"), ("nocachereset", "TimeStrictlyIncreases"),
               ("fbnow", "EveryWakeupHonouredExactly"), ("overwrite2", "NeverPast")]


# ------------------------------------------------------------------------------------------ models in the background
def models_start(quick):
    """named faults (1 worker each, at most three JVMs at a time) and the exhaustive fault-free configurations"""
    gate = threading.Semaphore(3)
    ex = ThreadPoolExecutor(max_workers=8)
    futs = []

    def fault(cfg, inv):
        with gate:
            return hg.expect_violation("MCSimExecutor", "SimExecutor.%s.cfg" % cfg, inv, workers=1, timeout=1200, metatag="simB-" + cfg)

    def clean(cfg, workers):
        return hg.tlc("MCSimExecutor", "SimExecutor.%s.cfg" % cfg, workers=workers, timeout=3000, metatag="simB-" + cfg)

    exhaustive = [("quick", 2), ("wdstopq", 1)] if quick else [("thorough", 4), ("wdstop", 2), ("wdstop3", 4), ("live", 1)]
    for cfg, w in exhaustive:
        futs.append(("SimExecutor %s (fault-free, exhaustive)" % cfg, None, ex.submit(clean, cfg, w)))
    for cfg, inv in FAULTS_QUICK + ([] if quick else FAULTS_MORE):
        futs.append(("SimExecutor fault %s" % cfg, inv, ex.submit(fault, cfg, inv)))
    return ex, futs


def models_finish(chk, handle):
    ex, futs = handle
    rejected = []
    for label, inv, fut in futs:
        res = fut.result()
        if inv is None and res.violation:
            raise hg.MachineryError("SimExecutor.tla violates its own invariants (%s):\n%s" % (label, res.violation))
        if inv:
            rejected.append(label.split()[-1] + ":" + inv)
        chk.add_tlc(res, label)
    ex.shutdown()
    return rejected


# ------------------------------------------------------------------------------------------ spec -> code
def generate(n, seed, workers, cfg="SimExecutor.gen.cfg"):
    """n behaviours of the vocabulary-node model (TLC's simulator runs `num` traces per worker)"""
    res = hg.tlc("MCSimExecutor", cfg, simulate="num=%d" % (-(-n // workers)), depth=200, extra=["-seed", str(seed)], workers=workers,
                 timeout=1500, metatag="simB-gen")
    if res.violation:
        raise hg.MachineryError("SimExecutor.gen.cfg reported a violation:\n" + res.violation)
    return hg.printed_json(res, "SIMB"), res


def acts_text(script):
    """per activation (0 = the start hook) the requests as offsets from that activation's time, latest first"""
    out = []
    for a in script:
        ops = ["sch.%d." % (t - a["t"]) for t in sorted(a["at"], reverse=True)]
        out.append("+".join(ops) if ops else "-")
    return "/".join(out)


def render(b, name, slots=True):
    prog = b["prog"]
    lines = ["scn " + name, "opt %sstart=%d end=%d" % ("slots=1 " if slots else "", b["start"], b["end"]), "graph root"]
    srcs, cons, binds = [], [], []
    need_dummy = False
    for i, p in enumerate(prog, 1):
        k, sc = p["kind"], b["script"][i - 1]
        if k == "srcall":
            ts = sorted(sc[0]["at"], reverse=True)          # VSrc.start walks the script in order: latest first, like the model
            srcs.append("n %d src mode=all script=%s" % (i, ";".join("%d:%d" % (t, 10 * t + i) for t in ts)))
        elif k == "srcchain":
            ts = [t for a in sc for t in a["at"]]
            srcs.append("n %d src script=%s" % (i, ";".join("%d:%d" % (t, 10 * t + i) for t in ts)))
        elif k == "timer":
            srcs.append("n %d timer p=%d cnt=%d" % (i, p["d"], p["cnt"]))
        elif k == "fbsrc":
            srcs.append("n %d fb%s" % (i, " init=0" if p["cnt"] == 1 else ""))
            binds.append("bind %d %d" % (i, p["fbof"]))
        elif k == "sched":
            if p["inp"] == 0:
                need_dummy = True
            cons.append("n %d sched in=%d acts=%s" % (i, p["inp"] or DUMMY, acts_text(sc)))
        elif k in ("echo", "delay"):
            cons.append("n %d %s d=%d in=%d" % (i, k, p["d"], p["inp"]))
        elif k == "pass":
            cons.append("n %d pass in=%d" % (i, p["inp"]))
        else:
            raise hg.MachineryError("sim_model: cannot render node kind %r" % k)
    if need_dummy:
        srcs.append("n %d src" % DUMMY)        # never asks for anything; written last among the sources (SimExecutor!ProdRank)
    return "\n".join(lines + srcs + cons + binds + ["endgraph", "run"])


def observe(b, events):
    """what the real run did: rank order of the model's nodes, cycles, requests"""
    prog = b["prog"]
    fbs = [i for i, p in enumerate(prog, 1) if p["kind"] == "fbsrc"]
    idx2abs, sink = {}, None
    for e in events:
        if e["e"] == "gnode":
            if 1 <= e["id"] <= len(prog):
                idx2abs[e["n"]] = e["id"]
            elif e["name"] == "feedback_source" and fbs:
                idx2abs[e["n"]] = fbs[0]
            elif e["name"] == "feedback_sink":
                sink = e["n"]
    order = [idx2abs[n] for n in sorted(idx2abs)]
    cycles, reqs, wds = [], [], []
    cur = None
    ret = None
    tagged = {}          # (node, tag) -> time of its outstanding tagged request
    for i, p in enumerate(prog, 1):     # start-time declarations: schedule_on_start, a feedback's initial value
        if p["kind"] == "timer" or (p["kind"] == "fbsrc" and p["cnt"] == 1):
            reqs.append({"n": i, "made": b["start"], "at": b["start"], "st": 1})
    for e in events:
        k = e["e"]
        if k == "cycle" and e["g"] == 0:
            cur = {"t": e["t"], "ev": [], "next": None, "slots": None}
            cycles.append(cur)
        elif k == "eval" and e["g"] == 0 and cur is not None:
            if e["n"] in idx2abs:
                cur["ev"].append(idx2abs[e["n"]])
            elif e["n"] == sink and fbs:       # the sink had its turn: a delivery one step ahead
                reqs.append({"n": fbs[0], "made": e["t"], "at": e["t"] + 1, "st": 0})
        elif k == "cycled" and e["g"] == 0 and cur is not None:
            cur["next"] = None if e["next"] >= 1000000 else e["next"]
        elif k == "slots" and cur is not None:
            root = [g for g in e["gs"] if g["pg"] < 0]
            if root:
                cur["slots"] = [root[0]["s"][n] for n in sorted(idx2abs)]
        elif k == "req" and 1 <= e["id"] <= len(prog):
            st = 1 if cur is None else 0
            if e.get("tag"):
                old = tagged.get((e["id"], e["tag"]))
                if old is not None and old > e["t"]:
                    wds.append({"n": e["id"], "made": e["t"], "at": old})
                tagged[(e["id"], e["tag"])] = e["at"]
            reqs.append({"n": e["id"], "made": e["t"], "at": e["at"], "st": st})
        elif k == "sop" and e["op"] == "sch" and 1 <= e["id"] <= len(prog):
            reqs.append({"n": e["id"], "made": e["t"], "at": e["t"] + e["dt"], "st": 1 if cur is None else 0})
        elif k == "ret":
            ret = e
    return {"order": order, "cycles": cycles, "reqs": reqs, "wds": wds, "ret": ret}


def item_of(bid, b, obs):
    return {"id": bid, "start": b["start"], "end": b["end"], "reqs": obs["reqs"], "wds": obs["wds"],
            "cycles": [{"t": c["t"], "ev": c["ev"]} for c in obs["cycles"]], "stopped": 0,
            "failed": 0 if obs["ret"] is not None and obs["ret"].get("ok") == 1 else 1}


def judge(items, tag="sim"):
    """level A: SimTrace.tla on the observed runs -> {id: clause or ''}"""
    if not items:
        return {}, []
    d = hg.outdir("_work")
    nshards = min(4, max(1, len(items) // 400))
    shards = [items[k::nshards] for k in range(nshards)]

    def one(k):
        path = os.path.join(d, "%s-%d.%d.json" % (tag, os.getpid(), k))
        with open(path, "w") as f:
            json.dump(shards[k], f)
        try:
            return hg.tlc("SimTrace", "SimTrace.cfg", env={"SIM_FILE": path}, workers=1, timeout=1800, metatag="simB-trace%d" % k)
        finally:
            os.unlink(path)

    with ThreadPoolExecutor(max_workers=nshards) as ex:
        results = list(ex.map(one, range(nshards)))
    verdicts = {}
    for res in results:
        if res.violation:
            raise hg.MachineryError("SimTrace.tla failed:\n" + res.violation)
        for v in hg.printed_json(res, "SVERDICT"):
            verdicts[v["id"]] = v["why"]
    for it in items:
        if it["id"] not in verdicts:
            raise hg.MachineryError("TLC printed no verdict for replayed behaviour %s" % it["id"])
    return verdicts, results


def differences(b, obs):
    """level B: where the real run departs from the model's prediction (names of the observables that differ)"""
    pred = b["cycles"]
    out = []
    if [(c["t"], c["ev"]) for c in pred] != [(c["t"], c["ev"]) for c in obs["cycles"]]:
        return ["cycles"]
    for pc, oc in zip(pred, obs["cycles"]):
        pn = None if pc["next"] >= INF else pc["next"]
        if pn != oc["next"] and "next_scheduled_time" not in out:
            out.append("next_scheduled_time")
        if oc["slots"] is not None and list(pc["slots"]) != oc["slots"] and "slots" not in out:
            out.append("slots")
    return out


def run(chk, rng, n=None, models=True):
    quick = chk.tier == "quick"
    handle = models_start(quick) if models else (ThreadPoolExecutor(max_workers=1), [])
    want = n or (300 if quick else 5000)
    import time
    t0 = time.time()
    behs, gres = generate(int(want * 1.15) + 20, rng.randrange(1, 1 << 30), 2 if quick else 4)
    behs = behs[:want]
    t1 = time.time()
    chk.add_tlc(gres, "SimExecutor behaviours (simulation, vocabulary nodes)")
    scns = [render(b, "simb%d" % k) for k, b in enumerate(behs)]
    traces = hg.run_driver("engine", scns, shards=4)
    t2 = time.time()
    items, keep = [], {}
    notes = {"behaviours": len(behs), "replayed": 0, "cycles_compared": 0, "match": 0, "drift": 0, "order_differs": 0,
             "kinds": {}, "violations": 0}
    for k, (b, scn, tr) in enumerate(zip(behs, scns, traces)):
        chk.count({"prog": b["prog"], "script": b["script"], "start": b["start"], "end": b["end"]})
        for p in b["prog"]:
            notes["kinds"][p["kind"]] = notes["kinds"].get(p["kind"], 0) + 1
        if isinstance(tr, dict):
            chk.violation("sim_model:crash", "the engine driver crashed / hung on a replayed behaviour of SimExecutor.tla: %s" % json.dumps(tr)[:300], scn)
            notes["violations"] += 1
            continue
        bad = [e for e in tr if e["e"] in ("harnessfail", "wirefail")]
        if bad:
            chk.violation("sim_model:harness", "a replayed behaviour could not be wired / interpreted: %s" % bad[:1], scn)
            notes["violations"] += 1
            continue
        obs = observe(b, tr)
        keep[k] = (b, scn, obs)
        items.append(item_of(k, b, obs))
    verdicts, results = judge(items)
    t3 = time.time()
    for res in results:
        chk.coverage["states"] += res.states
        chk.coverage["transitions"] += res.transitions
    shown = 0
    for k, (b, scn, obs) in keep.items():
        notes["replayed"] += 1
        chk.coverage["traces_validated_against_impl"] += 1
        why = verdicts[k]
        pred = [(c["t"], c["ev"]) for c in b["cycles"]]
        real = [(c["t"], c["ev"]) for c in obs["cycles"]]
        if why:
            notes["violations"] += 1
            chk.violation("sim_model:" + why, "%s: window [%d, %d), nodes %s; requests seen %s; the engine ran cycles %s; SimExecutor.tla predicts %s%s"
                          % (why, b["start"], b["end"], [p["kind"] for p in b["prog"]],
                             [(r["n"], r["made"], r["at"]) for r in obs["reqs"]], real, pred,
                             "; run failed: %s" % (obs["ret"] or {}).get("msg", "no return")[:200] if (obs["ret"] is None or obs["ret"].get("ok") != 1) else ""),
                          "# %s\n%s\n" % (why, scn))
            continue
        if obs["order"] != sorted(obs["order"]) or len(obs["order"]) != len(b["prog"]):
            notes["order_differs"] += 1
            if shown < 3:
                shown += 1
                print("DRIFT C02 sim_model: Wiring::finish ranked the nodes %s, SimExecutor.tla assumes %s (prediction not comparable)"
                      % (obs["order"], list(range(1, len(b["prog"]) + 1))))
            continue
        notes["cycles_compared"] += len(real)
        diff = differences(b, obs)
        if not diff:
            notes["match"] += 1
            continue
        notes["drift"] += 1
        if shown < 3:
            shown += 1
            print("DRIFT C02 sim_model: %s differ from SimExecutor.tla on nodes %s window [%d, %d): engine %s, model %s (level A accepts the run)"
                  % (", ".join(diff), [p["kind"] for p in b["prog"]], b["start"], b["end"],
                     [(c["t"], c["ev"], c["next"], c["slots"]) for c in obs["cycles"]],
                     [(c["t"], c["ev"], None if c["next"] >= INF else c["next"], list(c["slots"])) for c in b["cycles"]]))
    notes["faults_rejected"] = models_finish(chk, handle)
    notes["wall_s"] = {"generate": round(t1 - t0, 1), "replay": round(t2 - t1, 1), "judge": round(t3 - t2, 1), "models_wait": round(time.time() - t3, 1)}
    chk.notes["sim_model"] = notes
    if behs:
        chk.sample({"sim_model_scenario": scns[0].splitlines(), "predicted_cycles": [(c["t"], c["ev"]) for c in behs[0]["cycles"]]})
    return notes


if __name__ == "__main__":
    import random
    if len(sys.argv) > 1:
        os.environ["VERIF_TIER"] = sys.argv[1]
    c = hg.Check("C02")
    out = run(c, random.Random(hg.seed()), int(sys.argv[2]) if len(sys.argv) > 2 else None)
    print(json.dumps(out, indent=1))
    for r in c.notes.get("tlc_runs", []):
        print("  tlc %-60s %8d states %7.1fs" % (r["label"], r["states"], r["wall_s"]))
    for key, desc, path in c.violations:
        print("VIOLATION", key, path, "\n  ", desc[:600])
    sys.exit(1 if c.violations else 0)
