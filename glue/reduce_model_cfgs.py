"""Writes spec/cfg/ReduceTree.*.cfg (the configurations of MCReduceTree.tla used by glue/reduce_model.py): the fault-free
instances, one configuration per named fault (with the single invariant TLC must report), the instances whose finished
behaviours are printed for replay, and the -simulate instances.  Run it after changing the list: python3 glue/reduce_model_cfgs.py"""
import os
D = "/verif/spec/cfg"
ALL = ["InvResultIsFold", "InvKeyMapBijection", "InvLeavesAreTheValid", "InvCapacityOk", "InvShapeExact", "InvCacheTruthful",
       "InvBindingsExact", "InvNoLeafBoundTwice", "InvNothingLeftScheduled", "InvPublishedIsRoot", "InvListScanIsFold"]
def cfg(name, spec="SpecMC", fault="none", maxcap=4, nkeys=4, vals="{1, 2}", comb="add", zero=100, haszero=True, lifted=False, pend="free",
        maxops=2, maxcycles=0, plans='{"any"}', emit=False, initlive=0, view="NoHist", invs=ALL):
    b = lambda x: "TRUE" if x else "FALSE"
    lines = ["SPECIFICATION " + spec, 'CONSTANTS Fault = "%s"' % fault, " MaxCap = %d" % maxcap, " NKeys = %d" % nkeys, " Vals = %s" % vals,
             ' Comb = "%s"' % comb, " HasZero = %s" % b(haszero), " Zero = %d" % zero, " Lifted = %s" % b(lifted), ' PendMode = "%s"' % pend,
             " MaxOps = %d" % maxops, " MaxCycles = %d" % maxcycles, " Plans = %s" % plans, " Emit = %s" % b(emit), " InitLive = %d" % initlive]
    if view:
        lines.append("VIEW " + view)
    lines += ["INVARIANT " + i for i in invs] + ["CHECK_DEADLOCK FALSE"]
    open(os.path.join(D, "ReduceTree.%s.cfg" % name), "w").write("\n".join(lines) + "\n")

# exhaustive, whole reachable space (no horizon): 4 keys, capacity 0/1/2 -> 4
cfg("quick", pend="none")                                                 # quick tier: generic combiner, add, zero 100 (not the identity), adds carry a value
cfg("pend3", nkeys=3, lifted=True, haszero=False, comb="max")             # quick tier: late values (free), lifted kernel, max, no zero, 3 keys (capacity 0-1-2-4)
cfg("full")                                                               # as quick + keys that get their value in any later cycle
cfg("lifted", lifted=True, haszero=False, comb="max")                     # lifted kernel, max, no zero
cfg("gnozero", haszero=False)                                             # generic, add, no zero (capacity 0 -> 1 -> 2 -> 4)
cfg("lzero", lifted=True, comb="max", zero=2)                             # lifted, max, zero 2 (not the identity on {1, 2})
cfg("ops3", maxops=3)                                                     # thorough: three operations per cycle
cfg("ops3l", maxops=3, lifted=True, haszero=False)
cfg("deep8", nkeys=8, maxcap=8, initlive=8, lifted=True, pend="none", maxops=2, maxcycles=2, view="NoHistCyc")   # capacity-8 tree (3 levels), every 2-cycle history from 8 live keys
cfg("deep8g", nkeys=8, maxcap=8, initlive=8, lifted=False, haszero=False, pend="none", maxops=2, maxcycles=2, view="NoHistCyc")
# named faults: TLC must report the named invariant
F = [("noold", dict(initlive=4), "InvNoLeafBoundTwice"),
     ("noold8", dict(fault="noold", nkeys=8, maxcap=8, initlive=8, lifted=True, pend="none", maxops=1), "InvResultIsFold"),
     ("noolds", dict(fault="noold", lifted=True, initlive=4), "InvShapeExact"),
     ("nomapfix", dict(initlive=3), "InvKeyMapBijection"),
     ("noticks", dict(lifted=True, initlive=2), "InvResultIsFold"),
     ("noticksg", dict(fault="noticks", initlive=2), "InvCacheTruthful"),
     ("ascending", dict(lifted=True, initlive=3), "InvResultIsFold"),
     ("ascendingg", dict(fault="ascending", initlive=3), "InvNothingLeftScheduled"),
     ("growpartial", dict(lifted=True, initlive=2), "InvResultIsFold"),
     ("norebind", dict(initlive=1), "InvResultIsFold"),
     ("norebindb", dict(fault="norebind", initlive=1), "InvBindingsExact"),
     ("nozero1", dict(), "InvResultIsFold"),
     ("nomincap", dict(), "InvCapacityOk"),
     ("nopub", dict(initlive=1), "InvPublishedIsRoot"),
     ("addpending", dict(), "InvLeavesAreTheValid"),
     ("firstunset", dict(), "InvListScanIsFold")]
for name, kw, inv in F:
    kw = dict(kw)
    kw.setdefault("fault", name)
    cfg(name, invs=[inv], **kw)
# behaviours for replay on the real operator
for nk, tag in ((3, "3"), (4, "")):
  cfg("emit" + tag, emit=True, maxcycles=4, nkeys=nk, pend="none", lifted=True, view="NoHistCyc")
  cfg("emitg" + tag, emit=True, maxcycles=4, nkeys=nk, pend="none", lifted=False, haszero=False, view="NoHistCyc")
  cfg("emitmax" + tag, emit=True, maxcycles=4, nkeys=nk, pend="none", lifted=True, comb="max", zero=2, view="NoHistCyc")
cfg("emit", emit=True, maxcycles=4, pend="none", lifted=True, view="NoHistCyc")                       # add_ (library operator), zero 100
cfg("emitg", emit=True, maxcycles=4, pend="none", lifted=False, haszero=False, view="NoHistCyc")      # sub-graph combiner, no zero
cfg("emitmax", emit=True, maxcycles=4, pend="none", lifted=True, comb="max", zero=2, view="NoHistCyc")
cfg("emitlate", emit=True, maxcycles=5, pend="one", lifted=False, nkeys=3, view="NoHistCyc")          # through map_(delay 1): late values
PL = '{"any", "grow", "grow2", "shrink", "drain", "ticks", "removeLast", "swapTick"}'
cfg("sim", spec="SpecSim", emit=True, maxcycles=16, pend="none", lifted=True, comb="max", zero=2, nkeys=8, maxcap=8, vals="{1, 2, 3}", maxops=2, plans=PL, view=None)
cfg("simg", spec="SpecSim", emit=True, maxcycles=16, pend="none", lifted=False, haszero=False, nkeys=7, maxcap=8, vals="{1, 2, 3}", maxops=2, plans=PL, view=None)
cfg("simlate", spec="SpecSim", emit=True, maxcycles=16, pend="one", lifted=False, nkeys=6, maxcap=8, vals="{1, 2, 3}", maxops=2, plans=PL, view=None)
