"""TLC side of check_rt.py: exhaustive model checking of the level-B models (PushQueue.tla, RealTime.tla) against the
level-A invariants, and conversion of their simulated behaviours into driver scenarios (schedule replay, timer scripts)."""
import json

import hg

RULE = {
    "C16": ("PushQueue.tla (level B: every critical section of try_send / send_blocking / try_pop / take_all / conflating policy (scalar, and "
            "over a dictionary output with deltas that have no effect: the pending flag) / "
            "mark+reset push pending / stop is one action; policy, capacity, producer kinds and the stop moment are chosen by TLC) is "
            "model-checked exhaustively on the bounded instance against the level-A invariants (delivered is a prefix of accepted, once "
            "per cycle, capacity bound at every step, refusals only when full or stopped, nothing accepted after stop, the loop never "
            "sleeps on accepted values) and, under weak fairness, for eventual delivery.  Binding: TLC-simulated interleavings are "
            "replayed through the pre-lock gates of the real code (critical-section granularity) and seeded free-running stress runs "
            "(1-4 producers, try/blocking, queue/burst/conflating/conflating over a dictionary with effective and no-effect deltas, capacity "
            "0/1/2/3/16, stopper thread, stop from the sink) are all "
            "validated event by event by PushTrace.tla (level A) over sequence-numbered hook events.  exhaustive=true refers to the "
            "bounded model instance only; non-trivial = every executed scenario has at least one send; distinct = distinct scenario text "
            "without its seed."),
    "C17": ("RealTime.tla (level B: advance_realtime split into ReadWall / Lock / Check / WaitSlice / Notified|Spurious|SliceTimeout / "
            "Compute, mark_push and request_stop as set-under-mutex then notify, the wall clock advanced by the environment by any amount, "
            "timer nodes adding relative wake-ups and wall-clock alarms incl. already-due ones) is model-checked exhaustively on the bounded "
            "instance against the level-A invariants (time strictly increases, never ahead of the wall clock except the previous+1 floor, "
            "nothing scheduled before the end skipped or dropped except by stop / the drain cut, at most the current cycle after a stop "
            "request, no lost notification) and, under fairness, for termination.  Binding: scenarios derived from simulated behaviours "
            "of the model, random timer scripts (relative, absolute, wall-clock, already-due alarms, injected clock jumps past the target "
            "and past the end, busy re-scheduling through the drain bound), pushes and stop requests from other threads (also bursts of sends "
            "while the evaluation thread is busy in a cycle, then sends while it waits again: no wait may be sat out on a pushed value), and replayed "
            "stop/push interleavings, run on the real executor and validated by RtTrace.tla (level A; only lower bounds on wall time).  "
            "exhaustive=true refers to the bounded model instance only."),
}
ASSUMPTIONS = {
    "C16": ["interleavings finer than the hooked critical sections (unsynchronised reads) are outside the model",
            "'stopped' as a justification of a refusal = a stop request has been issued, the source is closing or it has stopped; "
            "'after stop' for admission = after the source cleared its accepting flag (DESIGN 6.2 reading, see agent_rt_report.md)",
            "eventual delivery on a finite trace = the loop never completes a wait by timeout while accepted values are pending, no "
            "admitting send is in flight and no stop has been requested",
            "conflating over a collection output: a delta without effect of its own (erase of an absent key) is accepted - the send reports "
            "true - but carries nothing to deliver and obliges nobody to wake the loop; a delivery must show the merged latest state (last "
            "value per key) of the effective deltas accepted since the previous delivery up to some point of the admission order"],
    "C17": ["only lower bounds on wall time are asserted (wall >= T); wall readings are taken by the driver after the executor's decision",
            "the monotonic floor previous+1 is accepted as documented; a run may return one smallest step before the wall clock reaches "
            "the end when that floor reaches the end time",
            "a lost condition-variable notification that only delays a wake-up by one wait slice is not observable without an upper bound "
            "on time; it is covered by the model (set under the mutex, then notify) only",
            "'a pushed value is never missed' on a finite trace = the loop never leaves a wait by time-out while a value admitted by a push "
            "source has been waiting there since before that wait began, no admitting send is still in flight and no stop has been "
            "requested (pushed values still queued when the end time is reached are not a miss)"],
}


def _tlc(chk, module, cfg, label, **kw):
    res = hg.tlc(module, cfg, **kw)
    if res.violation:
        raise hg.MachineryError("%s with %s violates its own invariants (spec defect, not a finding about /repo):\n%s" % (module, cfg, res.violation[:3000]))
    return (res, label)     # added to the evidence by the caller (this runs in a worker thread)


def model_check(pid, chk, quick):
    """Exhaustive (and, thorough tier, liveness) model checking of the level-B model. Returns [(TlcResult, label)]."""
    out = []
    if pid == "C16":
        out.append(_tlc(chk, "MCPushQueue", "PushQueue.quick.cfg" if quick else "PushQueue.thorough.cfg", "PushQueue-exhaustive", env={"PQ_MUTANT": "none"}, timeout=3000))
        if not quick:
            out.append(_tlc(chk, "MCPushQueue", "PushQueue.live.cfg", "PushQueue-liveness", env={"PQ_MUTANT": "none"}, timeout=3000))
    else:
        out.append(_tlc(chk, "MCRealTime", "RealTime.quick.cfg" if quick else "RealTime.thorough.cfg", "RealTime-exhaustive", timeout=3000))
        out.append(_tlc(chk, "MCRealTime", "RealTime.noend.cfg" if quick else "RealTime.noendfull.cfg", "RealTime-idle-run-exhaustive", timeout=3000))
        if not quick:
            out.append(_tlc(chk, "MCRealTime", "RealTime.live.cfg", "RealTime-liveness", timeout=3000))
    return out


# ------------------------------------------------------------------------------------------ PushQueue behaviours -> replay scenarios
def replay_scenarios(pid, chk, quick, Scn):
    nsim = (60 if quick else 1500)     # per TLC simulation worker (8 workers)
    cfg = "PushQueue.replay.cfg" if pid == "C16" else "PushQueue.replay17.cfg"
    sim = hg.tlc("MCPushQueue", cfg, workers=8, simulate="num=%d" % nsim, depth=300, timeout=900 if not quick else 120,
                 extra=["-seed", str(hg.seed())], env={"PQ_MUTANT": "none"})
    if sim.violation:
        raise hg.MachineryError("PushQueue.tla violates its invariants in simulation:\n" + sim.violation[:3000])
    behs = hg.printed_json(sim, "PQ")
    chk.notes["simulated_interleavings"] = len(behs)
    out, seen = [], set()
    limit = 150 if quick else 3000
    # the dictionary source has many more initial configurations (which deltas have no effect): keep its share at a third
    quota = {"confd": limit // 3}
    spare = []
    for k, b in enumerate(behs):
        key = json.dumps([b["policy"], b["cap"], b["kinds"], b["fx"], b["sched"]])
        if key in seen or len(b["sched"]) < 6:
            continue
        seen.add(key)
        kinds = b["kinds"] if isinstance(b["kinds"], list) else [b["kinds"][str(i + 1)] for i in range(len(b["kinds"]))]
        # confd: which messages of a producer are deltas without effect (pattern of 0/1 per message)
        fxs = b["fx"] if isinstance(b["fx"], list) else [b["fx"][str(i + 1)] for i in range(len(b["fx"]))]
        fxs = ["".join(str(x) for x in (f if isinstance(f, list) else [f[str(i + 1)] for i in range(len(f))])) for f in fxs]
        s = Scn("%sreplay%d" % (pid.lower(), k),
                {"seed": 1, "end_us": 30000000, "slice_us": 50000, "jitter": 0, "start_us": 0, "watchdog_ms": 12000, "mode": "replay"},
                srcs=[{"policy": b["policy"], "cap": b["cap"], "stopafter": 0}],
                prods=[{"pid": i + 1, "src": 0, "kind": kd, "n": b["msgs"], "gap_us": 0, "retries": 0, "fx": fxs[i]} for i, kd in enumerate(kinds)],
                stopper=0, sched=[(th, g) for th, g in b["sched"]])
        s.predicted = {"accepted": [(v // 10) * 1000 + (v % 10) - 1 for v in b["accepted"]],
                       "delivered": [[(v // 10) * 1000 + (v % 10) - 1 for v in d["vals"]] for d in b["delivered"]]}
        if b["policy"] in quota and quota[b["policy"]] <= 0:
            spare.append(s)
            continue
        if b["policy"] in quota:
            quota[b["policy"]] -= 1
        out.append(s)
        if len(out) >= limit:
            break
    return out + spare[:limit - len(out)]


def replay_drift(scn, tr):
    """level B prediction of a replayed interleaving: the admission order and the deliveries. None = as predicted."""
    if any(e["e"] == "sched" and e["diverged"] for e in tr):
        return None   # counted separately
    nofx = {e["v"] for e in tr if e["e"] == "call" and e.get("fx", 1) == 0}     # accepted, but nothing to deliver
    acc = [e["v"] for e in tr if e["e"] == "h" and e["p"] in ("pq_accepted", "cf_accepted") and e["v"] not in nofx]
    dlv = [e["vals"] for e in tr if e["e"] == "dlv"]
    if acc != scn.predicted["accepted"] or dlv != scn.predicted["delivered"]:
        return "admission order %s / deliveries %s, PushQueue.tla predicted %s / %s" % (acc, dlv, scn.predicted["accepted"], scn.predicted["delivered"])
    return None


# ------------------------------------------------------------------------------------------ RealTime behaviours -> timer scenarios
UNIT = 300   # microseconds per model time unit


def model_scenarios(chk, quick, Scn):
    nsim = 40 if quick else 800       # per TLC simulation worker (8 workers)
    parts = []
    for cfg in ("RealTime.sim.cfg", "RealTime.simnostop.cfg"):     # with a stopper thread / run to the end time
        sim = hg.tlc("MCRealTime", cfg, workers=8, simulate="num=%d" % nsim, depth=120, timeout=900 if not quick else 120,
                     extra=["-seed", str(hg.seed())])
        if sim.violation:
            raise hg.MachineryError("RealTime.tla violates its invariants in simulation:\n" + sim.violation[:3000])
        parts.append(hg.printed_json(sim, "RT"))
    n = min(len(parts[0]), len(parts[1]))
    behs = [x for pair in zip(parts[0], parts[1]) for x in pair] + parts[0][n:] + parts[1][n:]
    chk.notes["simulated_realtime_behaviours"] = len(behs)
    out, seen = [], set()
    limit = 100 if quick else 2500
    for k, b in enumerate(behs):
        key = json.dumps(b["script"])
        if key in seen:
            continue
        seen.add(key)
        init = b["script"][0]
        wall0 = init["t"]
        pend = set(init["s"])
        if not pend:
            continue
        acts = [["abs.%d" % (t * UNIT) for t in sorted(pend)]]
        lag, pushes, stop_at, predict, exact = 0, 0, None, [], True
        for e in b["script"][1:]:
            if e["k"] == "tick":
                if e["d"] >= 2:
                    lag += e["d"]
            elif e["k"] == "push":
                pushes += 1
            elif e["k"] == "stop":
                stop_at = e["t"]
                exact = False
            elif e["k"] == "cycle" and e["t"] in pend:
                pend.discard(e["t"])
                predict.append(e["t"] * UNIT)
                ops = []
                if lag:
                    ops.append("lag.%d" % (lag * UNIT))
                    lag = 0
                if e["req"] == "rel":
                    ops.append("rel.%d" % (e["d"] * UNIT))
                    pend.add(e["t"] + e["d"])
                elif e["req"] == "wall":
                    ops.append("wall.%d" % (e["d"] * UNIT if e["d"] > 0 else -40))
                    exact = False
                acts.append(ops)
        if b["cut"]:
            exact = False      # the model's drain bound is 2, the code's 1024
        s = Scn("c17model%d" % k,
                {"seed": 1 + k, "end_us": b["end"] * UNIT, "slice_us": 2 * UNIT, "jitter": 0, "start_us": -wall0 * UNIT, "watchdog_ms": 10000},
                srcs=[{"policy": "queue", "cap": 0, "stopafter": 0}] if pushes else [],
                prods=[{"pid": 1, "src": 0, "kind": "try", "n": pushes, "gap_us": UNIT, "retries": 0}] if pushes else [],
                timers=[{"tid": 0, "acts": acts}],
                stopper=None if stop_at is None else max(0, (stop_at - wall0)) * UNIT)
        # level B prediction: with logical requests only the timer is evaluated at exactly these times (the wall clock does not matter)
        s.predicted = predict + sorted(t * UNIT for t in pend if t < b["end"]) if exact else None
        out.append(s)
        if len(out) >= limit:
            break
    return out


def model_drift(scn, tr):
    if getattr(scn, "predicted", None) is None:
        return None
    got = [e["t"] for e in tr if e["e"] == "tev"]
    if got != scn.predicted:
        return "timer evaluated at %s, RealTime.tla predicted %s" % (got, scn.predicted)
    return None
