"""TLC side of check_rt.py (stub, filled in below)."""
RULE = {"C16": "", "C17": ""}
ASSUMPTIONS = {"C16": [], "C17": []}
def model_check(pid, chk, quick):
    pass
def replay_scenarios(pid, chk, quick, Scn):
    return []
