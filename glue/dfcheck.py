"""spec -> code conformance for the Dataflow specification: TLC computes what each program must produce,
the native driver runs the program (in one or more presentations) on the compiled working tree, and the two
are compared node stream by node stream."""
import json
import os

import hg
import programs as P


def predict(progs, tag="df", workers=None, timeout=1800):
    """Run spec/Dataflow.tla over the given programs; returns ({id: prediction}, TlcResult)."""
    d = hg.outdir("_work")
    path = os.path.join(d, "progs-%s-%d.json" % (tag, os.getpid()))
    with open(path, "w") as f:
        json.dump(P.to_json_programs(progs), f)
    res = hg.tlc("MCDataflowFile", "DataflowFile.cfg", env={"PROGS_FILE": path}, workers=workers, timeout=timeout,
                 metatag="df-" + tag)
    os.unlink(path)
    if res.violation:
        raise hg.MachineryError("Dataflow.tla violates its own invariants (spec defect):\n" + res.violation)
    preds = {p["id"]: p for p in hg.printed_json(res, "PRED")}
    missing = [p["id"] for p in progs if p["id"] not in preds]
    if missing:
        raise hg.MachineryError("TLC printed no prediction for programs %s" % missing[:5])
    return preds, res


def compare(prog, pred, events):
    """Returns None when the real run matches the prediction, else a description of the first difference.
    Compared: for every node the sequence of (time, value) it wrote (recorders: received); the run must return
    normally; predicted cycle times must all occur (extra real cycles are judged by the EngineTrace spec)."""
    if isinstance(events, dict) and events.get("crash"):
        return "driver crashed or hung (rc=%s) %s" % (events.get("rc"), events.get("stderr", "")[-300:])
    for e in events:
        if e["e"] in ("wirefail", "harnessfail"):
            return "%s: %s" % (e["e"], e.get("msg"))
    writes, cycles, errs, ret = P.observed(events)
    pw, pc, pe = P.predicted(pred)
    if ret is None or ret.get("ok") != 1:
        return "run did not return normally: %s" % (ret,)
    for i in sorted(set(pw) | set(writes)):
        if i <= len(prog["nodes"]) and prog["nodes"][i - 1]["kind"] in ("fb", "ite", "elem0", "elem1", "lradd", "lrmin", "lrmax", "fdiv"):
            continue  # feedback sources / reference selectors are library nodes: observed through their readers
        a, b = pw.get(i, []), writes.get(i, [])
        if a != b:
            kind = prog["nodes"][i - 1]["kind"] if i <= len(prog["nodes"]) else "?"
            return "node %d (%s): specified stream %s, observed %s" % (i, kind, a, b)
    # captured errors: exactly one error tick per exception, in its cycle, carrying its message
    if pe or errs:
        capt = {}
        for eid, ths in prog.get("capt", []):
            for i in ths:
                capt[i] = eid
        want = sorted((t, capt.get(i, -1), "floordiv_: division by zero" if prog["nodes"][i - 1]["kind"] == "fdiv" else "neg %d" % v)
                      for t, i, v in pe if i in capt)
        got = sorted(errs)
        if want != got:
            return "error ticks: specified %s, observed %s" % (want, got)
    missing = [t for t in pc if t not in cycles]
    if missing:
        return "no engine cycle at requested time(s) %s (cycles %s)" % (missing, cycles)
    if cycles != sorted(set(cycles)):
        return "cycle times not strictly increasing: %s" % cycles
    return None
