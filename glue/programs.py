"""Programs over the node vocabulary: generation, JSON for TLC (spec/Dataflow.tla), scenario text for the
native driver (harness/engine), and presentation variants (statement order, inlined / nested sub-graphs).

A program is flat: nodes 1..N in a topological order of the non-feedback edges.  How the same program is
*presented* to the real code - which statements go first, which sub-range is wrapped into a sub-graph that is
inlined or compiled as a nested child graph - must not change what it computes (C06, C09).
"""
import itertools
import random


def node(kind, ins=(), k=0, cnt=0, script=(), bind=0, init=-1, cap=0):
    return {"kind": kind, "k": k, "cnt": cnt, "ins": list(ins), "script": [list(x) for x in script], "bind": bind,
            "init": init, "cap": cap}


def program(pid, nodes, start=1, end=8):
    return {"id": pid, "start": start, "end": end, "nodes": nodes}


SOURCE_KINDS = ("src", "timer", "fb")
UNARY = ("pass", "add", "acc", "count", "delay", "echo")
BINARY = ("sum2", "sumu", "sample", "sample2", "sampleu", "lsum", "lsumv", "tog")
# sample2 / sampleu: sum2 / sumu whose second input is used passively (passive(port) at the call site)
PASSIVE_USAGE = {"sample2": "sum2", "sampleu": "sumu", "psum2a": "sum2"}   # psum2a: the FIRST input is the passive one
TERNARY = ("sum3",)
QUAD = ("ltog",)          # two list inputs of two elements each; makes the second one passive / active at run time


# --------------------------------------------------------------------------------------------- rendering
_packs_done = set()   # pack statements already emitted in the graph being rendered
_pack_base = [900]    # statement ids of pack statements are unique per graph (node ids are global in a scenario)


def _stmt(i, n, ref):
    """scenario statement for node i (1-based id) with input refs already rendered."""
    kv = []
    if n["kind"] == "src":
        kv.append("script=" + ";".join("%d:%d" % (t, v) for t, v in n["script"]))
        if n.get("mode"):
            kv.append("mode=" + n["mode"])
    elif n["kind"] == "add":
        kv.append("k=%d" % n["k"])
    elif n["kind"] in ("delay", "echo", "tdelay", "techo"):
        kv.append("d=%d" % n["k"])
    elif n["kind"] == "timer":
        kv.append("p=%d cnt=%d" % (n["k"], n["cnt"]))
    elif n["kind"] == "fb":
        if n["init"] != -1:
            kv.append("init=%d" % n["init"])
    if n["kind"] in ("elem0", "elem1"):
        # an element of a two-element list output produced by ONE node (pack2): two statements
        pk = _pack_base[0] + n["pack"]
        pre = "" if pk in _packs_done else "n %d pack2 in=%s,%s\n" % (pk, ref(n["ins"][0]), ref(n["ins"][1]))
        _packs_done.add(pk)
        return pre + "n %d elem in=%d i=%d" % (i, pk, 0 if n["kind"] == "elem0" else 1)
    if n["kind"] in ("lradd", "lrmin", "lrmax"):
        kv.append("comb=" + n["kind"][2:])
    s = "n %d %s" % (i, "lred" if n["kind"] in ("lradd", "lrmin", "lrmax") else PASSIVE_USAGE.get(n["kind"], n["kind"]))
    if kv:
        s += " " + " ".join(kv)
    if n["ins"]:
        refs = [ref(j) for j in n["ins"]]
        if n["kind"] == "psum2a":
            refs[0] = "p:" + refs[0]
        elif n["kind"] in PASSIVE_USAGE:
            refs[1] = "p:" + refs[1]
        s += " in=" + ",".join(refs)
    return s


def admissible_orders(prog, limit=None, rng=None):
    """Statement orders that respect port availability (every statement after the producers of its ports;
    a feedback bind after both the feedback and the bound producer). Yields lists of node ids."""
    nodes = prog["nodes"]
    n = len(nodes)
    deps = {i: set(nodes[i - 1]["ins"]) for i in range(1, n + 1)}
    if limit is None:
        def rec(done, order):
            if len(order) == n:
                yield list(order)
                return
            for i in range(1, n + 1):
                if i not in done and deps[i] <= done:
                    order.append(i)
                    done.add(i)
                    yield from rec(done, order)
                    done.discard(i)
                    order.pop()
        yield from rec(set(), [])
    else:
        seen = set()
        for _ in range(limit * 4):
            done, order = set(), []
            while len(order) < n:
                ready = [i for i in range(1, n + 1) if i not in done and deps[i] <= done]
                i = rng.choice(ready)
                order.append(i)
                done.add(i)
            if tuple(order) not in seen:
                seen.add(tuple(order))
                yield order
            if len(seen) >= limit:
                return


def candidate_groups(prog, max_size=3, max_ext=2):
    """Sub-sets of nodes that can be wrapped into a sub-graph: <= 2 distinct outside producers, exactly one node
    referenced from outside (the output), no feedback node and no feedback-bound producer inside, contiguous
    closure (a node between two members on a path must be a member)."""
    nodes = prog["nodes"]
    n = len(nodes)
    bound = {x["bind"] for x in nodes if x["kind"] == "fb"}
    out = []
    ids = [i for i in range(1, n + 1) if nodes[i - 1]["kind"] != "fb"]
    for size in range(1, max_size + 1):
        for S in itertools.combinations(ids, size):
            S = set(S)
            ext_in = []
            for i in sorted(S):
                for j in nodes[i - 1]["ins"]:
                    if j not in S and j not in ext_in:
                        ext_in.append(j)
            if len(ext_in) > max_ext:
                continue
            used_outside = {j for i in range(1, n + 1) if i not in S for j in nodes[i - 1]["ins"] if j in S}
            used_outside |= (bound & S)
            if len(used_outside) != 1:
                continue
            # closure: no outside node lies on a path between members (would create a cycle through the sub-graph)
            ok = True
            for o in range(1, n + 1):
                if o in S:
                    continue
                reads_S = _reaches(nodes, o, S)
                feeds_S = any(_reaches(nodes, i, {o}) for i in S)
                if reads_S and feeds_S:
                    ok = False
                    break
            if not ok:
                continue
            if bound & S and list(used_outside)[0] not in bound:
                continue
            out.append((sorted(S), ext_in, list(used_outside)[0]))
    return out


def _reaches(nodes, i, targets):
    """does node i (transitively, through ins) read from any node in targets"""
    stack, seen = list(nodes[i - 1]["ins"]), set()
    while stack:
        j = stack.pop()
        if j in targets:
            return True
        if j in seen:
            continue
        seen.add(j)
        stack.extend(nodes[j - 1]["ins"])
    return False


def render(prog, order=None, group=None, mode="nested", depth=1, name=None, capture=(), outer=()):
    """Scenario text for the engine driver.
    order : statement order of the root graph (list of node ids); default 1..N
    group : (members, ext_in, out) from candidate_groups, wrapped into sub-graph g0 and wired `mode`
            ('nested' | 'inline'); depth=2 wraps g0 into a second pass-through level g1.
    outer : the outside producers (subset of ext_in) that the sub-graph body references directly as captured outer
            ports ("o:<id>") instead of receiving them as declared boundary inputs.
    """
    nodes = prog["nodes"]
    n = len(nodes)
    order = list(order or range(1, n + 1))
    lines = ["scn %s" % (name or ("p%s" % prog["id"])), "opt start=%d end=%d" % (prog["start"], prog["end"])]
    gid = n + 1  # id of the statement standing for the group
    if group:
        members, all_in, outn = group
        ext_in = [j for j in all_in if j not in outer]           # declared boundary inputs
        argref = {j: "a%d" % k for k, j in enumerate(ext_in)}
        argref.update({j: "o:%d" % j for j in all_in if j in outer})
        lines.append("graph g0 nin=%d" % len(ext_in))
        _packs_done.clear()
        _pack_base[0] = 950
        for i in [x for x in order if x in members]:
            lines.append(_stmt(i, nodes[i - 1], lambda j: argref[j] if j in argref else str(j)))
            if i in capture:
                lines.append("n %d errof in=%d" % (1000 + i, i))
        lines.append("out %d" % outn)
        lines.append("endgraph")
        top = 0
        if depth == 2:
            lines.append("graph g1 nin=%d" % len(ext_in))
            lines.append("n %d %s g=0%s" % (gid + 1, mode, (" in=" + ",".join("a%d" % k for k in range(len(ext_in)))) if ext_in else ""))
            lines.append("out %d" % (gid + 1))
            lines.append("endgraph")
            top = 1
    lines.append("graph root")
    _packs_done.clear()
    _pack_base[0] = 900
    binds = []
    emitted_group = False
    mset = set(group[0]) if group else set()

    def rootref(j):
        return str(gid) if j in mset else str(j)

    # statement order of the root graph: the quotient of `order` by the group, re-sorted so every statement
    # still follows the producers of its ports (the group counts as one statement)
    items = [i for i in order if i not in mset]
    prio = {i: order.index(i) for i in items}
    deps = {i: {("G" if j in mset else j) for j in nodes[i - 1]["ins"]} for i in items}
    if group:
        items.append("G")
        prio["G"] = min(order.index(i) for i in mset)
        deps["G"] = set(group[1])
    placed = []
    while len(placed) < len(items):
        ready = [x for x in items if x not in placed and deps[x] <= set(placed)]
        x = min(ready, key=lambda y: prio[y])
        placed.append(x)
        if x == "G":
            ins = ",".join(rootref(j) for j in group[1] if j not in outer)
            lines.append("n %d %s g=%d%s" % (gid, mode, top, (" in=" + ins) if ins else ""))
        else:
            lines.append(_stmt(x, nodes[x - 1], rootref))
            if x in capture:
                lines.append("n %d errof in=%d" % (1000 + x, x))
    for i in range(1, n + 1):
        if nodes[i - 1]["kind"] == "fb" and nodes[i - 1]["bind"]:
            lines.append("bind %d %s" % (i, rootref(nodes[i - 1]["bind"])))
    for a, b in prog.get("rankdeps", []):       # explicit rank dependencies (flat presentations only)
        lines.append("rankdep %d %d" % (a, b))
    lines.append("endgraph")
    lines.append("run")
    return "\n".join(lines)


# --------------------------------------------------------------------------------------------- generation
def gen_script(rng, horizon, maxlen=4, values=(1, 2, 3, 5, 7)):
    times = sorted(rng.sample(range(1, horizon + 1), rng.randint(1, min(maxlen, horizon))))
    return [[t, rng.choice(values)] for t in times]


def random_program(rng, pid, max_nodes=6, horizon=7, kinds=None, allow_fb=True, start=None):
    """Random DAG over the vocabulary: 1-2 sources, compute nodes, 1-2 recorders; optionally one feedback loop."""
    kinds = kinds or (UNARY + BINARY + TERNARY + TERNARY + QUAD + QUAD)
    nodes = []
    nsrc = rng.randint(1, 2)
    for _ in range(nsrc):
        if rng.random() < 0.8:
            nodes.append(node("src", script=gen_script(rng, horizon)))
            if rng.random() < 0.4:
                nodes[-1]["mode"] = "all"
        else:
            nodes.append(node("timer", k=rng.randint(1, 3), cnt=rng.randint(1, 4)))
    fb_at = None
    if allow_fb and rng.random() < 0.3:
        nodes.append(node("fb", init=rng.choice([-1, 0, 4])))
        fb_at = len(nodes)
    ncomp = rng.randint(1, max(1, max_nodes - len(nodes) - 1))
    for _ in range(ncomp):
        kind = rng.choice(kinds)
        avail = list(range(1, len(nodes) + 1))
        if kind in QUAD:
            nodes.append(node(kind, ins=[rng.choice(avail) for _ in range(4)]))
        elif kind in TERNARY:
            a, b = rng.choice(avail), rng.choice(avail)
            c = rng.choice([a, b, rng.choice(avail)])      # often a repeated port: one producer feeding two inputs
            ins = [a, b, c]
            rng.shuffle(ins)
            nodes.append(node(kind, ins=ins))
        elif kind in BINARY:
            a, b = rng.choice(avail), rng.choice(avail)
            nodes.append(node(kind, ins=[a, b]))
        else:
            nodes.append(node(kind, ins=[rng.choice(avail)], k=rng.randint(1, 3)))
    if fb_at:
        # bind the feedback to a compute node that (preferably) depends on it through a bounded path:
        # avoid unbounded loops by requiring a 'sample'/'delay'-free loop only when the reader is passive
        cands = [i for i in range(fb_at + 1, len(nodes) + 1) if nodes[i - 1]["kind"] not in ("rec",)]
        if cands:
            b = rng.choice(cands)
            if _reaches(nodes, b, {fb_at}) and not _loop_is_safe(nodes, b, fb_at):
                # a live loop: would re-tick forever inside the window; still fine (bounded by end) but noisy -
                # keep only short windows
                pass
            nodes[fb_at - 1]["bind"] = b
    # recorders on 1-2 outputs (prefer the last nodes)
    outs = [i for i in range(1, len(nodes) + 1)]
    for j in sorted(set([len(nodes)] + [rng.choice(outs)])):
        nodes.append(node("rec", ins=[j]))
    st = start if start is not None else rng.choice([1, 1, 1, 2])
    return program(pid, nodes, start=st, end=horizon + 1)


def _loop_is_safe(nodes, b, fb):
    return False


def to_json_programs(progs):
    """strip presentation-only fields for TLC"""
    out = []
    for p in progs:
        q = {"id": p["id"], "start": p["start"], "end": p["end"], "nodes": [], "capt": [list(x) for x in p.get("capt", [])],
             "rankdeps": [list(x) for x in p.get("rankdeps", [])]}
        for n in p["nodes"]:
            q["nodes"].append({k: n[k] for k in ("kind", "k", "cnt", "ins", "script", "bind", "init", "cap")})
        out.append(q)
    return out


# --------------------------------------------------------------------------------------------- trace -> observables
def observed(events):
    """Per-node write streams, recorder streams, root cycle times, errors from a driver trace."""
    writes, cycles, errs = {}, [], []
    ret = None
    for e in events:
        k = e["e"]
        if k == "fn" and e.get("w") == 1:
            writes.setdefault(e["id"], []).append((e["t"], e["out"]))
        elif k == "rec":
            writes.setdefault(e["id"], []).append((e["t"], e["v"]))
        elif k == "cycle" and e["g"] == 0:
            cycles.append(e["t"])
        elif k == "err":
            errs.append((e["t"], e["id"], e["msg"]))
        elif k == "ret":
            ret = e
    return writes, cycles, errs, ret


def predicted(pred):
    writes = {}
    for t, i, v in pred["writes"]:
        writes.setdefault(i, []).append((t, v))
    return writes, list(pred["cycles"]), [tuple(x) for x in pred["errs"]]
