"""C01 (structural half): the rank pass of Wiring::finish, bound to spec/WiringRank.tla.

Programs are sequences of node INSTANCES in insertion order whose inputs may name any instance (a later one or the
instance itself is wired through a delayed binding), explicit rank dependencies, and at most one feedback (source
instance + sink instance).  Each program is wired through the real API by the engine driver; what Wiring::finish did
(refused, or the final node order of the GraphBuilder) is handed to TLC together with the program (WiringTrace.tla):
level A decides (refused iff the dependency relation has a cycle; every instance ranked once, after its producers),
level B (Kahn, FIFO, insertion-order tie-break) predicts the exact order - a difference that A accepts is DRIFT.
MCWiringRank.tla checks B => A on every program of the bounded family, and four named slips must be noticed."""
import json
import os

import hg

FAULTS = [("nodeps", "BuiltIsTopological"), ("dedup", "BuiltIsAcyclic"), ("weaklen", "BuiltIsAcyclic"), ("lifo", "SourcesFirstInOrder")]


def models_start(quick):
    specs = [("MCWiringRank", "WiringRank.%s.cfg" % f, inv, "WiringRank fault " + f) for f, inv in FAULTS]
    specs.append(("MCWiringRank", "WiringRank.deps.cfg", None, "WiringRank N=3 deps<=2"))
    if not quick:
        specs.append(("MCWiringRank", "WiringRank.thorough.cfg", None, "WiringRank N=4 deps<=1"))
    return hg.models_start(specs, workers=2 if quick else 4)


def random_program(rng, pid):
    n = rng.randint(3, 7)
    kinds = []
    fb = None
    if rng.random() < 0.35 and n >= 4:
        a = rng.randint(1, n - 1)
        b = rng.randint(a + 1, n)
        fb = (a, b)
    for i in range(1, n + 1):
        if fb and i == fb[0]:
            kinds.append("fbsrc")
        elif fb and i == fb[1]:
            kinds.append("fbsink")
        elif i == 1 or rng.random() < 0.15:
            kinds.append("src")
        else:
            kinds.append(rng.choice(["add", "add", "sum2", "sum2", "rec"]))
    ports = [i for i in range(1, n + 1) if kinds[i - 1] not in ("rec", "fbsink")]

    def pick(i):
        lower = [j for j in ports if j < i]
        if lower and rng.random() < 0.8:
            return rng.choice(lower)
        return rng.choice(ports)

    ins = []
    for i in range(1, n + 1):
        k = kinds[i - 1]
        if k in ("src", "fbsrc"):
            ins.append([])
        elif k in ("add", "rec"):
            ins.append([pick(i)])
        elif k == "sum2":
            ins.append([pick(i), pick(i)])
        else:   # the feedback's sink reads the bound value and the feedback's own source
            ins.append([rng.choice([j for j in ports if j != fb[0]] or ports), fb[0]])
    deps = []
    for _ in range(rng.choice([0, 0, 1, 1, 2])):
        c, q = rng.choice(ports), rng.choice(ports)
        if c != q and [c, q] not in deps and kinds[c - 1] != "fbsrc":
            if q > c and rng.random() < 0.6:
                c, q = q, c
            if kinds[c - 1] != "fbsrc":
                deps.append([c, q])
    return {"id": pid, "kinds": kinds, "ins": ins, "deps": deps}


def enumerate_small(limit, rng):
    """Every program of three instances over {src, add, sum2} (instance 1 may also read anything), a sample of them."""
    out = []
    choices = [[]] + [[a] for a in (1, 2, 3)] + [[a, b] for a in (1, 2, 3) for b in (1, 2, 3)]
    for c1 in choices:
        for c2 in choices:
            for c3 in choices:
                out.append([c1, c2, c3])
    rng.shuffle(out)
    progs = []
    for k, ins in enumerate(out[:limit]):
        kinds = ["src" if not i else "add" if len(i) == 1 else "sum2" for i in ins]
        progs.append({"id": 800000 + k, "kinds": kinds, "ins": ins, "deps": []})
    return progs


def render(p, rng):
    n = len(p["kinds"])
    lines = ["scn wr%d" % p["id"], "opt start=1 end=3", "graph root"]
    ph = [100]
    pending = {}       # target instance -> placeholders to bind once it exists
    emitted = set()
    deps_left = [list(d) for d in p["deps"]]

    def flush(i):
        for q in pending.pop(i, []):
            lines.append("bind %d %d" % (q, i))
        for d in list(deps_left):
            if d[0] in emitted and d[1] in emitted:
                lines.append("rankdep %d %d" % (d[0], d[1]))
                deps_left.remove(d)

    for i in range(1, n + 1):
        k = p["kinds"][i - 1]
        refs = []
        if k != "fbsink":
            for pos, j in enumerate(p["ins"][i - 1]):
                if j < i:
                    passive = k == "sum2" and pos == 1 and rng.random() < 0.3
                    refs.append(("p:%d" if passive else "%d") % j)
                else:
                    ph[0] += 1
                    lines.append("n %d dly" % ph[0])
                    pending.setdefault(j, []).append(ph[0])
                    refs.append(str(ph[0]))
        if k == "src":
            lines.append("n %d src script=1:%d;2:%d" % (i, i, i + 1))
        elif k == "fbsrc":
            lines.append("n %d fb init=0" % i)
        elif k == "add":
            lines.append("n %d add k=%d in=%s" % (i, i, refs[0]))
        elif k == "rec":
            lines.append("n %d rec in=%s" % (i, refs[0]))
        elif k == "sum2":
            lines.append("n %d sum2 in=%s" % (i, ",".join(refs)))
        elif k == "fbsink":
            tgt, src = p["ins"][i - 1]
            if tgt < i:
                lines.append("bind %d %d" % (src, tgt))
            else:       # the bound value is produced later: through a delayed binding
                ph[0] += 1
                lines.append("n %d dly" % ph[0])
                pending.setdefault(tgt, []).append(ph[0])
                lines.append("bind %d %d" % (src, ph[0]))
        emitted.add(i)
        flush(i)
    lines += ["endgraph", "run"]
    return "\n".join(lines)


def observed_build(p, events):
    """(refused, order of instance ids, message) or None when the dump cannot be read."""
    for e in events:
        if e["e"] == "wirefail":
            return 1, [], e.get("msg", "")
    order = []
    fbsrc = p["kinds"].index("fbsrc") + 1 if "fbsrc" in p["kinds"] else None
    fbsink = p["kinds"].index("fbsink") + 1 if "fbsink" in p["kinds"] else None
    for e in events:
        if e["e"] == "gnode":
            if e["id"] > 0:
                order.append(e["id"])
            elif e["name"] == "feedback_source" and fbsrc:
                order.append(fbsrc)
            elif e["name"] == "feedback_sink" and fbsink:
                order.append(fbsink)
            else:
                order.append(0)
    return 0, order, ""


def run(chk, rng):
    quick = chk.tier == "quick"
    handle = models_start(quick)
    progs = [random_program(rng, 700000 + k) for k in range(1200 if quick else 12000)]
    progs += enumerate_small(400 if quick else 9261, rng)
    scns = [render(p, rng) for p in progs]
    traces = hg.run_driver("engine", scns)
    items = []
    for p, scn, tr in zip(progs, scns, traces):
        chk.count({"ins": p["ins"], "deps": p["deps"], "kinds": p["kinds"]})
        if isinstance(tr, dict):
            chk.violation("wiring:crash", "driver crashed / hung while wiring or running: %s" % json.dumps(tr)[:300], scn)
            continue
        bad = [e for e in tr if e["e"] == "harnessfail"]
        if bad:
            chk.violation("wiring:harness", "scenario could not be interpreted: %s" % bad[:1], scn)
            continue
        refused, order, msg = observed_build(p, tr)
        if refused and "cycle" not in msg:
            chk.violation("wiring:refused-otherwise", "Wiring::finish refused the program for another reason: %s" % msg[:200], scn)
            continue
        if not refused and not any(e["e"] == "ret" and e.get("ok") == 1 for e in tr):
            chk.violation("wiring:run", "the built graph did not run to its end", scn)
            continue
        items.append({"id": p["id"], "prog": {"ins": p["ins"], "deps": p["deps"]}, "refused": refused, "order": order})
    d = hg.outdir("_work")
    path = os.path.join(d, "wiring-%d.json" % os.getpid())
    verdicts = {}
    nshards = 8
    shards = [items[k::nshards] for k in range(nshards)]
    from concurrent.futures import ThreadPoolExecutor

    def one(k):
        if not shards[k]:
            return None
        pk = "%s.%d" % (path, k)
        with open(pk, "w") as f:
            json.dump(shards[k], f)
        res = hg.tlc("WiringTrace", "WiringTrace.cfg", env={"WIRING_FILE": pk}, workers=1, timeout=1800, metatag="wiring%d" % k)
        os.unlink(pk)
        return res

    with ThreadPoolExecutor(max_workers=nshards) as ex:
        results = list(ex.map(one, range(nshards)))
    for res in results:
        if res is None:
            continue
        if res.violation:
            raise hg.MachineryError("WiringTrace.tla failed:\n" + res.violation)
        chk.coverage["states"] += res.states
        chk.coverage["transitions"] += res.transitions
        for v in hg.printed_json(res, "WVERDICT"):
            verdicts[v["id"]] = v
    by_id = {p["id"]: (p, s) for p, s in zip(progs, scns)}
    drift = refused_n = 0
    for it in items:
        v = verdicts.get(it["id"])
        if v is None:
            raise hg.MachineryError("TLC printed no verdict for wiring program %s" % it["id"])
        chk.coverage["traces_validated_against_impl"] += 1
        refused_n += it["refused"]
        if v["why"]:
            p, scn = by_id[it["id"]]
            chk.violation("wiring:" + v["why"], "%s: program ins=%s deps=%s kinds=%s; Wiring::finish %s; specified rank %s"
                          % (v["why"], p["ins"], p["deps"], p["kinds"], "refused it" if it["refused"] else "built order %s" % it["order"], v["rank"]),
                          "# %s\n%s\n" % (v["why"], scn))
        elif v["drift"]:
            drift += 1
            if drift <= 3:
                print("DRIFT C01 wiring: built order %s, WiringRank.tla (Kahn FIFO, insertion-order tie-break) predicts %s for ins=%s deps=%s"
                      % (it["order"], v["rank"], it["prog"]["ins"], it["prog"]["deps"]))
    hg.models_finish(chk, handle)
    chk.notes["wiring_rank"] = {"programs": len(progs), "judged": len(items), "refused_as_cyclic": refused_n, "drift": drift}
