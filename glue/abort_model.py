"""AbortScan.tla (level B of a nested child's evaluation scan that can be cut short by a captured exception or a pause)
bound to the compiled tree: TLC model-checks it (six named faults - four of them are genuine defects the tree once had -
must be rejected), its simulated behaviours are replayed as scripted scheduler users (`schedo`, kind of the engine
driver) chained inside a try_except sub-graph, and the activation times / error ticks of the real run are compared with
the behaviour.  The model is deterministic once the environment's choices (outer ticks, what each activation asks for,
which activations throw) are fixed, and those choices are exactly what the script replays - so a difference means that a
wake-up or tick inside the wrapped sub-graph was lost / invented (C02, C03) or that error ticks differ (C15)."""
import json

import hg

FAULTS = [("resumeafterfail", "EnterIsRight"), ("restartonresume", "OncePerCycle"), ("nosettle", "NodeArmed"),
          ("notail", "NodeArmed"), ("noskipadvance", "NodeArmed"), ("nopull", "ParentCovers")]
MAXT = 6


def models_start(quick):
    specs = [("MCAbortScan", "AbortScan.%s.cfg" % f, inv, "AbortScan fault " + f) for f, inv in FAULTS]
    specs.append(("MCAbortScan", "AbortScan.quick.cfg", None, "AbortScan fan, throwers {1,2}, pauser 2, horizon 4"))
    if not quick:
        specs.append(("MCAbortScan", "AbortScan.chain.cfg", None, "AbortScan chain, thrower 2, pausers {1,3}"))
    return hg.models_start(specs, workers=2)


def scenario(name, hist, how="tryexc"):
    acts = {1: ["-"], 2: ["-"], 3: ["-"]}
    ticks = []
    want_act, want_err = [], []
    for cyc in hist:
        if cyc["tick"]:
            ticks.append(cyc["t"])
        for a in cyc["acts"]:
            ops = ["sch.%d." % d for d in sorted(a["req"])]
            if a["out"] == "throw":
                ops.append("throw")
                want_err.append(cyc["t"])
            acts[a["n"]].append("+".join(ops) if ops else "-")
            want_act.append((a["n"], cyc["t"]))
    lines = ["scn " + name, "opt start=1 end=%d" % (MAXT + 1), "graph g0 nin=1",
             "n 11 schedo in=a0 acts=%s" % "/".join(acts[1]), "n 12 schedo in=11 acts=%s" % "/".join(acts[2]),
             "n 13 schedo in=11 acts=%s" % "/".join(acts[3]), "out 13", "endgraph", "graph root"]
    if how == "tryexc":
        lines += ["n 1 src script=%s" % (";".join("%d:%d" % (t, t) for t in ticks) or "99:1"), "n 2 tryexc g=0 in=1"]
    else:
        # the same sub-graph as the child of ONE key of a map_ with per-key error capture: the key appears in the start
        # cycle (the child is created and started there), the outer ticks are updates of its element
        lines += ["n 1 dsrc script=%s" % ";".join("%d:1=%d" % (t, t) for t in sorted(set([1] + ticks))), "n 3 map g=0 key=0 err=1 in=1", "n 4 drec in=3"]
    lines += ["endgraph", "run"]
    return "\n".join(lines), want_act, want_err


def run(chk, rng, own=("C02.", "C03.", "C15."), nsim=None, models=True):
    quick = chk.tier == "quick"
    handle = models_start(quick) if models else None
    nsim = nsim or (250 if quick else 4000)
    sim = hg.tlc("MCAbortScan", "AbortScan.sim.cfg", workers=4, simulate="num=%d" % nsim, depth=150, timeout=900,
                 extra=["-seed", str(hg.seed() + 17)], metatag="abortsim")
    if sim.violation:
        raise hg.MachineryError("AbortScan.tla violates its invariants in simulation:\n" + sim.violation)
    behs = hg.printed_json(sim, "ABORT")
    cases = [scenario("abort%d" % k, h) for k, h in enumerate(behs)]
    cases += [scenario("abortmap%d" % k, h, how="map") for k, h in enumerate(behs) if k % 2 == 0]
    traces = hg.run_driver("engine", [c[0] for c in cases])
    nthrow = 0
    for (scn, want_act, want_err), tr in zip(cases, traces):
        chk.count({"scn": scn})
        if isinstance(tr, dict):
            chk.violation("abortscan:crash", "driver crashed / hung: %s" % json.dumps(tr)[:300], scn)
            continue
        bad = [e for e in tr if e["e"] in ("wirefail", "harnessfail")]
        if bad or not any(e["e"] == "ret" and e.get("ok") == 1 for e in tr):
            chk.violation("abortscan:run", "try_except scenario did not run to its end: %s" % (bad or [e for e in tr if e["e"] == "ret"]), scn)
            continue
        got_act = [(e["id"] - 10, e["t"]) for e in tr if e["e"] == "sact" and e["k"] >= 1]
        got_err = [e["t"] for e in tr if e["e"] in ("err", "kerr")]
        nthrow += len(want_err)
        chk.coverage["traces_validated_against_impl"] += 1
        why = None
        if got_act != want_act:
            missing = [a for a in want_act if a not in got_act]
            extra = [a for a in got_act if a not in want_act]
            if missing:
                why = ("C02.wakeup_or_tick_inside_a_wrapped_subgraph_not_delivered", "node %d is not evaluated at %d" % missing[0])
            elif extra:
                why = ("C03.node_of_a_wrapped_subgraph_evaluated_without_cause", "node %d evaluated at %d although nothing it asked for or reads is due" % extra[0])
            else:
                why = ("C03.node_of_a_wrapped_subgraph_evaluated_without_cause", "activations in another order: %s" % got_act)
        elif got_err != want_err:
            why = ("C15.error_ticks_of_a_wrapped_subgraph_differ", "error ticks at %s, thrown at %s" % (got_err, want_err))
        if why and why[0].startswith(tuple(own)):
            chk.violation("abortscan:" + why[0], "%s: %s; behaviour of AbortScan.tla: activations %s, errors at %s; observed activations %s, errors at %s"
                          % (why[0], why[1], want_act, want_err, got_act, got_err), "# %s\n%s\n" % (why[0], scn))
    if handle:
        hg.models_finish(chk, handle)
    chk.add_tlc(sim, "AbortScan simulation")
    chk.notes["abort_scan"] = {"behaviours_replayed": len(cases), "exceptions_thrown": nthrow}
