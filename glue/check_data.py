#!/usr/bin/env python3
"""C04 / C05 / C20: the time-series data layer.

  spec/Delta.tla              level A: canonical value / delta algebra of the shapes (Apply, Capture, coherence)
  spec/Collections.tla        level B: implementation-shaped model of the keyed slot store / fixed structures / tick window
                              (live and removed-pending-erase slots, added / removed / modified bitsets with cancellation, lazy
                              delta-window roll, monotone record_modified with parent propagation); TLC chooses shape and mutation
                              script, checks A's coherence conditions as invariants and predicts what every reader must see
  spec/CollTrace.tla          level A trace spec for C04 + C05 (needs only the op script the writer logged)
  spec/RecordReplayTrace.tla  level A trace spec for C20 (differential: original vs replay, apply / re-capture round trip)
  harness/coll/*              native driver hgv_coll: writer -> probes (every cycle, one starting late), dense_record, shadow
                              (capture -> apply to scratch -> re-capture); graph 2 replays graph 1's recording

usage: check_data.py C04|C05|C20 [--tier quick|thorough] [--replay path]
"""
import argparse
import json
import os
import random
import re
import sys

sys.path.insert(0, os.path.dirname(os.path.abspath(__file__)))
import hg
import tracecheck

TS = {"k": "TS"}
SHAPES = {
    "TS": TS,
    "TSS": {"k": "TSS"},
    "TSW": {"k": "TSW", "n": 3, "min": 2},
    "TSL": {"k": "TSL", "n": 3, "el": TS},
    "TSB": {"k": "TSB", "fs": [TS, TS]},
    "TSD": {"k": "TSD", "el": TS},
    "TSD_TSS": {"k": "TSD", "el": {"k": "TSS"}},
    "TSB_TSL": {"k": "TSB", "fs": [TS, {"k": "TSL", "n": 2, "el": TS}]},
    "TSD_TSB": {"k": "TSD", "el": {"k": "TSB", "fs": [TS, TS]}},
    "TSD_TSD": {"k": "TSD", "el": {"k": "TSD", "el": TS}},
    "UTSB": {"k": "TSB", "fs": [TS, TS]},       # un-peered bundle INPUT assembled from two scalar writers (activity toggled at run time)
    "DTSL": {"k": "TSL", "n": 8, "dyn": 1, "el": TS},      # dynamic (unsized) TSL<TS<Int>>, indices 0..7
}
KEEP_COLL = {"ops", "w", "p", "k", "ret"}
KEEP_RR = {"p", "ap", "rec", "ret", "norec"}
OWN = {"C04": ("C04.",), "C05": ("C05.",), "C20": ("C20.",)}


# ------------------------------------------------------------------------------------------------ scenarios
def op(verb, path=(), args=()):
    return {"op": verb, "p": list(path), "a": list(args)}


def op_text(o):
    return "%s:%s:%s" % (o["op"], ",".join(str(x) for x in o["p"]), ",".join(str(x) for x in o["a"]))


def scenario(name, shape, cycles, end, late=2, rr=True, activity=None):
    """cycles: {t: [ops]} (an empty list = the writer is evaluated and does nothing)"""
    lines = ["scn " + name, "shape " + shape, "opt end=%d late=%d rr=%d" % (end, late, 1 if rr else 0)]
    for t in sorted(cycles):
        lines.append(("c %d " % t + " ".join(op_text(o) for o in cycles[t])).rstrip())
    for t in sorted(activity or {}):      # run-time make_active / make_passive of child links of the un-peered probe inputs
        lines.append("a %d " % t + " ".join(op_text(o) for o in activity[t]))
    lines.append("run")
    return "\n".join(lines)


def random_op(rng, shape, nkeys, nvals, allow_inv, live=(), extras=True):
    """allow_inv: also invalidate - scalars, and composite positions (root TSB / fixed TSL, the nested list of TSB{a,l}, a TSB
    child of a TSD whose key is in `live`)"""
    k = lambda: rng.randint(1, nkeys)
    v = lambda: rng.randint(0, nvals)
    r = rng.random()
    if shape == "TS":
        return op("inv") if allow_inv and r < 0.15 else op("set", (), (v(),))
    if shape == "TSS":
        if r < 0.5:
            return op("add", (), (k(),))
        if r < 0.9:
            return op("rem", (), (k(),))
        return op("clr") if r < 0.97 else op("touch")
    if shape == "TSW":
        return op("push", (), (v(),))
    if shape in ("TSL", "TSB"):
        n = 3 if shape == "TSL" else 2
        i = rng.randrange(n)
        if allow_inv and r < 0.07:
            return op("inv")                      # the whole bundle / list
        return op("inv", (i,)) if allow_inv and r < 0.16 else op("set", (i,), (v(),))
    if shape in ("TSD", "TSD_TSS", "TSD_TSB") and 0.88 < r < 0.93 and extras:
        return op("new", (), (k(),)) if r < 0.91 else op("touch")      # a key without a value / a tick that changes nothing
    if shape == "TSD":
        if r < 0.55:
            return op("set", (k(),), (v(),))
        return op("del", (), (k(),)) if r < 0.95 else op("clr")
    if shape == "TSD_TSS":
        if r < 0.4:
            return op("add", (k(),), (v(),))
        if r < 0.6:
            return op("rem", (k(),), (v(),))
        return op("del", (), (k(),)) if r < 0.95 else op("clr")
    if shape == "TSD_TSD":
        if r < 0.5:
            return op("set", (k(), k()), (v(),))
        if r < 0.75:
            return op("del", (k(),), (k(),))           # erase an inner key
        if r < 0.8:
            return op("clr", (k(),))                    # clear an inner dictionary
        return op("del", (), (k(),)) if r < 0.96 else op("clr")
    if shape == "TSB_TSL":
        if allow_inv and r < 0.2:
            return [op("inv"), op("inv", (1,)), op("inv", (1,)), op("inv", (1, rng.randrange(2))), op("inv", (0,))][int(r * 25)]
        return op("set", (0,), (v(),)) if r < 0.5 else op("set", (1, rng.randrange(2)), (v(),))
    if shape == "TSD_TSB":
        if allow_inv and live and r < 0.13:
            return op("inv", (rng.choice(sorted(live)),))      # the bundle of an existing key
        if r < 0.6:
            return op("set", (k(), rng.randrange(2)), (v(),))
        return op("del", (), (k(),)) if r < 0.95 else op("clr")
    raise ValueError(shape)


def random_script(rng, shape, horizon, nkeys, nvals, maxops, allow_inv):
    cycles = {}
    live = set()      # dictionary keys created so far (an invalidation must not create its key)
    for t in range(1, horizon + 1):
        r = rng.random()
        if r < 0.22:
            continue                      # the writer is not evaluated at all
        if r < 0.30:
            cycles[t] = []                # evaluated, nothing written
            continue
        if shape == "DTSL":
            cycles[t] = dynamic_list_ops(rng, nvals, allow_inv, cycles)
            continue
        n = 1 if shape == "TSW" else rng.randint(1, maxops)
        ops = []
        for _ in range(n):
            o = random_op(rng, shape, nkeys, nvals, allow_inv, live)
            if ops and o["op"] != "inv" and rng.random() < 0.35 and shape not in ("TSW", "TS"):
                # aim at the element touched last (cancellations, repeated writes of one key)
                prev = ops[-1]
                tgt = prev["p"][0] if prev["p"] else (prev["a"][0] if prev["a"] else None)
                if tgt is not None and shape in ("TSS", "TSD", "TSD_TSS", "TSD_TSB", "TSD_TSD"):
                    if o["p"]:
                        o["p"][0] = tgt
                    elif o["a"]:
                        o["a"][0] = tgt
            ops.append(o)
            if shape.startswith("TSD"):
                if o["p"] and o["op"] != "inv":
                    live.add(o["p"][0])
                elif o["op"] == "del":
                    live.discard(o["a"][0])
                elif o["op"] == "clr" and not o["p"]:
                    live.clear()
        cycles[t] = ops
    return cycles


def dynamic_list_ops(rng, nvals, allow_inv, earlier):
    """one cycle of a dynamic list: 1..5 DISTINCT children tick (the per-cycle ring of modified children must hold all of them),
    in any order, sometimes one of them twice; optionally an invalidation of an existing child / of the list"""
    size = 1 + max([o["p"][0] for ops in earlier.values() for o in ops if o["p"]] + [-1])
    k = rng.choice([1, 1, 2, 2, 3, 3, 3, 4, 4, 5])
    idx = rng.sample(range(8 if rng.random() < 0.3 else 6), k)
    ops = [op("set", (i,), (rng.randint(0, nvals),)) for i in idx]
    if rng.random() < 0.3:
        ops.insert(rng.randrange(len(ops) + 1), op("set", (rng.choice(idx),), (rng.randint(0, nvals),)))
    if allow_inv and size > 0 and rng.random() < 0.3:
        ops.insert(rng.randrange(len(ops) + 1), op("inv") if rng.random() < 0.3 else op("inv", (rng.randrange(size),)))
    return ops


def has_write_erase_write(cycles):
    """the op pattern of finding F2: inside one cycle a dictionary key is written, erased and written again"""
    for t, ops in cycles.items():
        state = {}
        for o in ops:
            if o["p"] and o["op"] in ("set", "add", "rem"):
                k = o["p"][0]
                if state.get(k) == "we":
                    return True
                state[k] = "w"
            elif o["op"] == "del" and not o["p"]:
                k = o["a"][0]
                if state.get(k) == "w":
                    state[k] = "we"
            elif o["op"] == "clr" and not o["p"]:
                for k in list(state):
                    if state[k] == "w":
                        state[k] = "we"
    return False


class Case:
    def __init__(self, name, shape, cycles, end, late, rr, origin, predicted=None, activity=None):
        self.name, self.shape, self.cycles, self.end, self.late, self.rr, self.origin = name, shape, cycles, end, late, rr, origin
        self.predicted = predicted
        self.scn = scenario(name, shape, cycles, end, late, rr, activity)
        self.events = None
        self.has_inv = any(o["op"] == "inv" for ops in cycles.values() for o in ops)
        self.f2 = has_write_erase_write(cycles)


def unpeered_cases(rng, n):
    """an un-peered bundle INPUT (assembled from two scalar outputs) read by probes that activate / passivate the child links at
    run time while being woken by their own scheduler: the parent's flags must follow the children whatever the links' activity"""
    cases = []
    for i in range(n):
        horizon = rng.randint(4, 8)
        cyc, act = {}, {}
        for t in range(1, horizon + 1):
            ops = [op("set", (c,), (rng.randint(0, 3),)) for c in (0, 1) if rng.random() < 0.45]
            if ops:
                cyc[t] = ops
            tog = [op("act" if rng.random() < 0.55 else "pas", (), (c,)) for c in (0, 1) if rng.random() < 0.3]
            if tog:
                act[t] = tog
        cases.append(Case("unp%d" % i, "UTSB", cyc, horizon, rng.randint(1, 3), False, "random-unpeered", activity=act))
    return cases


def invalidation_cases(rng, n):
    """scripts that invalidate composite positions: root TSB / fixed TSL, the list inside TSB{a,l}, a TSB child of a TSD"""
    cases = []
    shapes = ["TSB", "TSL", "TSB_TSL", "TSD_TSB", "DTSL"]
    for i in range(n):
        shape = shapes[i % 5]
        horizon = rng.randint(3, 6)
        cyc = random_script(rng, shape, horizon, 2, 3, 4, True)
        cases.append(Case("inv%d" % i, shape, cyc, horizon, rng.randint(1, 3), False, "random-invalidation"))
    return [c for c in cases if c.has_inv]


def random_cases(rng, n, tier):
    cases = []
    shapes = [x for x in SHAPES if x != "UTSB"]
    for i in range(n):
        shape = shapes[i % len(shapes)]
        big = tier == "thorough" and i % 3 == 0
        horizon = rng.randint(8, 30) if big else rng.randint(2, 6)
        nkeys = rng.randint(6, 20) if big else rng.randint(1, 3)
        allow_inv = shape in ("TS", "TSL", "TSB", "TSB_TSL", "TSD_TSB", "DTSL") and (i // len(shapes)) % 2 == 0
        cyc = random_script(rng, shape, horizon, nkeys, 3, 5 if big else 4, allow_inv)
        cases.append(Case("rnd%d" % i, shape, cyc, horizon, rng.randint(1, min(horizon, 4)), not allow_inv, "random"))
    return cases


# ------------------------------------------------------------------------------------------------ level B
def model_check(chk, quick):
    """Collections.tla: (a) exhaustive check of the implementation-shaped model against A's coherence conditions on the bounded
    instance (every mutation script of the configured size, five shapes); (b) the smallest instance with every behaviour printed;
    (c) the as-is resurrection branch (FixF2 = FALSE), where TLC must find the design-level counterexample of finding F2;
    (d) random simulation of a larger instance.  The four TLC runs are independent and run side by side."""
    from concurrent.futures import ThreadPoolExecutor
    nsim = 60 if quick else 3000
    jobs = {
        "exhaustive": lambda: hg.tlc("MCCollections", "Collections.quick.cfg" if quick else "Collections.thorough.cfg", workers=max(2, hg.NCPU - 7),
                                     timeout=3600, metatag="coll-a"),
        # the dynamic list with its ring of modified children: up to 4 distinct children per cycle, behaviours printed
        "dynlist": lambda: hg.tlc("MCCollections", "Collections.dyn.cfg", workers=2, timeout=1200, metatag="coll-e"),
        "behaviours": lambda: hg.tlc("MCCollections", "Collections.emit.cfg", workers=2, timeout=1200, metatag="coll-b"),
        "asis": lambda: hg.tlc("MCCollections", "Collections.asis.cfg", workers=1, timeout=1200, metatag="coll-c"),
        "simulation": lambda: hg.tlc("MCCollections", "Collections.sim.cfg", workers=2, simulate="num=%d" % nsim, depth=400, timeout=900,
                                     extra=["-seed", str(hg.seed())], metatag="coll-d"),
    }
    if not quick:
        jobs["dynlist-thorough"] = lambda: hg.tlc("MCCollections", "Collections.dynthorough.cfg", workers=4, timeout=3600, metatag="coll-f")
    with ThreadPoolExecutor(max_workers=6) as ex:
        futs = {k: ex.submit(f) for k, f in jobs.items()}
        res = {k: f.result() for k, f in futs.items()}
    for k in [j for j in ("exhaustive", "behaviours", "simulation", "dynlist", "dynlist-thorough") if j in res]:
        if res[k].violation:
            raise hg.MachineryError("Collections.tla violates its invariants (%s; spec defect):\n%s" % (k, res[k].violation))
        chk.add_tlc(res[k], "Collections-" + k)
    chk.coverage["exhaustive"] = True
    v = res["asis"].violation
    chk.notes["design_counterexample_F2"] = ("found: the pre-fix resurrection branch (FixF2 = FALSE; /repo 4212fba repaired it) violates ValueIsPrevPlusDelta"
                                             if v and "ValueIsPrevPlusDelta" in v else
                                             "NOT found - Collections.tla with FixF2 = FALSE no longer shows the F2 counterexample (vacuity: check the model)")
    return hg.printed_json(res["behaviours"], "COLL"), hg.printed_json(res["simulation"], "COLL"), hg.printed_json(res["dynlist"], "COLL")


def behaviour_case(k, b, origin):
    """a finished behaviour of Collections.tla -> scenario + the observations the model predicts"""
    cycles = {}
    for c in b["script"]:
        cycles[c["t"]] = [op(o["op"], o["p"], o["a"]) for o in c["ops"]]
    return Case("%s%d" % (origin, k), b["shape"], cycles, b["end"], b.get("late", 2), True, origin, predicted=b.get("obs"))


def drift_against_model(case):
    """level B prediction (root flags, keys / value, delta parts per cycle) against the real probe; '' = agree"""
    if not case.predicted or isinstance(case.events, dict):
        return ""
    real = {e["t"]: e["o"] for e in case.events if e["e"] == "p" and e.get("id") == 1 and e.get("g") == 1}
    for p in case.predicted:
        o = real.get(p["t"])
        if o is None:
            return "cycle %d: no probe observation" % p["t"]
        for f in ("m", "ok", "lmt", "v", "a", "r", "ks", "mk", "mi"):
            if f in ("m", "lmt") and (p.get("iv") == 1 or (f == "lmt" and p.get("ok") == 0)):
                continue      # the consumer's flags in an invalidation cycle / its time stamp while invalid are not constrained
            if f in p and f in o and p[f] != o[f]:
                return "cycle %d: model predicts %s=%s, real %s" % (p["t"], f, p[f], o[f])
        if "cv" in p and "ch" in o:      # child values / flags
            got = [[c[0], c[1].get("v"), c[1].get("m")] for c in o["ch"]] if o["k"] == "TSD" else [[c.get("v"), c.get("m"), c.get("ok")] for c in o["ch"]]
            if got != p["cv"]:
                return "cycle %d: model predicts children %s, real %s" % (p["t"], p["cv"], got)
    return ""


# ------------------------------------------------------------------------------------------------ verdicts
F1 = "F1-input-delta_value-readable-without-a-tick"
F2 = "F2-tsd-key-written-erased-written-in-one-cycle-missing-from-delta"
F3 = "F3-tick-with-empty-delta-is-not-replayed"


def classify(clause, case):
    """canonical case key of a rejected clause: a known deviation class or the clause itself"""
    if clause.startswith("C04.delta_readable_after_its_cycle@consumer.") and not clause.endswith("capture_delta"):
        return F1
    if clause.startswith("C04.consumer_disagrees_with_producer@delta."):
        return F1
    if "empty_delta" in clause:
        return F3 if clause.startswith("C20.") else clause
    if case.f2 and case.shape.startswith("TSD") and (
            clause.startswith(("C05.value_is_not_previous_plus_delta@", "C05.delta_is_not_the_net_effect_of_the_mutations@",
                               "C04.modified_items_disagree_with_child_flags@", "C20.replayed_value_differs", "C20.replayed_delta_differs",
                               "C20.apply_of_captured_delta_is_not_post_state", "C20.recapture_differs",
                               "C20.captured_delta_applied_to_pre_tick_state_is_not_post_tick_state", "C20.replayed_cycle_differs"))):
        return F2
    if "empty_delta" in clause:
        return F3 if clause.startswith("C20.") else clause
    return clause


WHAT = {
    F1: "TSInputView::delta_value() returns the current value of a position that did not tick in this cycle (a child whose last "
        "write is older than the latest tick of the bound output, or an invalidated scalar): a delta is readable outside the cycle "
        "that produced it and the consumer disagrees with the producer's delta_value()",
    F2: "TSD: a key written, erased and written again within one cycle ends up with the new value but is missing from "
        "modified_keys()/delta_value()/capture_delta (the child's record_modified coalesces, so the slot's modified bit cleared by "
        "the erase is never set again): value != previous value + delta, and record/replay loses the update",
    F3: "a tick whose delta is empty on an already valid TSS/TSD (e.g. add+remove of a new element in one cycle) is recorded by "
        "dense_record but apply_delta treats it as having no effect: the replayed stream has no tick in that cycle",
}


def judge(pid, chk, cases, verdicts, spec):
    own = OWN[pid]
    other, classes = {}, {}
    for k, c in enumerate(cases):
        if k not in verdicts:
            continue
        acc, why = verdicts[k]
        if not why:
            continue
        for clause in why.split(";"):
            if clause.startswith(own):
                key = classify(clause, c)
                classes.setdefault(key, []).append((len(c.scn), k, clause, acc))
            else:
                other[clause.split("@")[0]] = other.get(clause.split("@")[0], 0) + 1
    for key, hits in sorted(classes.items()):
        hits.sort()
        _, k, clause, acc = hits[0]
        c = cases[k]
        desc = "%s rejects the recorded trace (first at event %d): %s\n%s\n%d scenario(s) of this run show it; smallest:\n%s" % (
            spec, acc + 1, clause, WHAT.get(key, ""), len(set(h[1] for h in hits)), c.scn)
        chk.violation(key, desc, "# %s\n# %s\n%s\n" % (c.name, clause, c.scn))
        chk.notes.setdefault("rejected_classes", {})[key] = {"scenarios": len(set(h[1] for h in hits)),
                                                              "clauses": sorted(set(h[2] for h in hits))[:12]}
    if other:
        chk.notes.setdefault("rejections_belonging_to_other_properties", {}).update(other)
        for w, n in sorted(other.items()):
            print("NOTE: %d clause hit(s) of %s (decided by that property's own check)" % (n, w))


def graph1(events):
    """graph 1 of a scenario for CollTrace; the probe on the dictionary's key set (id 5) becomes a `k` event"""
    out = []
    for e in events:
        if e.get("g", 1) != 1 or e["e"] not in KEEP_COLL:
            continue
        out.append(dict(e, e="k") if e["e"] == "p" and e.get("id") == 5 else e)
    return out


def rr_events(events):
    return [e for e in events if e["e"] in KEEP_RR and not (e["e"] == "p" and e.get("id") in (2, 5))]


def replay(path):
    scn = "\n".join(l for l in open(path).read().splitlines() if not l.startswith("#"))
    tr = hg.run_driver("coll", [scn])[0]
    print(json.dumps(tr) if isinstance(tr, dict) else "\n".join(json.dumps(e) for e in tr))
    if isinstance(tr, dict):
        return 0
    shape = [l.split()[1] for l in scn.splitlines() if l.startswith("shape")][0]
    for spec, ev in (("CollTrace", graph1(tr)), ("RecordReplayTrace", rr_events(tr))):
        v, _, _ = tracecheck.validate(spec, spec + ".cfg", [{"id": 0, "prog": {"shape": SHAPES[shape]}, "ev": ev}], "replay", keep=KEEP_COLL | KEEP_RR)
        print("%s: %s" % (spec, v[0][1].replace(";", "\n    ") or "accepted"))
    return 0


def main():
    ap = argparse.ArgumentParser()
    ap.add_argument("pid", choices=sorted(OWN))
    ap.add_argument("--tier", default=None)
    ap.add_argument("--replay", default=None)
    a = ap.parse_args()
    if a.tier:
        os.environ["VERIF_TIER"] = a.tier
    hg.build(("coll",))
    if a.replay:
        return replay(a.replay)
    pid = a.pid
    chk = hg.Check(pid)
    quick = chk.tier == "quick"
    rng = random.Random(hg.seed() * 977 + int(pid[1:]))
    # 1. level B against level A's coherence conditions, exhaustively; its behaviours become scenarios
    behs, sims, dyns = model_check(chk, quick)
    chk.notes["model_behaviours"] = {"exhaustive_instance": len(behs), "simulated": len(sims), "dynamic_list_instance": len(dyns)}
    if quick:      # deterministic samples; thorough runs all of the small instance and all simulated behaviours
        behs = [behs[i] for i in sorted(rng.sample(range(len(behs)), min(len(behs), 250)))]
        sims = [sims[i] for i in sorted(rng.sample(range(len(sims)), min(len(sims), 60)))]
        dyns = [dyns[i] for i in sorted(rng.sample(range(len(dyns)), min(len(dyns), 50)))]
    cases = ([behaviour_case(k, b, "mc") for k, b in enumerate(behs)] + [behaviour_case(k, b, "sim") for k, b in enumerate(sims)]
             + [behaviour_case(k, b, "dyn") for k, b in enumerate(dyns)])
    chk.notes["model_behaviours"]["executed"] = len(cases)
    # 2. op-dense random scripts over the whole shape menu (nested shapes, invalidations, slot growth / reuse in thorough)
    cases += random_cases(rng, 250 if quick else 6000, chk.tier)
    cases += invalidation_cases(rng, 60 if quick else 1500)
    cases += unpeered_cases(rng, 40 if quick else 1000)
    if pid == "C20":
        cases = [c for c in cases if c.rr and not c.has_inv]
    traces = hg.run_driver("coll", [c.scn for c in cases])
    live = []
    for c, tr in zip(cases, traces):
        c.events = tr
        chk.count({"scn": c.scn}, nontrivial=any(c.cycles.values()))
        if isinstance(tr, dict):
            chk.violation("crash:" + c.shape, "driver crashed or hung: %s\n%s" % (json.dumps(tr)[:400], c.scn), "# %s\n%s\n" % (c.name, c.scn))
        elif any(e["e"] == "harnessfail" for e in tr):
            chk.violation("harness:" + c.shape, "driver could not run the scenario: %s\n%s" % (
                [e for e in tr if e["e"] == "harnessfail"][0]["msg"], c.scn), "# %s\n%s\n" % (c.name, c.scn))
        else:
            live.append(c)
    # 3. trace validation against level A
    if pid in ("C04", "C05"):
        spec, items = "CollTrace", [{"id": k, "prog": {"shape": SHAPES[c.shape]}, "ev": graph1(c.events)} for k, c in enumerate(live)]
    else:
        spec, items = "RecordReplayTrace", [{"id": k, "prog": {"shape": SHAPES[c.shape]}, "ev": rr_events(c.events)} for k, c in enumerate(live)]
    verdicts, st, trn = tracecheck.validate(spec, spec + ".cfg", items, pid.lower(), keep=KEEP_COLL | KEEP_RR)
    chk.coverage["states"] += st
    chk.coverage["transitions"] += trn
    chk.coverage["traces_validated_against_impl"] += len(items)
    judge(pid, chk, live, verdicts, spec + ".tla")
    # 4. level B's predictions against the real run (DRIFT, never a violation)
    drift = [(c, d) for c in live for d in [drift_against_model(c)] if d]
    chk.notes["drift_vs_level_B"] = len(drift)
    if drift:
        print("DRIFT: %d run(s) differ from what Collections.tla predicts (decided by level A above); e.g. %s: %s" % (
            len(drift), drift[0][0].name, drift[0][1]))
        chk.notes["drift_example"] = {"scenario": drift[0][0].scn.splitlines(), "difference": drift[0][1]}
    for c in (live[0], live[len(live) // 2], live[-1]) if live else ():
        chk.sample({"scenario": c.scn.splitlines(), "origin": c.origin})
    by_shape = {}
    for c in live:
        by_shape[c.shape] = by_shape.get(c.shape, 0) + 1
    chk.notes["scenarios_by_shape"] = by_shape
    chk.coverage["rule"] = ("Collections.tla exhaustively (shape x mutation script chosen by TLC) against the coherence conditions of Delta.tla; "
                            "every finished behaviour and op-dense random scripts over %d shapes run in the writer node of hgv_coll; each trace "
                            "(producer view + two passive probes woken every cycle, one starting late%s) validated by %s.tla; "
                            "non-trivial = the script contains at least one operation; distinct = distinct scenario text") % (
        len(SHAPES), "; recording replayed in a second graph; apply/re-capture on a scratch copy" if pid == "C20" else "", spec)
    return chk.finish()


if __name__ == "__main__":
    hg.main_wrapper(main)
