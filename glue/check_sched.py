#!/usr/bin/env python3
"""C18: node scheduler.  NodeSched.tla (level B: scheduler + graph slot + post-evaluation re-arm) is model-checked
exhaustively against the level-A invariants; its simulated behaviours are replayed into a scripted scheduler node
on the compiled tree; every recorded trace is validated by SchedTrace.tla (level A) with TLC."""
import argparse
import json
import os
import random
import sys

sys.path.insert(0, os.path.dirname(os.path.abspath(__file__)))
import hg
import tracecheck

KEEP = {"sact", "sop", "ret"}


def acts_text(hist):
    out = []
    for h in hist:
        ops = []
        for o in h["ops"]:
            if o["op"] == "sch":
                ops.append("sch.%d.%s" % (o["dt"], o["tag"]))
            elif o["op"] in ("uns", "pop"):
                ops.append("%s.0.%s" % (o["op"], o["tag"]))
            elif o["op"] == "throw":
                ops.append("throw")
            else:
                ops.append(o["op"])
        out.append("+".join(ops) if ops else "-")
    return "/".join(out)


def scenario(name, behs, end, nested=False, capture=False):
    """behs: list of behaviours (each its own source + sched node) in one graph; capture: the scheduler user has an output
    and its errors are captured per node (its script may throw after the operations of an activation)"""
    lines = ["scn " + name, "opt start=1 end=%d" % end]
    root = []
    nid = 1
    sub = []
    for k, b in enumerate(behs):
        script = ";".join("%d:%d" % (t, 1) for t in sorted(b["inputs"])) or "99:1"
        root.append("n %d src script=%s" % (nid, script))
        if nested and k == 0:
            sub = ["graph g0 nin=1", "n %d sched in=a0 acts=%s" % (nid + 1, acts_text(b["hist"])), "n %d pass in=a0" % (nid + 2),
                   "out %d" % (nid + 2), "endgraph"]
            root.append("n %d nested g=0 in=%d" % (nid + 3, nid))
            b["_id"] = nid + 1
            nid += 4
        elif capture:
            root.append("n %d schedo in=%d acts=%s" % (nid + 1, nid, acts_text(b["hist"])))
            root.append("n %d errof in=%d" % (nid + 2, nid + 1))
            b["_id"] = nid + 1
            nid += 3
        else:
            root.append("n %d sched in=%d acts=%s" % (nid + 1, nid, acts_text(b["hist"])))
            b["_id"] = nid + 1
            nid += 2
    return "\n".join(lines + sub + ["graph root"] + root + ["endgraph", "run"])


def random_behaviour(rng, maxt, throws=False):
    """op-dense scripts (predicted activations unknown: validated by SchedTrace only); throws: some evaluations end with an
    exception after their operations (captured per node) - the scheduler must be left exactly as after a normal return"""
    inputs = sorted(rng.sample(range(1, maxt + 1), rng.randint(0, 3)))
    hist = []
    for k in range(maxt + 2):
        ops = []
        for _ in range(rng.choice([0, 1, 2, 3, 4])):
            r = rng.random()
            if r < 0.55:
                ops.append({"op": "sch", "dt": rng.choice([-1, 0, 1, 1, 2, 3, 4]), "tag": rng.choice(["", "", "a", "b"])})
            elif r < 0.7:
                ops.append({"op": "uns", "dt": 0, "tag": rng.choice(["a", "b"])})
            elif r < 0.8:
                ops.append({"op": "pop", "dt": 0, "tag": rng.choice(["a", "b"])})
            elif r < 0.93:
                ops.append({"op": "unse", "dt": 0, "tag": ""})
            else:
                ops.append({"op": "reset", "dt": 0, "tag": ""})
        if throws and k >= 1 and rng.random() < 0.3:
            ops.append({"op": "throw", "dt": 0, "tag": ""})
        hist.append({"t": None, "ops": ops, "cause": "?"})
    return {"inputs": inputs, "hist": hist}


def main():
    ap = argparse.ArgumentParser()
    ap.add_argument("pid")
    ap.add_argument("--tier", default=None)
    ap.add_argument("--replay", default=None)
    a = ap.parse_args()
    if a.tier:
        os.environ["VERIF_TIER"] = a.tier
    hg.build()
    if a.replay:
        scn = "\n".join(l for l in open(a.replay).read().splitlines() if not l.startswith("#"))
        tr = hg.run_driver("engine", [scn])[0]
        print("\n".join(json.dumps(e) for e in tr) if not isinstance(tr, dict) else json.dumps(tr))
        return 0
    chk = hg.Check("C18")
    rng = random.Random(hg.seed() * 131 + 18)
    quick = chk.tier == "quick"
    # 1. exhaustive model check of the level-B model against the level-A invariants
    res = hg.tlc("MCNodeSched", "NodeSched.quick.cfg" if quick else "NodeSched.thorough.cfg", timeout=3600, coverage=False)
    if res.violation:
        raise hg.MachineryError("NodeSched.tla violates its invariants (spec defect):\n" + res.violation)
    chk.add_tlc(res, "NodeSched-exhaustive")
    chk.coverage["exhaustive"] = True
    # 2. behaviours of the model (simulation) -> scenarios with predicted activation times
    nsim = 60 if quick else 1500
    sim = hg.tlc("MCNodeSched", "NodeSched.sim.cfg", workers=8, simulate="num=%d" % nsim, depth=80, timeout=600,
                 extra=["-seed", str(hg.seed())])
    if sim.violation:
        raise hg.MachineryError("NodeSched.tla violates its invariants in simulation:\n" + sim.violation)
    behs = hg.printed_json(sim, "SCHED")
    chk.notes["simulated_behaviours"] = len(behs)
    cases = []
    for k, b in enumerate(behs):
        mode = k % 3
        if mode == 0:
            cases.append(("sim%d" % k, [b], False))
        elif mode == 1:
            cases.append(("simN%d" % k, [b], True))
        else:
            cases.append(("sim2-%d" % k, [b, json.loads(json.dumps(behs[(k * 7 + 1) % len(behs)]))], False))
    for k in range(300 if quick else 6000):
        cases.append(("rnd%d" % k, [random_behaviour(rng, 6)], k % 4 == 3))
    ncap = 0
    for k in range(150 if quick else 3000):
        cases.append(("rndT%d" % k, [random_behaviour(rng, 6, throws=True)], False))
        ncap += 1
    scns = [scenario(name, bs, 7, nested, capture=name.startswith("rndT")) for name, bs, nested in cases]
    traces = hg.run_driver("engine", scns)
    items = []
    drift = 0
    for k, ((name, bs, nested), scn, tr) in enumerate(zip(cases, scns, traces)):
        chk.count({"scn": scn}, nontrivial=any(h["ops"] for b in bs for h in b["hist"]))
        if isinstance(tr, dict):
            chk.violation("crash:" + name.rstrip("0123456789"), "driver crashed/hung: %s" % json.dumps(tr)[:300], "# %s\n%s\n" % (name, scn))
            continue
        items.append({"id": k, "prog": {"start": 1, "end": 7}, "ev": tr})
        if name.startswith("rndT"):
            nthrow = sum(1 for e in tr if e["e"] == "sthrow")
            nerr = sum(1 for e in tr if e["e"] == "err")
            chk.notes["captured_throws"] = chk.notes.get("captured_throws", 0) + nthrow
            if nthrow != nerr or not any(e["e"] == "ret" and e.get("ok") == 1 for e in tr):
                chk.violation("sched:throw-not-captured", "scheduler user with per-node error capture: %d exception(s) thrown, %d error tick(s), run %s"
                              % (nthrow, nerr, [e for e in tr if e["e"] == "ret"]), "# %s\n%s\n" % (name, scn))
        # level B prediction: the activation times of the model
        for b in bs:
            if b["hist"][0]["t"] is None or nested:
                continue   # nested children get one extra sampled-initialisation activation (SchedTrace: named deviation)
            want = [h["t"] for h in b["hist"] if h["t"] < 7]
            got = [e["t"] for e in tr if e["e"] == "sact" and e["id"] == b["_id"]]
            if want != got:
                drift += 1
    verdicts, st, trn = tracecheck.validate("SchedTrace", "SchedTrace.cfg", items, "c18", keep=KEEP)
    chk.coverage["states"] += st
    chk.coverage["transitions"] += trn
    chk.coverage["traces_validated_against_impl"] += len(items)
    for it in items:
        k = it["id"]
        acc, why = verdicts[k]
        if why:
            name = cases[k][0]
            chk.violation("sched:%s:%s" % (why, name.rstrip("0123456789-")), "SchedTrace.tla rejects the trace at event %d: %s" % (acc + 1, why),
                          "# %s\n# %s\n%s\n" % (name, why, scns[k]))
    chk.notes["drift_vs_level_B_activation_times"] = drift
    if drift:
        print("DRIFT: %d run(s) activate the node at other times than NodeSched.tla predicts although SchedTrace (level A) accepts them" % drift)
    for k in (0, 1, len(cases) - 1):
        chk.sample({"scenario": scns[k].splitlines()})
    chk.coverage["rule"] = ("NodeSched.tla exhaustively over all operation sequences (<= %d ops per activation, horizon %d, tags a/b, <= 2 input ticks); "
                            "its simulated behaviours and op-dense random scripts run in a scripted scheduler node (alone, inside a nested child, "
                            "two per graph); non-trivial = the script issues at least one operation; distinct = distinct scenario text") % ((2, 5) if quick else (3, 6))
    return chk.finish()


if __name__ == "__main__":
    hg.main_wrapper(main)
