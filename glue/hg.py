"""Shared machinery of /verif checks: build, TLC runner, native driver runner, verdicts, evidence.

Everything here is standard library only.  Exit codes: 0 property held on everything explored,
1 a VIOLATION line was printed, 2 machinery failure (build error, TLC crash, malformed trace) -
a machinery failure never prints VIOLATION.
"""
import fcntl
import hashlib
import json
import os
import re
import shutil
import subprocess
import sys
import time
from concurrent.futures import ThreadPoolExecutor

VERIF = os.path.dirname(os.path.dirname(os.path.abspath(__file__)))
REPO = os.environ.get("HGV_REPO", "/repo")
BUILD = os.environ.get("HGV_BUILD", os.path.join(VERIF, "build"))   # override only for development in a scratch worktree
SPEC = os.path.join(VERIF, "spec")
# a development build (HGV_BUILD) keeps its scratch output and evidence to itself
OUT = os.path.join(BUILD, "out") if "HGV_BUILD" in os.environ else os.path.join(VERIF, "out")
EVID = os.path.join(BUILD, "evidence") if "HGV_BUILD" in os.environ else os.path.join(VERIF, "evidence")
NCPU = os.cpu_count() or 4
TLC_CP = "/opt/veriftools/tla/tla2tools.jar:/opt/veriftools/tla/CommunityModules-deps.jar"


class MachineryError(Exception):
    pass


def seed():
    try:
        return int(os.environ.get("VERIF_SEED", "1"))
    except ValueError:
        return 1


def tier(default="quick"):
    t = os.environ.get("VERIF_TIER", default)
    return t if t in ("quick", "thorough") else default


def outdir(pid):
    d = os.path.join(OUT, pid)
    os.makedirs(d, exist_ok=True)
    return d


# ------------------------------------------------------------------------------------------ build
def build(modes=("engine",), verbose=False):
    """(Re)build /repo's working tree and the named driver(s) build/hgv_<mode>. Serialised by a lock so checks may
    run concurrently; only the requested drivers are linked, so a driver under development cannot break other checks."""
    targets = [os.path.join(BUILD, "hgv_" + m) for m in modes]
    os.makedirs(BUILD, exist_ok=True)
    lock = open(os.path.join(BUILD, ".lock"), "w")
    fcntl.flock(lock, fcntl.LOCK_EX)
    try:
        t0 = time.time()
        for t in targets:   # a driver that is present but not executable is the debris of an interrupted link
            if os.path.exists(t) and not os.access(t, os.X_OK):
                os.unlink(t)
        cmd = ["make", "-C", os.path.join(VERIF, "harness"), "-j%d" % NCPU, "REPO=" + REPO] + list(targets)
        if "HGV_BUILD" in os.environ:
            cmd.append("B=" + BUILD)
        r = subprocess.run(cmd, capture_output=True, text=True)
        with open(os.path.join(BUILD, "make.log"), "w") as f:
            f.write(r.stdout + r.stderr)
        if r.returncode != 0:
            tail = "\n".join((r.stdout + r.stderr).splitlines()[-40:])
            raise MachineryError("build failed (see build/make.log):\n" + tail)
        return time.time() - t0
    finally:
        fcntl.flock(lock, fcntl.LOCK_UN)
        lock.close()


# ------------------------------------------------------------------------------------------ TLC
class TlcResult:
    def __init__(self):
        self.states = 0
        self.distinct = 0
        self.transitions = 0
        self.ok = False
        self.violation = None  # text of invariant/property violation, if any
        self.lines = []
        self.printed = []  # PrintT tuples (raw text)
        self.coverage = {}
        self.wall = 0.0
        self.cmd = ""


def tlc(module, cfg, env=None, workers=None, timeout=3600, simulate=None, depth=None, extra=(), metatag=None,
        coverage=False, deque=False):
    """Run TLC on spec/<module>.tla with spec/cfg/<cfg>. Returns TlcResult. Raises MachineryError on crashes."""
    meta = os.path.join(OUT, "tlcmeta", (metatag or module) + "-" + str(os.getpid()) + "-" + str(time.time_ns()))
    os.makedirs(meta, exist_ok=True)
    jopts = ["-XX:+UseParallelGC", "-Xmx6g", "-Xss32m"]
    if deque:
        jopts.append("-Dtlc2.tool.queue.IStateQueue=StateDeque")
    cmd = ["java"] + jopts + ["-cp", TLC_CP, "tlc2.TLC", "-workers", str(workers or NCPU), "-metadir", meta,
                               "-noGenerateSpecTE", "-config", os.path.join("cfg", cfg)]
    if coverage:
        cmd += ["-coverage", "1"]
    if simulate:
        cmd += ["-simulate", simulate]
    if depth:
        cmd += ["-depth", str(depth)]
    cmd += list(extra) + [module + ".tla"]
    e = dict(os.environ)
    e.update(env or {})
    t0 = time.time()
    res = TlcResult()
    res.cmd = " ".join(cmd)
    try:
        r = subprocess.run(cmd, cwd=SPEC, env=e, capture_output=True, text=True, timeout=timeout)
    except subprocess.TimeoutExpired as ex:
        shutil.rmtree(meta, ignore_errors=True)
        if simulate:  # simulation runs are bounded by the outer timeout by design
            out = (ex.stdout or b"").decode() if isinstance(ex.stdout, bytes) else (ex.stdout or "")
            res.lines = out.splitlines()
            _parse_tlc(res)
            res.ok = res.violation is None
            res.wall = time.time() - t0
            return res
        raise MachineryError("TLC timed out after %ds: %s" % (timeout, res.cmd))
    shutil.rmtree(meta, ignore_errors=True)
    res.wall = time.time() - t0
    res.lines = (r.stdout + "\n" + r.stderr).splitlines()
    _parse_tlc(res)
    if res.violation is None and not any("Model checking completed. No error has been found" in l or
                                         "Finished in" in l for l in res.lines):
        raise MachineryError("TLC did not complete:\n" + "\n".join(res.lines[-40:]))
    if res.violation is None and any(l.startswith("Error:") for l in res.lines):
        errs = [l for l in res.lines if l.startswith("Error:")]
        raise MachineryError("TLC error: " + "\n".join(errs[:5]) + "\n" + "\n".join(res.lines[-30:]))
    res.ok = res.violation is None
    return res


def expect_violation(module, cfg, invariant, **kw):
    """A named-fault configuration of a model: TLC must report `invariant` violated (the invariants have teeth).
    Returns the TlcResult; raises MachineryError when the fault goes unnoticed."""
    res = tlc(module, cfg, **kw)
    if res.violation is None or invariant not in res.violation:
        raise MachineryError("fault configuration %s of %s.tla does not violate %s:\n%s" % (cfg, module, invariant, res.violation or "no violation"))
    res.ok = True
    res.expected_violation = invariant
    return res


def models_start(specs, workers=2):
    """Run model configurations in the background while the drivers work.
    specs: [(module, cfg, expected violated invariant or None, label)] -> handle for models_finish"""
    from concurrent.futures import ThreadPoolExecutor
    ex = ThreadPoolExecutor(max_workers=max(1, len(specs)))
    futs = []
    for module, cfg, inv, label in specs:
        if inv:
            futs.append((module, label, inv, ex.submit(expect_violation, module, cfg, inv, timeout=1800, workers=workers)))
        else:
            futs.append((module, label, None, ex.submit(tlc, module, cfg, timeout=3000, workers=max(workers, 4))))
    return ex, futs


def models_finish(chk, handle):
    ex, futs = handle
    for module, label, inv, fut in futs:
        res = fut.result()
        if inv is None and res.violation:
            raise MachineryError("%s.tla violates its own invariants:\n%s" % (module, res.violation))
        chk.add_tlc(res, label)
    ex.shutdown()


def _parse_tlc(res):
    for i, l in enumerate(res.lines):
        m = re.match(r"(\d+) states generated, (\d+) distinct states found", l)
        if m:
            res.states = int(m.group(2))
            res.transitions = int(m.group(1))
        if l.startswith("<<"):
            res.printed.append(l)
        if re.match(r"Error: (Invariant|Action property|Temporal properties|Property|Deadlock|Assumption)", l) or \
                "is violated" in l and l.startswith("Error:"):
            if res.violation is None:
                res.violation = "\n".join(res.lines[i:i + 60])
        m = re.match(r"<(\w+) line \d+, col \d+ to line \d+, col \d+ of module (\w+)>: (\d+):(\d+)", l)
        if m:
            res.coverage[m.group(2) + "." + m.group(1)] = res.coverage.get(m.group(2) + "." + m.group(1), 0) + int(m.group(4))


def printed_json(res, tag):
    """Extract the JSON payloads of PrintT(<<tag, ToJson(x)>>) lines (deduplicated, order preserved)."""
    seen, out = set(), []
    pre = '<<"%s", "' % tag
    for l in res.printed:
        if l.startswith(pre) and l.endswith('">>'):
            body = l[len(pre):-3]
            if body in seen:
                continue
            seen.add(body)
            out.append(json.loads(body.encode().decode("unicode_escape") if "\\u" in body else body.replace('\\"', '"').replace("\\\\", "\\")))
    return out


# ------------------------------------------------------------------------------------------ driver
def run_driver(mode, scenarios, timeout_per=20.0, shards=None):
    """Run scenario texts through build/hgv_<mode>. Returns list (same order) of event-lists, or None for a
    scenario whose process crashed / hung (re-run alone to attribute the failure)."""
    exe = os.path.join(BUILD, "hgv_" + mode)
    if not os.path.exists(exe):
        raise MachineryError("driver missing: " + exe)
    n = len(scenarios)
    results = [None] * n
    shards = shards or min(NCPU, max(1, n // 8))
    idx = [list(range(k, n, shards)) for k in range(shards)]

    def run_batch(ids):
        if not ids:
            return
        text = "\n".join(scenarios[i] for i in ids) + "\n"
        try:
            r = subprocess.run([exe], input=text, capture_output=True, text=True,
                               timeout=max(30.0, timeout_per * len(ids)))
            out = r.stdout
        except subprocess.TimeoutExpired as ex:
            out = ex.stdout.decode() if isinstance(ex.stdout, bytes) else (ex.stdout or "")
        chunks = _split_done(out)
        for j, i in enumerate(ids):
            if j < len(chunks):
                results[i] = chunks[j]

    with ThreadPoolExecutor(max_workers=shards) as ex:
        list(ex.map(run_batch, idx))
    # scenarios lost to a crash of their batch: re-run one by one
    missing = [i for i in range(n) if results[i] is None]

    def run_one(i):
        try:
            r = subprocess.run([exe], input=scenarios[i] + "\n", capture_output=True, text=True, timeout=timeout_per * 3)
            chunks = _split_done(r.stdout)
            if chunks:
                results[i] = chunks[0]
            else:
                results[i] = {"crash": True, "rc": r.returncode, "stderr": r.stderr[-2000:], "partial": r.stdout[-4000:]}
        except subprocess.TimeoutExpired:
            results[i] = {"crash": True, "rc": "timeout", "stderr": "", "partial": ""}

    if missing:
        with ThreadPoolExecutor(max_workers=NCPU) as ex:
            list(ex.map(run_one, missing))
    return results


def _split_done(out):
    chunks, cur = [], []
    for line in out.splitlines():
        line = line.strip()
        if not line.startswith("{"):
            continue
        try:
            ev = json.loads(line)
        except json.JSONDecodeError:
            continue
        if ev.get("e") == "done":
            chunks.append(cur)
            cur = []
        else:
            cur.append(ev)
    return chunks


# ------------------------------------------------------------------------------------------ verdicts
def load_known_findings():
    path = os.path.join(VERIF, "known_findings.txt")
    findings = []
    if os.path.exists(path):
        for l in open(path):
            l = l.strip()
            m = re.match(r"finding:\s+property=(\S+)\s+case=(\S+)\s+(.*)", l)
            if m:
                findings.append({"property": m.group(1), "case": m.group(2), "what": m.group(3)})
    return findings


class Check:
    """Collects the outcome of one check run and writes the evidence file / exit status."""

    def __init__(self, pid, level="model_checking"):
        self.pid = pid
        self.t0 = time.time()
        self.level = level
        self.tier = tier()
        self.seed = seed()
        self.violations = []  # (case_key, description, replay_path)
        self.known_hits = []
        self.coverage = {"states": 0, "transitions": 0, "traces_validated_against_impl": 0, "samples": [],
                         "evaluations": 0, "distinct_nontrivial": 0, "trusted_base": [
                             "TLC 1.8.0 (tla2tools.jar) evaluating the TLA+ modules under /verif/spec",
                             "g++ 12 build of /repo's working tree (harness/Makefile), abort-stubs for the 5 uncompilable TUs",
                             "the native driver /verif/harness and the glue that maps scenarios/traces between TLC and the driver"]}
        self.assumptions = []
        self.notes = {}
        self._distinct = set()
        self.known = [f for f in load_known_findings() if f["property"] == pid]
        d = outdir(pid)   # replay files of earlier runs are stale: remove them
        for f in os.listdir(d):
            if f.startswith("violation-"):
                os.unlink(os.path.join(d, f))

    def add_tlc(self, res, label):
        self.coverage["states"] += res.distinct if hasattr(res, "distinct") and res.distinct else res.states
        self.coverage["transitions"] += res.transitions
        self.notes.setdefault("tlc_runs", []).append({"label": label, "states": res.states, "transitions": res.transitions,
                                                      "wall_s": round(res.wall, 2), "cmd": res.cmd[-300:]})
        if res.coverage:
            self.notes.setdefault("action_coverage", {}).update({label + ":" + k: v for k, v in res.coverage.items()})

    def sample(self, obj, limit=3):
        if len(self.coverage["samples"]) < limit:
            self.coverage["samples"].append(obj)

    def count(self, key_obj, nontrivial=True):
        self.coverage["evaluations"] += 1
        if nontrivial:
            h = hashlib.sha1(json.dumps(key_obj, sort_keys=True).encode()).hexdigest()
            self._distinct.add(h)

    def violation(self, case_key, description, replay_text, ext="scn"):
        """Report a property violation unless it is a listed known finding."""
        for f in self.known:
            if f["case"] == case_key:
                if f not in self.known_hits:
                    self.known_hits.append(f)
                return
        h = hashlib.sha1((case_key + description).encode()).hexdigest()[:12]
        path = os.path.join(outdir(self.pid), "violation-%s.%s" % (h, ext))
        with open(path, "w") as f:
            f.write(replay_text)
        with open(path + ".why", "w") as f:
            f.write(description + "\n")
        self.violations.append((case_key, description, path))

    def finish(self):
        self.coverage["distinct_nontrivial"] = len(self._distinct)
        for f in self.known_hits:
            print("KNOWN-FINDING: property=%s %s" % (self.pid, f["what"]))
        shown = set()
        for key, desc, path in self.violations:
            if path in shown:
                continue
            shown.add(path)
            print("VIOLATION property=%s replay=%s" % (self.pid, path))
            print("  " + desc.replace("\n", "\n  ")[:1500])
        ev = {"property_id": self.pid, "tier": self.tier, "seed": self.seed, "level": self.level,
              "coverage": self.coverage, "assumptions": self.assumptions, "wall_s": round(time.time() - self.t0, 2),
              "violations": len(shown), "known_findings_reproduced": [f["case"] for f in self.known_hits],
              "notes": self.notes}
        os.makedirs(EVID, exist_ok=True)
        with open(os.path.join(EVID, self.pid + ".json"), "w") as f:
            json.dump(ev, f, indent=1, sort_keys=True, default=str)
        print("%s %s: %d scenarios executed (%d distinct non-trivial), %d TLC states, %d traces validated, %d violation(s), %.1fs"
              % (self.pid, self.tier, self.coverage["evaluations"], self.coverage["distinct_nontrivial"],
                 self.coverage["states"], self.coverage["traces_validated_against_impl"], len(shown),
                 time.time() - self.t0))
        return 1 if shown else 0


def main_wrapper(fn):
    try:
        rc = fn()
    except MachineryError as e:
        print("MACHINERY-FAILURE: " + str(e), file=sys.stderr)
        sys.exit(2)
    sys.exit(rc)
