"""C11, level B: the keyed reduce as a heap-indexed combiner tree with cached partial results (spec/ReduceTree.tla),
bound to the real operator.

  models   MCReduceTree.tla: the WHOLE reachable space of 4 keys / capacity 0-1-2-4 (add + max, with / without zero, generic
           combiner with bindings and lifted kernel, elements that get their value later than they are added) against level A
           (ResultIsFold) and the level-B invariants (CacheTruthful, ShapeExact, KeyMapBijection, ...); every named slip
           (FAULTS) must be rejected with the invariant listed next to it.
  replay   behaviours TLC prints (one per distinct final state of the bounded instance; random walks over 6-8 keys whose
           cycles are planned: grow, drain, remove the LAST leaf, remove the first leaf while the moved one ticks, ticks only)
           become dictionary scripts for the engine driver (`dsrc -> reduce -> rrec`, late values: `dsrc -> map_(delay 1) ->
           reduce`).  The dictionary the operator reads and the result are recorded every cycle; ReduceTreeTrace.tla (TLC)
           judges each cycle against level A on the RECORDED dictionary (clauses C11.*); the model's own predictions (result,
           whether the output ticks, the dictionary it assumed) are compared afterwards - a difference that level A accepts is
           DRIFT, never a violation.
Hook: reduce_model.run(chk, rng) from check_ops.check_c11."""
import json
import os

import hg

QUICK_FAULTS = [("noold", "InvNoLeafBoundTwice"), ("noticks", "InvResultIsFold"), ("ascending", "InvResultIsFold"),
                ("firstunset", "InvListScanIsFold"), ("growpartial", "InvResultIsFold"), ("nomapfix", "InvKeyMapBijection")]
MORE_FAULTS = [("noold8", "InvResultIsFold"), ("noolds", "InvShapeExact"), ("noticksg", "InvCacheTruthful"),
               ("ascendingg", "InvNothingLeftScheduled"), ("norebind", "InvResultIsFold"), ("norebindb", "InvBindingsExact"),
               ("nozero1", "InvResultIsFold"), ("nomincap", "InvCapacityOk"), ("nopub", "InvPublishedIsRoot"),
               ("addpending", "InvLeavesAreTheValid")]
FAULTS = QUICK_FAULTS + MORE_FAULTS


def models_start(quick):
    if quick:
        free = [("quick", "4 keys, generic add zero: whole space"), ("pend3", "3 keys, late values, lifted max: whole space")]
    else:
        free = [(c, c) for c in ("full", "lifted", "gnozero", "lzero", "ops3", "ops3l", "deep8", "deep8g")]
    # a bounded pool (the machine is shared): two model runs at a time next to the two foreground runs of behaviours();
    # the handle has the shape hg.models_finish expects
    from concurrent.futures import ThreadPoolExecutor
    ex = ThreadPoolExecutor(max_workers=2)
    futs = []
    for c, label in free:
        futs.append(("MCReduceTree", "ReduceTree " + label, None,
                     ex.submit(hg.tlc, "MCReduceTree", "ReduceTree.%s.cfg" % c, timeout=3000, workers=2, metatag="reduceB-" + c)))
    for f, inv in (QUICK_FAULTS if quick else FAULTS):
        futs.append(("MCReduceTree", "ReduceTree fault " + f, inv,
                     ex.submit(hg.expect_violation, "MCReduceTree", "ReduceTree.%s.cfg" % f, inv, timeout=1800, workers=1, metatag="reduceB-" + f)))
    return ex, futs


def behaviours(quick, rng):
    """[(source label, behaviour)] printed by TLC; every run also checks all invariants on every state it visits."""
    from concurrent.futures import ThreadPoolExecutor
    emits = ("emit3", "emitg3") if quick else ("emit", "emitg", "emitmax", "emitlate")
    sims = ("sim", "simlate") if quick else ("sim", "simg", "simlate")

    def one(c):
        if c in sims:
            return hg.tlc("MCReduceTree", "ReduceTree.%s.cfg" % c, workers=2, simulate="num=%d" % (8 if quick else 150), depth=70,
                          timeout=240 if quick else 1500, extra=["-seed", str(hg.seed())], metatag="reduceB-" + c)
        return hg.tlc("MCReduceTree", "ReduceTree.%s.cfg" % c, workers=2, timeout=1500, metatag="reduceB-" + c)
    with ThreadPoolExecutor(max_workers=2) as ex:
        results = list(ex.map(one, emits + sims))
    out, runs = [], []
    for c, res in zip(emits + sims, results):
        if res.violation:
            raise hg.MachineryError("ReduceTree.tla (%s) violates its own invariants:\n%s" % (c, res.violation))
        bs = hg.printed_json(res, "RTREE")
        if quick and len(bs) > 120:       # deterministic sample of the bounded instance
            bs = rng.sample(bs, 120)
        out += [(c, b) for b in bs]
        runs.append((res, c))
    return out, runs


T0 = 1


def scenario(sid, b, variant):
    """behaviour -> engine scenario text.  Model cycle c is engine time c + 1 (T0 = 1: at the start time only the zero ticks)."""
    hist = b["hist"]
    late = b["pend"] == "one"
    at = {}

    def put(t, s):
        at.setdefault(t, []).append(s)
    for i, cyc in enumerate(hist, start=1):
        c = i + T0
        for o in cyc["ops"]:
            if o["op"] == "rem":
                put(c, "-%d" % o["k"])
            elif o["op"] == "add":
                put(c, "%d=%d" % (o["k"], o["v"]))
            elif o["op"] == "tick":
                put(c - 1 if late else c, "%d=%d" % (o["k"], o["v"]))       # through delay(1) a value arrives one cycle later
            elif o["op"] == "addp":
                nxt = hist[i]["ops"] if i < len(hist) else []
                v = next((x["v"] for x in nxt if x["op"] == "val" and x["k"] == o["k"]), 1)
                put(c, "%d=%d" % (o["k"], v))
    script = ";".join("%d:%s" % (t, ",".join(at[t])) for t in sorted(at))
    if b["lifted"]:
        comb = b["comb"]                                    # library operators add_ / max_
    else:
        comb = "gadd" if variant % 2 == 0 else "nadd"       # sub-graph combiner / node combiner
    zero = " zero=%d" % b["zero"] if b["haszero"] else ""
    head = ["scn rtree%d" % sid, "opt start=1 end=%d" % (len(hist) + T0 + 2)]
    if late:
        body = ["graph g0 nin=1", "n 10 delay d=1 in=a0", "out 10", "endgraph", "graph root", "n 1 dsrc script=" + (script or "99:1=1"),
                "n 2 map g=0 in=1", "n 3 reduce in=2 comb=%s%s" % (comb, zero), "n 4 rrec in=3,2", "n 5 drec in=2", "endgraph", "run"]
    else:
        body = ["graph root", "n 1 dsrc script=" + (script or "99:1=1"), "n 3 reduce in=1 comb=%s%s" % (comb, zero), "n 4 rrec in=3,1",
                "n 5 drec in=1", "endgraph", "run"]
    return "\n".join(head + body)


def observed(tr):
    """per engine time: the dictionary the operator reads (valid elements) and the recorded result"""
    dicts, recs = {}, {}
    for e in tr:
        if e["e"] == "drec" and e["id"] == 5:
            dicts[e["t"]] = sorted(map(list, e["val"]))
        elif e["e"] == "rrec" and e["id"] == 4:
            recs[e["t"]] = e
    return dicts, recs


def judge(items, tag):
    """level A by TLC (ReduceTreeTrace.tla) -> {id: verdict}"""
    if not items:
        return {}, []
    d = hg.outdir("_work")
    nsh = min(4, max(1, len(items) // 150))
    from concurrent.futures import ThreadPoolExecutor

    def one(k):
        path = os.path.join(d, "reducetree-%s-%d-%d.json" % (tag, os.getpid(), k))
        with open(path, "w") as f:
            json.dump(items[k::nsh], f)
        res = hg.tlc("ReduceTreeTrace", "ReduceTreeTrace.cfg", env={"REDUCE_FILE": path}, workers=1, timeout=1500, metatag="reduceB-trace%d" % k)
        os.unlink(path)
        if res.violation:
            raise hg.MachineryError("ReduceTreeTrace.tla failed:\n" + res.violation)
        return res
    with ThreadPoolExecutor(max_workers=nsh) as ex:
        results = list(ex.map(one, range(nsh)))
    verdicts = {}
    for res in results:
        for v in hg.printed_json(res, "RVERDICT"):
            verdicts[v["id"]] = v
    missing = [it["id"] for it in items if it["id"] not in verdicts]
    if missing:
        raise hg.MachineryError("TLC printed no verdict for reduce observations %s" % missing[:5])
    return verdicts, results


WANT = {"many": "C11.two_or_more_elements_must_give_their_fold_without_the_zero",
        "single_zero": "C11.single_element_with_zero_must_give_combine_of_element_and_zero",
        "single_nozero": "C11.single_element_without_zero_must_give_the_element",
        "empty_zero": "C11.empty_collection_with_zero_must_give_the_zero",
        "empty_nozero": "C11.empty_collection_without_zero_must_have_no_result"}


def corrupted(items):
    """the binding has teeth: corrupted copies of observations (judged in the same TLC run); a copy of an observation that
    level A accepts must be rejected with the clause of the case the corruption breaks -> (copies, {copy id: (case, original id)})"""
    bad, expect, seen = [], {}, set()
    for it in items:
        for i, c in enumerate(it["cycles"]):
            n = len(c[1])
            case = "many" if n >= 2 else ("single" if n == 1 else "empty") + ("_zero" if it["haszero"] else "_nozero")
            if case in seen:
                continue
            seen.add(case)
            cc = json.loads(json.dumps(it))
            cyc = cc["cycles"][i]
            if case == "empty_nozero":
                cyc[2], cyc[3] = 1, 7             # a result although nothing is valid and no zero was given
            elif case == "many" and it["haszero"]:
                cyc[3] = cyc[3] + it["zero"]      # the zero folded into a reduction over two or more elements
            else:
                cyc[3] = cyc[3] + 1               # a stale / wrong partial result
            cc["cycles"] = cc["cycles"][:i + 1]
            cc["id"] = 9000000 + len(bad)
            expect[cc["id"]] = (case, it["id"])
            bad.append(cc)
            break
        if len(seen) == 5:
            break
    return bad, expect


def check_corrupted(verdicts, expect):
    shown = {}
    for cid, (case, orig) in expect.items():
        if verdicts[orig]["why"]:
            continue                              # the original is itself a violation: reported on its own
        got = verdicts[cid]["why"]
        if got != WANT[case]:
            raise hg.MachineryError("corrupted reduce observation (%s) was not rejected with %s but with '%s'" % (case, WANT[case], got))
        shown[case] = {"clause": got, "at_time": verdicts[cid]["at"], "required": verdicts[cid]["want"], "handed_over": verdicts[cid]["got"]}
    return shown


def run(chk, rng):
    quick = chk.tier == "quick"
    handle = models_start(quick)
    behs, runs = behaviours(quick, rng)
    for res, c in runs:
        chk.add_tlc(res, "ReduceTree " + c)
    scns = [scenario(k, b, k) for k, (_, b) in enumerate(behs)]
    traces = hg.run_driver("engine", scns)
    items, meta = [], {}
    for k, ((src, b), scn, tr) in enumerate(zip(behs, scns, traces)):
        chk.count({"scn": scn})
        if isinstance(tr, dict):
            chk.violation("C11.crash", "driver crashed/hung on a history printed by ReduceTree.tla: %s" % json.dumps(tr)[:300], "# C11 reduce (model history)\n" + scn + "\n")
            continue
        ret = [e for e in tr if e["e"] == "ret"]
        if any(e["e"] in ("wirefail", "harnessfail") for e in tr) or not ret or ret[0]["ok"] != 1:
            chk.violation("C11.run_failed", "reduce scenario did not run to completion: %s" % [e for e in tr if e["e"] in ("wirefail", "harnessfail", "ret")],
                          "# C11 reduce (model history)\n" + scn + "\n")
            continue
        dicts, recs = observed(tr)
        if not dicts:
            continue
        first = min(dicts)
        cycles, cur = [], []
        for t in sorted(set(dicts) | set(recs)):
            cur = dicts.get(t, cur)
            if t >= first and t in recs:     # before the collection first ticks the result is not constrained beyond check_c11's rule
                cycles.append([t, cur, recs[t]["ok"], recs[t]["v"] if recs[t]["ok"] else 0])
        items.append({"id": k, "comb": b["comb"], "haszero": b["haszero"], "zero": b["zero"], "cycles": cycles})
        meta[k] = (src, b, scn, dicts, recs)
    bad, expect = corrupted(items)
    verdicts, tres = judge(items + bad, "obs")
    for res in tres:
        chk.coverage["states"] += res.states
        chk.coverage["transitions"] += res.transitions
    drift = {"result": 0, "tick": 0, "dictionary": 0, "probe": 0}
    cov = {"growths": 0, "remove_last_leaf": 0, "moved_leaf_ticks_in_removal_cycle": 0, "to_empty_and_regrow": 0, "max_live": 0}
    nviol = 0
    for it in items:
        k = it["id"]
        src, b, scn, dicts, recs = meta[k]
        v = verdicts[k]
        chk.coverage["traces_validated_against_impl"] += 1
        hist = b["hist"]
        cov["growths"] += sum(1 for c in hist if c["grew"])
        cov["remove_last_leaf"] += sum(1 for c in hist if c["rmlast"])
        cov["moved_leaf_ticks_in_removal_cycle"] += sum(1 for c in hist if c["mvtick"])
        lives = [c["live"] for c in hist]
        cov["to_empty_and_regrow"] += sum(1 for i in range(1, len(lives) - 1) if lives[i] == 0 and lives[i - 1] > 0 and lives[i + 1] > 0)
        cov["max_live"] = max([cov["max_live"]] + lives)
        if v["why"]:
            nviol += 1
            chk.violation(v["why"], "%s: cycle %d of a history printed by ReduceTree.tla (%s): level A requires %s over the recorded dictionary %s, "
                          "reduce produced %s" % (v["why"], v["at"], src, "no result" if not v["want"][0] else v["want"][1],
                                                  dicts.get(v["at"]), "no result" if not v["got"][0] else v["got"][1]),
                          "# %s\n%s\n" % (v["why"], scn))
            continue
        # level B: what the model predicted, cycle by cycle (DRIFT only)
        live = {}
        for c, cyc in enumerate(hist, start=1 + T0):
            for o in cyc["ops"]:
                if o["op"] == "rem":
                    live.pop(o["k"], None)
                elif o["op"] in ("add", "val", "tick"):
                    live[o["k"]] = o["v"]
            if not cyc["ops"]:
                continue
            why = None
            if c not in recs:
                why = ("probe", "the result probe did not run at time %d although the collection ticked" % c)
            elif c in dicts and dicts[c] != sorted([kk, vv] for kk, vv in live.items()):
                why = ("dictionary", "time %d: the model assumed the valid elements %s, the operator read %s" % (c, sorted(live.items()), dicts[c]))
            elif (recs[c]["ok"], recs[c]["v"] if recs[c]["ok"] else 0) != (cyc["ok"], cyc["v"]):
                why = ("result", "time %d: predicted result %s, recorded %s" % (c, (cyc["ok"], cyc["v"]), (recs[c]["ok"], recs[c]["v"])))
            elif bool(recs[c]["rm"]) != bool(cyc["tick"]):
                why = ("tick", "time %d: predicted the output %s, it %s" % (c, "ticks" if cyc["tick"] else "does not tick",
                                                                               "ticked" if recs[c]["rm"] else "did not tick"))
            if why:
                drift[why[0]] += 1
                if drift[why[0]] <= 2:
                    print("DRIFT C11 reduce tree (%s) %s: %s | ops %s | scenario: %s" % (src, why[0], why[1], json.dumps(cyc["ops"]), scn.replace("\n", " / ")))
                break
    shown = check_corrupted(verdicts, expect)
    hg.models_finish(chk, handle)
    for k in (0, len(behs) - 1):
        if 0 <= k < len(scns):
            chk.sample({"model_history_scenario": scns[k].splitlines()}, limit=5)
    chk.notes["reduce_model"] = {"behaviours": len(behs), "by_source": {s: sum(1 for x, _ in behs if x == s) for s in sorted({x for x, _ in behs})},
                                 "judged_by_level_A": len(items), "violations": nviol, "drift": drift, "covered": cov,
                                 "faults_rejected": [f for f, _ in (QUICK_FAULTS if quick else FAULTS)],
                                 "corrupted_observations_rejected": shown}


if __name__ == "__main__":
    import random
    import sys

    def main():
        if len(sys.argv) > 1:
            os.environ["VERIF_TIER"] = sys.argv[1]
        chk = hg.Check("C11")
        chk_evid = hg.EVID
        hg.EVID = hg.outdir("reduceB")          # standalone runs keep the registered evidence file untouched
        run(chk, random.Random(hg.seed() * 7919 + 11))
        rc = chk.finish()
        hg.EVID = chk_evid
        print(json.dumps(chk.notes["reduce_model"], indent=1))
        return rc
    hg.main_wrapper(main)
