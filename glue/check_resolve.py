#!/usr/bin/env python3
"""C19: operator resolution.  spec/Resolution.tla holds both levels: level A = the property (first-order matching with one
type per variable, output = substitution, no match -> resolution error, shared best rank -> ambiguity error, else the unique
minimum-rank candidate; ranks are whatever the tree reports; and, independent of any rank formula, the selected candidate is
never strictly more general - by pattern subsumption - than another matching candidate; an overload that needs a numeric
conversion of a scalar value neither wins over nor ties with an otherwise identical one that takes the value exactly; a
candidate whose parameters match the arguments is never reported as rejected), level B = the implementation-shaped model (sequential matcher,
documented rank formula, stable sort + tie test).  MCResolution.tla enumerates families x argument tuples x registration
orders, checks B against A's clauses and order independence exhaustively, and prints every scenario with B's predictions.
Variadic candidates (OperatorImpl.variadic; a candidate line marks its tail pattern with '*') are part of both levels: level A
says what a tail accepts (every tail argument an instance of the tail pattern under its own extension of the fixed parameters'
bindings; the result bindings and the output come from the fixed parameters alone), level B is the tail loop with the scoped
copy of the map; the named faults of level B (Resolution.fault_*.cfg) must violate level A.
Each scenario is replayed (all registration orders) into build/hgv_resolve, which registers run-time constructed overloads
in the real OperatorRegistry; every recorded outcome is validated by spec/ResolutionTrace.tla (level A -> VIOLATION) and
compared with B's prediction (mismatch -> DRIFT)."""
import argparse
import itertools
import json
import os
import random
import sys

sys.path.insert(0, os.path.dirname(os.path.abspath(__file__)))
import hg
import tracecheck

KEEP = {"solo", "res", "end"}
FAULTS = ("tail_scalar_shares_map", "tail_ts_shares_map", "tail_ignores_fixed_bindings", "tail_first_argument_only",
          "unbound_output_size_defaults")
SIG = {"k": "SIG", "s": "", "c": []}


# ------------------------------------------------------------------------------------------ type / pattern language
def T(k, s="", c=()):
    return {"k": k, "s": s, "c": list(c)}


def term_text(t):
    k, s, c = t["k"], t["s"], t["c"]
    if k in ("sc", "sv", "tv", "sz"):
        return s
    if k == "conc":
        return "!" + term_text(c[0])
    if k in ("TS", "TSS", "REF"):
        return "%s<%s>" % (k, term_text(c[0]))
    if k == "TSL":
        return "TSL<%s,%s>" % (term_text(c[0]), s)
    if k == "TSD":
        return "TSD<%s,%s>" % (term_text(c[0]), term_text(c[1]))
    if k == "TSB":
        return "TSB{%s}" % ",".join("%s:%s" % (n, term_text(x)) for n, x in zip(s.split(","), c))
    if k == "SIG":
        return "SIGNAL"
    return "?" + k


class _P:
    def __init__(self, text):
        self.t, self.i = text, 0

    def eat(self, lit):
        if self.t.startswith(lit, self.i):
            self.i += len(lit)
            return True
        return False

    def expect(self, lit):
        if not self.eat(lit):
            raise ValueError("cannot parse %r at %d: expected %s" % (self.t, self.i, lit))

    def ident(self):
        b = self.i
        while self.i < len(self.t) and (self.t[self.i].isalnum() or self.t[self.i] == "_"):
            self.i += 1
        if b == self.i:
            raise ValueError("cannot parse %r at %d: identifier expected" % (self.t, self.i))
        return self.t[b:self.i]

    def term(self):
        if self.eat("TSS<"):
            a = self.term(); self.expect(">")
            return T("TSS", "", [a])
        if self.eat("TSL<"):
            a = self.term(); self.expect(",")
            n = "#" + self.ident() if self.eat("#") else self.ident()
            self.expect(">")
            return T("TSL", n, [a])
        if self.eat("TSD<"):
            a = self.term(); self.expect(","); b = self.term(); self.expect(">")
            return T("TSD", "", [a, b])
        if self.eat("TSB{"):
            names, cs = [], []
            while True:
                names.append(self.ident()); self.expect(":"); cs.append(self.term())
                if self.eat("}"):
                    break
                self.expect(",")
            return T("TSB", ",".join(names), cs)
        if self.eat("TS<"):
            a = self.term(); self.expect(">")
            return T("TS", "", [a])
        if self.eat("REF<"):
            a = self.term(); self.expect(">")
            return T("REF", "", [a])
        if self.eat("SIGNAL"):
            return T("SIG")
        if self.eat("!"):
            return T("conc", "", [self.term()])
        if self.eat("~"):
            return T("tv", "~" + self.ident())
        if self.eat("$"):
            return T("sv", "$" + self.ident())
        return T("sc", self.ident())


def parse_term(text):
    try:
        p = _P(text)
        t = p.term()
        if p.i != len(text):
            raise ValueError("trailing text in %r" % text)
        return t
    except ValueError:
        return T("unparsable", text)


def bind_term(var, text):
    return T("sz", text) if var.startswith("#") else parse_term(text)


# ------------------------------------------------------------------------------------------ scenarios
def cand_line(c):
    ps = [term_text(p) for p in c["ps"]]
    if c.get("v"):
        ps[-1] = "*" + ps[-1]      # the tail pattern of a variadic candidate
    return "c %s %s -> %s" % (c["l"], ";".join(ps) or "-", term_text(c["o"]))


def scenario_text(name, cands, args, orders):
    lines = ["fam " + name] + [cand_line(c) for c in cands]
    lines.append("args " + (";".join(term_text(a) for a in args) or "-"))
    lines += ["order " + ",".join(o) for o in orders]
    lines.append("run")
    return "\n".join(lines)


def parse_scenario(text):
    """inverse of scenario_text (for --replay)"""
    cands, args, orders, name = [], [], [], "replay"
    for l in text.splitlines():
        w = l.split()
        if not w or w[0].startswith("#"):
            continue
        if w[0] == "fam":
            name = w[1] if len(w) > 1 else name
        elif w[0] == "c":
            ps = [] if w[2] == "-" else w[2].split(";")
            var = bool(ps) and ps[-1].startswith("*")
            cands.append({"l": w[1], "ps": [parse_term(x.lstrip("*")) for x in ps], "o": parse_term(w[4]), "v": var})
        elif w[0] == "args":
            args = [] if len(w) < 2 or w[1] == "-" else [parse_term(x) for x in w[1].split(";")]
        elif w[0] == "order":
            orders.append(w[1].split(","))
    return name, cands, args, orders


def all_orders(labels, rng=None, limit=24):
    perms = [list(p) for p in itertools.permutations(labels)]
    if len(perms) > limit:
        keep = [perms[0], perms[-1]] + (rng or random.Random(1)).sample(perms[1:-1], limit - 2)
        perms = keep
    return perms


def trace_item(k, cands, args, events):
    """driver events -> the item ResolutionTrace.tla reads (types as terms)"""
    ev = []
    for e in events:
        if e["e"] == "solo":
            ev.append({"e": "solo", "rk": {c["l"]: c["eff"] for c in e["c"]}})
        elif e["e"] == "res":
            ev.append({"e": "res", "order": e["order"], "kind": e["kind"], "sel": e["sel"], "rk": e["rk"],
                       "bind": [[v, bind_term(v, t)] for v, t in e["bind"]],
                       "out": parse_term(e["out"]) if e["kind"] == "ok" else SIG, "tied": e["amb"], "rej": e["rej"]})
    ev.append({"e": "end"})
    cands = [{"l": c["l"], "ps": c["ps"], "o": c["o"], "v": bool(c.get("v"))} for c in cands]
    return {"id": k, "prog": {"cands": cands, "args": args}, "ev": ev}


def canon_driver(e):
    return (e["kind"], e["sel"], tuple(sorted((v, t) for v, t in e["bind"])), e["out"] if e["kind"] == "ok" else "",
            tuple(sorted(e["amb"])) if e["kind"] == "ambiguous" else ())


def canon_model(x):
    return (x["kind"], x["sel"], tuple(sorted((v, term_text(t)) for v, t in x["bind"])),
            term_text(x["out"]) if x["kind"] == "ok" else "", tuple(sorted(x["tied"])))


def subsumption_report(singles):
    """informational: arity-1 candidates p, q where p accepts strictly more argument types than q although the tree ranks p
    as at least as specific as q (rank(p) <= rank(q)).  singles: {label: (base rank, set of accepted argument texts)}"""
    out = []
    for p, (rp, mp) in sorted(singles.items()):
        for q, (rq, mq) in sorted(singles.items()):
            if p != q and mq and mq < mp and rp <= rq:
                out.append("%s(rank %d) accepts a strict superset of %s(rank %d)" % (p, rp, q, rq))
    return out


def main():
    ap = argparse.ArgumentParser()
    ap.add_argument("pid")
    ap.add_argument("--tier", default=None)
    ap.add_argument("--replay", default=None)
    a = ap.parse_args()
    if a.tier:
        os.environ["VERIF_TIER"] = a.tier
    hg.build(("resolve",))
    if a.replay:
        text = "\n".join(l for l in open(a.replay).read().splitlines() if not l.startswith("#"))
        tr = hg.run_driver("resolve", [text])[0]
        if isinstance(tr, dict):
            print(json.dumps(tr))
            return 1
        print("\n".join(json.dumps(e) for e in tr))
        _, cands, args, _ = parse_scenario(text)
        verdicts, _, _ = tracecheck.validate("ResolutionTrace", "ResolutionTrace.cfg", [trace_item(0, cands, args, tr)], "c19r", keep=KEEP)
        acc, why = verdicts[0]
        print("ResolutionTrace: %s" % ("accepted" if not why else "rejected at event %d: %s" % (acc, why)))
        return 1 if why else 0

    chk = hg.Check("C19")
    quick = chk.tier == "quick"
    rng = random.Random(hg.seed() * 131 + 19)
    # 0. level B with a named slip must violate level A (the invariants have teeth).  Quick tier: MCResolution ASSUMEs it in the
    #    exhaustive run itself (FaultCaughtBy, no extra JVM); thorough tier: additionally one configuration per fault in which
    #    TLC must report InvLevelA violated, running while the rest works
    faults = None if quick else hg.models_start(
        [("MCResolution", "Resolution.fault_%s.cfg" % f, "InvLevelA", "Resolution-fault-" + f) for f in FAULTS], workers=1)
    # 1. exhaustive: level B against level A's clauses, order independence, matcher agreement; prints every scenario
    res = hg.tlc("MCResolution", "Resolution.quick.cfg" if quick else "Resolution.thorough.cfg", timeout=3600)
    if res.violation:
        raise hg.MachineryError("Resolution.tla violates its invariants (spec defect):\n" + res.violation)
    chk.add_tlc(res, "Resolution-exhaustive")
    chk.coverage["exhaustive"] = True
    if not quick:   # families of four (all 24 registration orders), model checked only
        res4 = hg.tlc("MCResolution", "Resolution.fam4.cfg", timeout=3600)
        if res4.violation:
            raise hg.MachineryError("Resolution.tla violates its invariants for families of four (spec defect):\n" + res4.violation)
        chk.add_tlc(res4, "Resolution-families-of-4")
    pool = hg.printed_json(res, "POOL")
    if not pool:
        raise hg.MachineryError("MCResolution did not print its pools")
    cand_of = {c["l"]: c for c in pool[0]["c"]}
    args_of = {"u": pool[0]["au"], "b": pool[0]["ab"], "v": pool[0]["av"]}
    printed = hg.printed_json(res, "RES")
    if not printed:
        raise hg.MachineryError("MCResolution printed no scenario")
    chk.notes["model_scenarios"] = len(printed)

    cases = []  # (name, cands, args, orders, model record or None)
    for k, r in enumerate(printed):
        cands = [cand_of[l] for l in r["fam"]]
        cases.append(("m%d" % k, cands, args_of[r["ak"]][r["ai"] - 1], all_orders(r["fam"], rng), r))
    # 2. beyond the model's bound: larger random families from the whole pool, validated by level A only
    labels_u = sorted(l for l in cand_of if l.startswith("u"))
    labels_b = sorted(l for l in cand_of if l.startswith("b"))
    labels_v = sorted(l for l in cand_of if l.startswith("v"))
    for k in range(250 if quick else 6000):
        kind = rng.choice("uubbv")
        if kind == "v":     # variadic candidates next to fixed-arity ones of both arities, argument tuples of length 0..4
            fam = rng.sample(labels_v, rng.choice([2, 3])) + rng.sample(labels_u, rng.choice([0, 1, 2])) + rng.sample(labels_b, rng.choice([1, 2]))
        else:
            two = kind == "b"
            base = labels_b if two else labels_u
            fam = rng.sample(base, rng.choice([4, 4, 5])) + (rng.sample(labels_u if two else labels_b, 1) if rng.random() < 0.2 else []) \
                + (rng.sample(labels_v, 1) if rng.random() < 0.2 else [])
        fam.sort()
        args = rng.choice(args_of[kind])
        cases.append(("r%d" % k, [cand_of[l] for l in fam], args, all_orders(fam, rng, 12), None))

    drift = {"rank_formula": 0, "pattern_rank": 0, "effective_rank": 0, "survivor_set": 0, "outcome": 0, "observer": 0}
    drift_samples, singles, sample_scns = [], {}, {}
    st = trn = nitems = nres = 0
    rejected = []   # (clause, family size, case, description, replay text)
    CHUNK = 30000   # bounded memory: scenarios are replayed and validated chunk by chunk
    for lo in range(0, len(cases), CHUNK):
        part = cases[lo:lo + CHUNK]
        scns = [scenario_text(name, cands, args, orders) for name, cands, args, orders, _ in part]
        for k in (0, len(printed) // 2, len(cases) - 1):
            if lo <= k < lo + CHUNK:
                sample_scns[k] = scns[k - lo]
        traces = hg.run_driver("resolve", scns, timeout_per=5.0)
        items = []
        for j, ((name, cands, args, orders, model), scn, tr) in enumerate(zip(part, scns, traces)):
            k = lo + j
            if isinstance(tr, dict):
                chk.count({"scn": scn})
                chk.violation("crash:" + name.rstrip("0123456789"), "driver crashed/hung: %s" % json.dumps(tr)[:300], "# %s\n%s\n" % (name, scn))
                continue
            bad = [e for e in tr if e["e"] == "harnessfail"]
            if bad:
                raise hg.MachineryError("driver rejected scenario %s: %s\n%s" % (name, bad[0].get("msg"), scn))
            solo = [e for e in tr if e["e"] == "solo"]
            ress = [e for e in tr if e["e"] == "res"]
            if len(solo) != 1 or len(ress) != len(orders):
                raise hg.MachineryError("malformed trace for %s: %s" % (name, json.dumps(tr)[:400]))
            chk.count({"fam": [c["l"] for c in cands], "args": [term_text(x) for x in args]},
                      nontrivial=len(cands) > 1 and any(c["m"] for c in solo[0]["c"]))
            items.append(trace_item(k, cands, args, tr))
            nres += len(ress)
            for e in ress:
                if e["kind"] == "ok" and e["dsel"] != e["sel"]:
                    drift["observer"] += 1
            if len(cands) == 1 and len(args) == 1 and not cands[0].get("v"):
                c = solo[0]["c"][0]
                base, acc = singles.setdefault(c["l"], (c["base"], set()))
                if c["m"]:
                    acc.add(term_text(args[0]))
            if model is None:
                continue
            # level B predictions
            pred = {p["l"]: p for p in model["pred"]}
            for c in solo[0]["c"]:
                p = pred[c["l"]]
                for key, field in (("rank_formula", "base"), ("pattern_rank", "prank"), ("effective_rank", "eff")):
                    if c[field] != p[field]:
                        drift[key] += 1
                        if len(drift_samples) < 6:
                            drift_samples.append("%s %s: tree %s=%d, Resolution.tla predicts %d (args %s)" % (
                                name, cand_line(cand_of[c["l"]]), field, c[field], p[field], ";".join(term_text(x) for x in args)))
                if bool(c["m"]) != bool(p["m"]):
                    drift["survivor_set"] += 1
                    if len(drift_samples) < 6:
                        drift_samples.append("%s %s: tree %s args %s, Resolution.tla predicts the opposite" % (
                            name, cand_line(cand_of[c["l"]]), "accepts" if c["m"] else "rejects", ";".join(term_text(x) for x in args)))
            want = canon_model(model["exp"])
            for e in ress:
                if canon_driver(e) != want:
                    drift["outcome"] += 1
                    if len(drift_samples) < 6:
                        drift_samples.append("%s order %s: tree %s, Resolution.tla predicts %s" % (name, ",".join(e["order"]), canon_driver(e), want))
        # more than a few concurrent JVMs are slower than one here (start-up dominates): 1..4 shards
        verdicts, s1, t1 = tracecheck.validate("ResolutionTrace", "ResolutionTrace.cfg", items, "c19",
                                               shards=max(1, min(4, len(items) // 4000)), keep=KEEP)
        st += s1
        trn += t1
        nitems += len(items)
        for it in items:
            k = it["id"]
            at, why = verdicts[k]     # at = 1-based index of the rejected event
            if why:
                name, cands, args = cases[k][0], cases[k][1], cases[k][2]
                rejected.append((why, len(cands), ",".join(c["l"] for c in cands) + "|" + ";".join(term_text(x) for x in args),
                                 "ResolutionTrace.tla rejects the recorded resolution at event %d: %s\nfamily: %s\narguments: %s\nevent: %s" % (
                                     at, why, " | ".join(cand_line(c) for c in cands), ";".join(term_text(x) for x in args),
                                     json.dumps(it["ev"][at - 1])[:700] if 0 < at <= len(it["ev"]) else ""),
                                 "# %s\n# %s\n%s\n" % (name, why, scns[k - lo])))
    # report the smallest failing scenarios of every clause (all of them are counted in the evidence)
    rejected.sort(key=lambda r: (r[0], r[1], r[2]))
    per_clause = {}
    for why, _, case, desc, replay in rejected:
        per_clause[why] = per_clause.get(why, 0) + 1
        if per_clause[why] <= 3:
            chk.violation("res:%s:%s" % (why, case), desc, replay)
    if rejected:
        chk.notes["rejected_scenarios_per_clause"] = per_clause
    if faults is not None:
        hg.models_finish(chk, faults)
    chk.notes["level_B_named_faults_rejected_by_level_A"] = {
        "faults": list(FAULTS), "how": "ASSUME FaultCaughtBy in MCResolution" + ("" if quick else " + one fault configuration each (InvLevelA violated)")}
    chk.coverage["states"] += st
    chk.coverage["transitions"] += trn
    chk.coverage["traces_validated_against_impl"] += nitems
    chk.notes["resolutions_validated"] = nres
    chk.notes["drift_vs_level_B"] = drift
    if any(drift.values()):
        print("DRIFT: the tree disagrees with level B of Resolution.tla although ResolutionTrace (level A) decides the verdict: "
              + ", ".join("%s=%d" % kv for kv in sorted(drift.items()) if kv[1]))
        for s in drift_samples:
            print("  DRIFT " + s)
        chk.notes["drift_samples"] = drift_samples
    sub = subsumption_report(singles)
    chk.notes["informational_subsumption_vs_rank"] = sub[:40]
    for k in sorted(sample_scns):
        chk.sample({"scenario": sample_scns[k].splitlines()})
    chk.coverage["rule"] = (
        "Resolution.tla exhaustively: every family of %s x every argument tuple of that arity (%s) x every registration order "
        "(+ mixed-arity families + focus groups: every family of 1..3 of {scalar parameter exact / converted / variable / promoted}, "
        "of overloads that differ only in a concrete scalar parameter, of REF / SIGNAL patterns nested in TSD / TSL / TSB next to "
        "their bare-variable and structural rivals, of output patterns whose size variable no input binds next to legitimate rivals, "
        "of VARIADIC candidates (18: tail-only / shared / size variables, REF / SIGNAL / concrete tails, 0..2 fixed parameters) next to "
        "fixed-arity rivals x 34 argument tuples of length 0..4 with time-series and plain values in heterogeneous tails of length 0..3, "
        "each x the argument tuples that separate them)%s; each (family, arguments) is replayed in all its registration orders (and every candidate "
        "alone) against the real OperatorRegistry; plus random families of 4-6 overloads from the whole pool in up to 12 orders "
        "(level A only); non-trivial = more than one overload and at least one of them matches; distinct = distinct "
        "(family, arguments)") % (
        ("1..3 overloads of one arity drawn from 14 arity-1 / 12 arity-2 candidates", "12 / 14 tuples", "") if quick else
        ("1..3 overloads of one arity drawn from 24 arity-1 / 20 arity-2 candidates and of 1..2 drawn from all 40 / 34", "26 / 36 tuples",
         "; families of 1..4 from the quick pool in all 24 orders are model checked without replay"))
    chk.assumptions.append("overloads are run-time constructed OperatorImpl records (patterns built with TypePattern / ScalarPattern / "
                           "ParamPattern, rank from operator_dispatch_detail::operator_rank); variadic tails are positional overflow arguments "
                           "(no packed from_variadic_tail TSL source, no keyword-only parameters behind the tail); no defaults, kwargs collectors, "
                           "requires predicates, default resolvers, size hints or requested output types; REF in argument types at the top level and as a TSD value / "
                           "TSL element; scalar values int 7 / float 1.5 / str \"x\"")
    return chk.finish()


if __name__ == "__main__":
    hg.main_wrapper(main)
