"""code -> spec: validate driver traces against a TLA+ trace specification with TLC (batched, sharded)."""
import json
import os
import re
from concurrent.futures import ThreadPoolExecutor

import hg

KEEP = {"cycle", "cycled", "eval", "fn", "req", "gstart", "nstarted", "nstop", "ret", "err"}


def validate(module, cfg, items, tag, shards=None, keep=KEEP, timeout=1800):
    """items: list of {"id":…, "prog":…, "ev":[events]}.  Returns ({id: (accepted_events, verdict)}, states, transitions).
    verdict "" = accepted.  Every id gets exactly one verdict or the run is a machinery failure."""
    if not items:
        return {}, 0, 0
    shards = shards or min(hg.NCPU, max(1, len(items) // 20))
    parts = [items[k::shards] for k in range(shards)]
    d = hg.outdir("_work")

    def run(k):
        part = parts[k]
        if not part:
            return {}, 0, 0
        path = os.path.join(d, "traces-%s-%d-%d.json" % (tag, os.getpid(), k))
        with open(path, "w") as f:
            json.dump([{"id": it["id"], "prog": it["prog"], "ev": [e for e in it["ev"] if e["e"] in keep]} for it in part], f)
        res = hg.tlc(module, cfg, env={"TRACE_FILE": path}, workers=1, timeout=timeout, metatag="%s-%d" % (tag, k))
        os.unlink(path)
        if res.violation:
            raise hg.MachineryError("trace spec %s reported a violation of its own:\n%s" % (module, res.violation))
        out = {}
        # TLC wraps long tuples over several lines
        for m in re.finditer(r'<<\s*"VERDICT",\s*(-?\d+|"[^"]*"),\s*(\d+),\s*"([^"]*)"\s*>>', "\n".join(res.lines)):
            key = m.group(1)
            key = int(key) if not key.startswith('"') else key.strip('"')
            out[key] = (int(m.group(2)), m.group(3))
        missing = [it["id"] for it in part if it["id"] not in out]
        if missing:
            raise hg.MachineryError("no verdict for traces %s\n%s" % (missing[:5], "\n".join(res.lines[-30:])))
        return out, res.states, res.transitions

    verdicts, st, tr = {}, 0, 0
    with ThreadPoolExecutor(max_workers=shards) as ex:
        for out, a, b in ex.map(run, range(shards)):
            verdicts.update(out)
            st += a
            tr += b
    return verdicts, st, tr
